"""Differential test for refactoring t1 (aspect kernel: early continue, merged compass branches) (property C10).

Runs the affected public functions on many inputs (all integer/float dtypes,
NaN/inf, odd shapes, C/F/non-contiguous/read-only layouts, numpy and dask) and
compares a bit-exact digest (dtype, shape, raw bytes) of every result with the
digest recorded from the unmodified tree.  Also re-checks C10 itself: inputs are
untouched, output shares no memory with input, and shape/dims/coords/attrs/
backend are preserved.

usage: equiv.py            -> compare with EXPECTED, exit 0 iff identical
       equiv.py --record   -> print the EXPECTED table for the current tree
"""
import hashlib
import sys
import warnings

import dask
import dask.array as da
import numpy as np
import xarray as xr

import xrspatial
from xrspatial import aspect

warnings.filterwarnings('ignore')
dask.config.set(scheduler='synchronous')

DTYPES = ['int8', 'int16', 'int32', 'int64', 'uint8', 'uint16', 'uint32', 'uint64',
          'float32', 'float64']
SHAPES = [(1, 1), (1, 8), (2, 5), (3, 3), (4, 3), (7, 11), (10, 6)]

CASES = [('aspect', aspect, [{}, {'name': 'asp2'}])]


def base_array(shape, dtype, seed):
    rng = np.random.RandomState(seed)
    n = shape[0] * shape[1]
    if np.dtype(dtype).kind == 'f':
        a = (rng.rand(n) * 40 - 10).astype(dtype)
        a = np.where(rng.rand(n) < 0.3, np.round(a), a).astype(dtype)
        if n > 4:
            a[rng.randint(0, n, size=max(1, n // 9))] = np.nan
            a[rng.randint(0, n)] = np.inf
            a[rng.randint(0, n)] = -np.inf
    else:
        info = np.iinfo(dtype)
        lo = max(info.min, -6)
        hi = min(info.max, 12)
        a = rng.randint(lo, hi + 1, size=n).astype(dtype)
        if n > 6:
            a[rng.randint(0, n)] = info.max
            a[rng.randint(0, n)] = info.min
    a = a.reshape(shape)
    if seed % 3 == 0 and shape[0] >= 4 and shape[1] >= 4:
        a[0:4, 0:4] = 3  # plateau: flat neighbourhoods
    return a


def layouts(a):
    yield 'C', np.ascontiguousarray(a)
    yield 'F', np.asfortranarray(a)
    big = np.zeros((a.shape[0] * 2 + 1, a.shape[1] * 3 + 2), dtype=a.dtype)
    view = big[1::2, 2::3]
    view[...] = a
    yield 'view', view
    ro = a.copy()
    ro.setflags(write=False)
    yield 'ro', ro


def make_raster(data, backend, chunks=None):
    h, w = data.shape
    if backend == 'dask':
        data = da.from_array(data, chunks=chunks)
    r = xr.DataArray(
        data, dims=['lat', 'lon'], name='src',
        coords={'lat': np.linspace(5.0, 5.0 + 0.5 * (h - 1), h)[::-1].copy(),
                'lon': np.linspace(-3.0, -3.0 + 0.25 * (w - 1), w),
                'band': 7, 'time': np.datetime64('2020-01-02')},
        attrs={'res': (0.25, 0.5), 'crs': 'EPSG:4326', 'nested': {'k': [1, 2]}})
    return r


def digest(arr):
    arr = np.asarray(arr)
    hsh = hashlib.sha256()
    hsh.update(str(arr.dtype).encode())
    hsh.update(str(arr.shape).encode())
    hsh.update(np.ascontiguousarray(arr).tobytes())
    return hsh.hexdigest()[:16]


def check_identity(key, src, snap, out, backend):
    """C10 itself: identity kept, input untouched, no shared writable memory."""
    errs = []
    if out.shape != src.shape or out.dims != src.dims:
        errs.append('shape/dims')
    if dict(out.attrs) != snap['attrs'] or dict(src.attrs) != snap['attrs']:
        errs.append('attrs')
    if set(out.coords) != set(snap['coords']):
        errs.append('coord names')
    for k, v in snap['coords'].items():
        if k in out.coords and not np.array_equal(np.asarray(out.coords[k].values), v):
            errs.append('out coord ' + k)
        if not np.array_equal(np.asarray(src.coords[k].values), v):
            errs.append('in coord ' + k)
    if backend == 'dask':
        if not isinstance(out.data, da.Array):
            errs.append('backend')
    else:
        if not isinstance(out.data, np.ndarray):
            errs.append('backend')
    if digest(snap['raw']) != snap['digest']:
        errs.append('input values changed')
    if backend == 'numpy':
        if np.shares_memory(out.data, snap['raw']):
            errs.append('shares memory')
        if out.data.flags.writeable and out.size:
            out.data[...] = 0
            if digest(snap['raw']) != snap['digest']:
                errs.append('write-through')
    return errs


def run_all():
    results = {}
    problems = []
    seed = 0
    for fname, func, kwargs_list in CASES:
        for shape in SHAPES:
            for dtype in DTYPES:
                seed += 1
                a = base_array(shape, dtype, seed)
                variants = [('numpy', lay, arr, None) for lay, arr in layouts(a)]
                variants.append(('dask', 'c1', np.ascontiguousarray(a), shape))
                variants.append(('dask', 'c2', np.ascontiguousarray(a),
                                 (max(1, (shape[0] + 1) // 2), max(1, (shape[1] + 1) // 2))))
                variants.append(('dask', 'c3', np.asfortranarray(a), (3, 4)))
                for backend, lay, arr, chunks in variants:
                    for ki, kwargs in enumerate(kwargs_list):
                        key = '%s|%s|%s|%s|%s|%d' % (fname, shape, dtype, backend, lay, ki)
                        src = make_raster(arr, backend, chunks)
                        snap = {'raw': arr, 'digest': digest(arr),
                                'attrs': {'res': (0.25, 0.5), 'crs': 'EPSG:4326',
                                          'nested': {'k': [1, 2]}},
                                'coords': {k: np.asarray(v.values).copy()
                                           for k, v in src.coords.items()}}
                        try:
                            out = func(src, **kwargs)
                            val = out.data.compute() if backend == 'dask' else out.data
                            res = digest(val) + '|' + str(out.name)
                            errs = check_identity(key, src, snap, out, backend)
                            if errs:
                                problems.append((key, errs))
                        except Exception as e:  # recorded: must stay the same error
                            res = 'EXC:' + type(e).__name__
                        results[key] = res
    return results, problems


def fold(results):
    """one digest per (function, shape, dtype) to keep the table small"""
    folded = {}
    for key in sorted(results):
        g = '|'.join(key.split('|')[:3])
        folded.setdefault(g, hashlib.sha256()).update((key + '=' + results[key]).encode())
    return {g: h.hexdigest()[:20] for g, h in folded.items()}


EXPECTED = {'aspect|(1, 1)|float32': 'e0796bd9cedc1d00da33',
 'aspect|(1, 1)|float64': 'a09ea329a245ee2e89e4',
 'aspect|(1, 1)|int16': '03c78c1d17a799314577',
 'aspect|(1, 1)|int32': 'e2f06d9c8a62b001c726',
 'aspect|(1, 1)|int64': '301a38ec609efabc66a1',
 'aspect|(1, 1)|int8': '8bf4852bb2c799cbe791',
 'aspect|(1, 1)|uint16': 'a91e8d1bcb55f3405e6a',
 'aspect|(1, 1)|uint32': '94a9e3c9ff930667b040',
 'aspect|(1, 1)|uint64': '533c0dff7a4d2c344134',
 'aspect|(1, 1)|uint8': 'f255aa4e112effeff40f',
 'aspect|(1, 8)|float32': '9bf4463de9b19d5481a5',
 'aspect|(1, 8)|float64': 'dded9a300ea54201fbd2',
 'aspect|(1, 8)|int16': 'b9cea73aaa0d327841c0',
 'aspect|(1, 8)|int32': 'a8928de26ab0f2fc8303',
 'aspect|(1, 8)|int64': 'b04938a89213ddb78d87',
 'aspect|(1, 8)|int8': '895ddacb2eb93a9250c6',
 'aspect|(1, 8)|uint16': 'cf3dee7d366951400223',
 'aspect|(1, 8)|uint32': 'ccaec503edd941bbb41c',
 'aspect|(1, 8)|uint64': '74958e14a2ee699dfc57',
 'aspect|(1, 8)|uint8': '16021aaac34d6161443b',
 'aspect|(10, 6)|float32': '75860bc8b023e7ff300b',
 'aspect|(10, 6)|float64': '857422dd6d6fdd882afa',
 'aspect|(10, 6)|int16': 'c75420f8d544b0468517',
 'aspect|(10, 6)|int32': '37cfba3925e27968f21a',
 'aspect|(10, 6)|int64': 'e8132169cfe53995f3ad',
 'aspect|(10, 6)|int8': '6ebbf9c8503e0fe190cd',
 'aspect|(10, 6)|uint16': 'bcc51f964d4528dae88a',
 'aspect|(10, 6)|uint32': '186cc75106d1273d7060',
 'aspect|(10, 6)|uint64': 'df8f4a7b5fba276fc147',
 'aspect|(10, 6)|uint8': 'e272a852cdc04e6c760c',
 'aspect|(2, 5)|float32': 'ab3b6383c00071e1e43f',
 'aspect|(2, 5)|float64': '5618478f909e831e2d56',
 'aspect|(2, 5)|int16': '8e7953bf25abcdf026d1',
 'aspect|(2, 5)|int32': '42ecfcbf37396706483c',
 'aspect|(2, 5)|int64': '59f2f2968712d51f0b6c',
 'aspect|(2, 5)|int8': '7c00ac9ebe1af2775a45',
 'aspect|(2, 5)|uint16': '222e9817b2400ff994af',
 'aspect|(2, 5)|uint32': 'dff269774e1633fee0fd',
 'aspect|(2, 5)|uint64': 'fe6396bcdf8a1fadca97',
 'aspect|(2, 5)|uint8': '295dd35fefe635105729',
 'aspect|(3, 3)|float32': '80db07a3ee217ba603d3',
 'aspect|(3, 3)|float64': '26408a28ecaa1c0d2c4e',
 'aspect|(3, 3)|int16': '79d1f54c91ad33837e68',
 'aspect|(3, 3)|int32': '0170fddd26a2b784cfd6',
 'aspect|(3, 3)|int64': '29657992e9482bb476d5',
 'aspect|(3, 3)|int8': 'd1c24703bf0adfd01dff',
 'aspect|(3, 3)|uint16': 'd4d08686c26a82753763',
 'aspect|(3, 3)|uint32': 'd9a12c9f9a5d66488088',
 'aspect|(3, 3)|uint64': 'b46df5c3836f6d6b1a1e',
 'aspect|(3, 3)|uint8': '194a2c0c15e8e1c67518',
 'aspect|(4, 3)|float32': '919a8c74d3ffb5f31406',
 'aspect|(4, 3)|float64': 'b2dd41016fb713baf555',
 'aspect|(4, 3)|int16': '6e2a1f3ef6c5846af63e',
 'aspect|(4, 3)|int32': 'ccad2f33e68d6c463f80',
 'aspect|(4, 3)|int64': 'fc3d8e2b3a556a77a437',
 'aspect|(4, 3)|int8': '0510fad8c07a8f279e57',
 'aspect|(4, 3)|uint16': '9c3fbd296f5bbc9e015e',
 'aspect|(4, 3)|uint32': '3f421224a0573b1d0dd6',
 'aspect|(4, 3)|uint64': '8d4d2d11e084c169c9f8',
 'aspect|(4, 3)|uint8': 'e181d32b48f1cbb64477',
 'aspect|(7, 11)|float32': '61b8fa5d21d329aebaee',
 'aspect|(7, 11)|float64': 'a89964d215891b875032',
 'aspect|(7, 11)|int16': '6ad09b399b1e59f784ce',
 'aspect|(7, 11)|int32': '64fc7932b238ddb70e5f',
 'aspect|(7, 11)|int64': 'b34d29c3151b08c881aa',
 'aspect|(7, 11)|int8': '0f1cf41e14a6302d44e5',
 'aspect|(7, 11)|uint16': 'a33b633efccdc84d34d0',
 'aspect|(7, 11)|uint32': 'a28803107cf7819a1342',
 'aspect|(7, 11)|uint64': 'a558caadda21e1f1c482',
 'aspect|(7, 11)|uint8': 'a14e572b1d5091bf9ed8'}


def main():
    assert xrspatial.__file__.startswith('/tmp/seed/TC10/'), xrspatial.__file__
    results, problems = run_all()
    folded = fold(results)
    if '--record' in sys.argv:
        import pprint
        pprint.pprint(folded)
        print('n_cases', len(results), 'n_exc',
              sum(v.startswith('EXC') for v in results.values()), 'problems', problems[:5])
        return 0
    bad = [k for k in sorted(set(folded) | set(EXPECTED)) if folded.get(k) != EXPECTED.get(k)]
    for k in bad[:20]:
        print('DIFF', k, folded.get(k), EXPECTED.get(k))
    for p in problems[:20]:
        print('C10 VIOLATION', p)
    print('cases=%d groups=%d diffs=%d c10_problems=%d'
          % (len(results), len(folded), len(bad), len(problems)))
    return 1 if (bad or problems) else 0


if __name__ == '__main__':
    sys.exit(main())
