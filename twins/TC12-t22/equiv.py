"""Differential test for refactoring t22 (classify.py public wrappers / messages).

Runs binary, reclassify, quantile, equal_interval, natural_breaks on numpy and dask
inputs and compares a digest of (dtype, shape, raw bytes, name, dims, coords, attrs,
printed text, warning text) against digests recorded from the UNMODIFIED tree, plus a
few independently computed expectations.  Exit 0 iff everything is identical.

usage: cd <worktree> && PYTHONPATH=<worktree> python equiv.py [--record]
"""
import contextlib
import hashlib
import io
import json
import sys
import warnings

import dask.array as da
import numpy as np
import xarray as xr

import xrspatial
from xrspatial.classify import binary, equal_interval, natural_breaks, quantile, reclassify

print('xrspatial from', xrspatial.__file__)

EXPECTED = {
"big/dask/binary": "7d6867044bc1643861f540c630d47adce224df92e9ce8966054df2f540a49b28",
"big/dask/binary-name": "f37cc60a8d99588851eb8ede727c05e02bdd60777cd1bc2cdbf695231512ba0e",
"big/dask/equal_interval2": "f920c4dfd9e4694c4d11efed3394d15b8e39a38e696953dde42736b7bb58a998",
"big/dask/equal_interval3": "ccb558adf7de754b9cfc3d064f37cc9cabd0e9fd5a848bdb6018a2a6dd232f53",
"big/dask/equal_interval5": "c42faebc67a8db66cae473ab9ffd11c8174e262253bd57566b96eadba4c459a6",
"big/dask/equal_interval8": "762011f1cc8256018990bec4a2224211dce910c17331899ef1d3f136fdaf4379",
"big/dask/quantile2": "3d7ee1d29a82f0b6528a629933e6c005d4f58fd021157e2c50df9bf13bc199f6",
"big/dask/quantile3": "c611d7df6ab6c4147fe2b74d982cbeccd09af85f9ce9510d92390aa70c43a3db",
"big/dask/quantile5": "12660ab895689282111daa39a0f1b71bba86849e29fc36b1f80c162d8a589ea9",
"big/dask/quantile8": "beab0ba4b454bdd4a42ee9cf52adfe554ffcf650b2d5bf981d66d4475ceb5e30",
"big/dask/reclassify": "692c1f97edab99f3400492c126250cfa9e57fddad25b1953b9bed0dccffd63d9",
"big/dask/reclassify-1bin": "dedacdd002a8781f740be721f8eb995fe16e4d60ec4c76514d9430f7f13e3e18",
"big/numpy/binary": "07a878a25afc853692c8e46dd743baa62961ad2ee1646cb8c5cc32465d8a1523",
"big/numpy/binary-name": "7f338c43f2989e60d346db93f62e3c34263670ed4eb9c1c50f57093e27650fbb",
"big/numpy/equal_interval2": "1aea7b013702b4b7d4f01a21edeff9f2f27498652468f3fddf38bb1926c5552d",
"big/numpy/equal_interval3": "87f83f6617119bfa2df5ddaed7bc3944e011e7d8fd5d9b9b2cf3535e39630c40",
"big/numpy/equal_interval5": "f0f35a98515dc6652b75a931a55ff76fdca458d9b111812ff812eea1d3595deb",
"big/numpy/equal_interval8": "c84f8a3e2d6740c64899d871379be7a00d4b907aca5565b07f28d8685cbe687e",
"big/numpy/natural_breaks2-20000": "c5624b9938de9f4e5afaf0deaa338a6e28f7df887bf6c52d789c470779763a27",
"big/numpy/natural_breaks4-None": "40504137ec027d331fe2e7f735cee41f3da0f155a340caf348b86533ab0d7bba",
"big/numpy/natural_breaks5-20": "474f932a0f2269faa4aefd274a256558ea24ace2bd5da1b78af94c16472d59e9",
"big/numpy/natural_breaks7-20000": "526e747ea841c73a0a195935c338d7700996632a4f584df1f8f84e684ef5e6b1",
"big/numpy/quantile2": "f9dd851ff2d9fae602a9a754fe7865fb0ca9c7e9154532ec21443061e681fd97",
"big/numpy/quantile3": "fbf190ee4a602291ced0368751c0b70b3d16b0b4af75aac899e2887ec26cede8",
"big/numpy/quantile5": "a53e1e8abc953fd89be4800bed299fb8e99297d6c4aa067c9411979c4b6bcb55",
"big/numpy/quantile8": "ed710801ced6392124700047dc28f6acc3044cb44dfb4b157d4a627494f96703",
"big/numpy/reclassify": "6a74a7666b011ba7f70b9f42631f54ca2b64034b4cc1b0bd90ca16e094df09d7",
"big/numpy/reclassify-1bin": "052db02429a7bb2881e8b9ff89310866382919c682fbca13e267e2fda37b455e",
"col/dask/binary": "f0dc8e3853c85c1dcf8ecfac2325d58d217a0d3474fe25ce3fd98cb9f7dc1af3",
"col/dask/binary-name": "7ca1e80397b2e81d3e264f25ddeedde5f9117c528fd703e3330b8e29ea9a9a30",
"col/dask/equal_interval2": "7c5b8346905e193b17e55b39c3815c5c602d76e0868a0895bf1ff754659494da",
"col/dask/equal_interval3": "5547f3157a08cf779f194958e2a720fb3584356d1cb3bb492ddb5e968c65ceb0",
"col/dask/equal_interval5": "6e9cc744aaa3e60bf606f38a22c8df4cb044ebff670dfca2b38231494b78ac0f",
"col/dask/equal_interval8": "4dd985a6e4cc01df8554f30c340e41114e7c2f3862ef5c4b141ea6fbc7f3b541",
"col/dask/quantile2": "3652504b8e11869fb1248d775c27ee0a507640d678d398d755f2602432d810d0",
"col/dask/quantile3": "2d4f604503d7293ecf017c476aa73835c8883711f82eaaf615eae44b14c85e52",
"col/dask/quantile5": "d1a91573046f28306a6f4d012f77155d937fa75ec443cfdbf2bf120fc66b9a66",
"col/dask/quantile8": "4f60f07426e83fc1d26efb84a1bb5b509339602a94903ca891775daedbc1a4f4",
"col/dask/reclassify": "296981c33032402f1dd8ea61bfcac83c4ed6a81b767bdbcb5f1653bdf8098eab",
"col/dask/reclassify-1bin": "b58f668f1fd35d4496e2f829b9929586cc62c1fca01315d8728ba865eb9f84ec",
"col/numpy/binary": "db923f475924246be398ab18fb624702697e02b3c9249fbd3d943c60b3d72bb7",
"col/numpy/binary-name": "fc11917b4db3d2bc946ad71ef73c9f494c9b2a3cd6fa185d389687ca6a1a121c",
"col/numpy/equal_interval2": "35593a8f475fc2fcf1aa6414b77454161f40369dc8b5b592715aa5222e701974",
"col/numpy/equal_interval3": "43c877a20a7902582e0938621e39ab8b417418c8763579e7029dbca2676aa64c",
"col/numpy/equal_interval5": "cd5b6875dc0c154ed3906db77d76b864ef5066231e82fb711ec43247b1b7abe5",
"col/numpy/equal_interval8": "a8d92eaa903924608b4e172f7eaa14e08b0bea3c10bb33ba44f07169d5224f5e",
"col/numpy/natural_breaks2-20000": "744094e697a21e2a513a6f58b299f356a18c2dc6cbf07ef59713864480f864a4",
"col/numpy/natural_breaks4-None": "093a24008643e9c27247d4918b7a0b162571f7a5c73b5b2290b8bd7ffee02ba2",
"col/numpy/natural_breaks5-20": "d467f070fb0e201cbac05c7472526cebfd6d7205e723edde45cc03d6f9480925",
"col/numpy/natural_breaks7-20000": "ae41babf515317fa4ae53fd64330015c60e992e5212c63eda4601d20809d4b6e",
"col/numpy/quantile2": "8668f16a16852e73cd3036458b3a50684f8195bca43e5baf3dda80df0b3c04bc",
"col/numpy/quantile3": "3a7e9b2775a275ddbbdc0ab10ac6378aee9ce8f3cb47d5d2fe87f7628c82c7af",
"col/numpy/quantile5": "5331371a46a9e7b6ae028900c57114f5da9d5caa9861603dc5f22b534c10595b",
"col/numpy/quantile8": "344ff2ce6963f348beef7ccb0bd1df3adcf85d9c1fa80821c2fd1957b259a115",
"col/numpy/reclassify": "d1f7c8c7a8abf5d6e5108662e95223216402c8e4c0cb50d2901a81bcd854da37",
"col/numpy/reclassify-1bin": "1ddd39afc60c5862d1f20246d5fd099ca5e1041dd7fcc3f8b1aae887af5223c5",
"f32/dask/binary": "35eeb01e64b6f6a55e5a012108c80417b765fa2ca625af60a9efe10c7aa4291a",
"f32/dask/binary-name": "73991fd4076c74b13f91b0fc55ce6cb61998662bdd76f960dc1398f36cd43b21",
"f32/dask/equal_interval2": "ab8d213d7b7c561bfdb0938af73fd7b0e861e8fddbe24c354e3145cc3a90ccb9",
"f32/dask/equal_interval3": "ffacc433a41af40a17918dd4a7ae562b0cb12cec57819f4661e80935eb211bc9",
"f32/dask/equal_interval5": "9f582bd626475bc0d50883ea50bfd14fb4c53ae2b06f70e968415d838899f836",
"f32/dask/equal_interval8": "8ee52e68a040266edf50f534cb123b9b795a201ef586894c1447d087b8eade5d",
"f32/dask/quantile2": "b7e15de1b4a30a432db7dbd1e00d7c71efedf55cc341377c2f483f94891920f9",
"f32/dask/quantile3": "2bbdf288f2c1be1f7eb82165bbcd5eecd143318e94c4c4198dd28c4a9f262d9e",
"f32/dask/quantile5": "c478947bc057ffe34e700fdcdf53d3199dfd15f7238a9f9e181407df2224bd1a",
"f32/dask/quantile8": "a8a16dce4f1334b9f40734edec15d7e2710a1411f40c0ebc08a2843f00e1b28c",
"f32/dask/reclassify": "8db19e68d3976030809a98a80f095d4099b93be29cf91459de3d2bb7f61348d7",
"f32/dask/reclassify-1bin": "448f6d8b99a92d7510dd3803b8836ce6637db3f4f1cbf53899b4c3ba24570e70",
"f32/numpy/binary": "a826a72bef36ad2d8d8e6bf6dbf4fbb4429892f273f4aee763f075a21ba38757",
"f32/numpy/binary-name": "7b4aecc635ebfb791b66681142c0594edc4e1ac179f62a04d8242e4c7fd275e9",
"f32/numpy/equal_interval2": "7be719ba106bd650f41e1074a5d6d5137c26c5bfa800aac826fe3c864af23645",
"f32/numpy/equal_interval3": "8a060f9f62ed1c459baf3e3fa2ad45ab0754cd000202b8ac7aaa9fe6f56585ee",
"f32/numpy/equal_interval5": "11b58de4155782125485c312eeb250e648e2b1d5699690f8df149e34bb2c3240",
"f32/numpy/equal_interval8": "6d14f793336951d54c423afffae12fa50bdfedaee961fb9a5e759a117799f05d",
"f32/numpy/natural_breaks2-20000": "1832f7b81d11d6288cc503c6685e832346fe1b49c74029660a308def0053abb4",
"f32/numpy/natural_breaks4-None": "35539da279cdd4458b5b407fb826752f260cf4b2d1dafd06fe091e91c8f9cb56",
"f32/numpy/natural_breaks5-20": "36603784244dafe9739517083917f7d1364688d5c2a20afeb86e1d004ad3699c",
"f32/numpy/natural_breaks7-20000": "94dff20debbf1209d6165772b926a266e3926e5ee605300b3be05dea66b4b8db",
"f32/numpy/quantile2": "d555782b56586ef28c11238f5f5cb717ea7f779947e30a1721b0a505478c0ac1",
"f32/numpy/quantile3": "2fd8b8fa2237b46c60df6208948e6adb94a355227aecce97ce4599dc2a7d457a",
"f32/numpy/quantile5": "4d50ce3974e38f9032aa13983e95319e57cbfa538df68f82bd7e44944bea90de",
"f32/numpy/quantile8": "41754fd04d6daeaf2210099201b2ef85c03d9a64394325a11654a6482946a0c7",
"f32/numpy/reclassify": "b80780997c1660adaf8a356026db7fb6a1a891ade3ce9c1af9165995b6678a2e",
"f32/numpy/reclassify-1bin": "f9661b1cfb59535fb95bb291fd499749eb509c4b73fe20392df8b5f1de167329",
"f64/dask/binary": "e223b0b1629702ec3c643a1dcd05010187355cfb70d9cdd870396446dfbae7f0",
"f64/dask/binary-name": "e2c5b5ab2b94d568c3dd34ca4637800f9646e3c171ab13e9b4d0e5311fe90932",
"f64/dask/equal_interval2": "ab8d213d7b7c561bfdb0938af73fd7b0e861e8fddbe24c354e3145cc3a90ccb9",
"f64/dask/equal_interval3": "ffacc433a41af40a17918dd4a7ae562b0cb12cec57819f4661e80935eb211bc9",
"f64/dask/equal_interval5": "9f582bd626475bc0d50883ea50bfd14fb4c53ae2b06f70e968415d838899f836",
"f64/dask/equal_interval8": "8ee52e68a040266edf50f534cb123b9b795a201ef586894c1447d087b8eade5d",
"f64/dask/quantile2": "b7e15de1b4a30a432db7dbd1e00d7c71efedf55cc341377c2f483f94891920f9",
"f64/dask/quantile3": "2bbdf288f2c1be1f7eb82165bbcd5eecd143318e94c4c4198dd28c4a9f262d9e",
"f64/dask/quantile5": "c478947bc057ffe34e700fdcdf53d3199dfd15f7238a9f9e181407df2224bd1a",
"f64/dask/quantile8": "a8a16dce4f1334b9f40734edec15d7e2710a1411f40c0ebc08a2843f00e1b28c",
"f64/dask/reclassify": "8db19e68d3976030809a98a80f095d4099b93be29cf91459de3d2bb7f61348d7",
"f64/dask/reclassify-1bin": "448f6d8b99a92d7510dd3803b8836ce6637db3f4f1cbf53899b4c3ba24570e70",
"f64/numpy/binary": "15939963a57376b10bb6db9a74c7c6df05fdd7a340392a9b645831e7719a36e7",
"f64/numpy/binary-name": "75d7febe17db4b2cfc59cb04ad8bf84117f7a5d69649b8d04dccf25760b01870",
"f64/numpy/equal_interval2": "7be719ba106bd650f41e1074a5d6d5137c26c5bfa800aac826fe3c864af23645",
"f64/numpy/equal_interval3": "8a060f9f62ed1c459baf3e3fa2ad45ab0754cd000202b8ac7aaa9fe6f56585ee",
"f64/numpy/equal_interval5": "11b58de4155782125485c312eeb250e648e2b1d5699690f8df149e34bb2c3240",
"f64/numpy/equal_interval8": "6d14f793336951d54c423afffae12fa50bdfedaee961fb9a5e759a117799f05d",
"f64/numpy/natural_breaks2-20000": "1832f7b81d11d6288cc503c6685e832346fe1b49c74029660a308def0053abb4",
"f64/numpy/natural_breaks4-None": "35539da279cdd4458b5b407fb826752f260cf4b2d1dafd06fe091e91c8f9cb56",
"f64/numpy/natural_breaks5-20": "36603784244dafe9739517083917f7d1364688d5c2a20afeb86e1d004ad3699c",
"f64/numpy/natural_breaks7-20000": "94dff20debbf1209d6165772b926a266e3926e5ee605300b3be05dea66b4b8db",
"f64/numpy/quantile2": "d555782b56586ef28c11238f5f5cb717ea7f779947e30a1721b0a505478c0ac1",
"f64/numpy/quantile3": "2fd8b8fa2237b46c60df6208948e6adb94a355227aecce97ce4599dc2a7d457a",
"f64/numpy/quantile5": "4d50ce3974e38f9032aa13983e95319e57cbfa538df68f82bd7e44944bea90de",
"f64/numpy/quantile8": "41754fd04d6daeaf2210099201b2ef85c03d9a64394325a11654a6482946a0c7",
"f64/numpy/reclassify": "b80780997c1660adaf8a356026db7fb6a1a891ade3ce9c1af9165995b6678a2e",
"f64/numpy/reclassify-1bin": "f9661b1cfb59535fb95bb291fd499749eb509c4b73fe20392df8b5f1de167329",
"few/dask/binary": "dff2b3ea84174a2041e15f313ac8329425909aaa9d881440490978c0dd217017",
"few/dask/binary-name": "abdf8b57f2c1dccb6882f58bc5d354ec4ef860c3914e23b86625270bc465ad5d",
"few/dask/equal_interval2": "a3dab90749fb9689ace5b1afe5869ae7d4607f957fcf32f347c2662f7597bd7d",
"few/dask/equal_interval3": "8c6462b03cf22dd6790bd22cbc919f3c05f55e72aa5a11249d25e435c0106330",
"few/dask/equal_interval5": "a9b33f26527ef75bb576b58ac3cbea6f71189df4c59d6be695da78740e92aadf",
"few/dask/equal_interval8": "19c9d141264d9b404f0884c519cf820970f2bbb90f86d897876b0495ae33d875",
"few/dask/quantile2": "a538b186daf735965793b7b76d99b63bb849cf0ff2b15d0546bea6b16a89cd86",
"few/dask/quantile3": "a538b186daf735965793b7b76d99b63bb849cf0ff2b15d0546bea6b16a89cd86",
"few/dask/quantile5": "a538b186daf735965793b7b76d99b63bb849cf0ff2b15d0546bea6b16a89cd86",
"few/dask/quantile8": "a538b186daf735965793b7b76d99b63bb849cf0ff2b15d0546bea6b16a89cd86",
"few/dask/reclassify": "7d1b57a219ceccef734a8778934b97690a8134083e2ae08d3687e2f26be29081",
"few/dask/reclassify-1bin": "3087c580c6463bc4fd8f6d7f05f34191e9fb79b791afd03e558f0a1e15e75354",
"few/numpy/binary": "384fd933f95539216ed1df7911e5ac9616a3817ce22562c3d7c3f8011b99febb",
"few/numpy/binary-name": "ab6b0ded3e4a82025b6914235cf25fe0b74356ed047f1947f7352d596dcc407d",
"few/numpy/equal_interval2": "fab07d1a1f6164d328876f82450ba31602db927e92e6478f4d62f5ee6218e3be",
"few/numpy/equal_interval3": "7a5b8a95675fab3cf7fd6843517b9a76768eab97ce79c6a5df3085daad24ed02",
"few/numpy/equal_interval5": "f0ca514574ea1ab5b88a4f46ae4529296fae27f191e2273b8cc551a3a5b1601c",
"few/numpy/equal_interval8": "d8ca5ebfaea1c4658aba96ee39c49b2ec2da0487fe43e10c867f56a6f30a201b",
"few/numpy/natural_breaks2-20000": "3ef8e37ebd125a09843efebf9332fbf8c96ba5d44d0e0f8748e4425dc1824df3",
"few/numpy/natural_breaks4-None": "a92eced483c4e38c25f1da26d46f7bbf4cc692898e293508beb67d2633313126",
"few/numpy/natural_breaks5-20": "edf0b7ff726e2368c819b2b3f56792ff8614971c3d8006940406c69c9fd6155d",
"few/numpy/natural_breaks7-20000": "b8f859b074379beabea43ab90c0f1017d62ad68931239f2f79a270888eb434b3",
"few/numpy/quantile2": "93003579ca8d788dacc7b043c6fdf4d2f1a22a46dd7471c5daac41c35d4a48b2",
"few/numpy/quantile3": "d9f9d980d0052268d4cfccddb02507bd96af4daf96df3d40140a5776a525cc8d",
"few/numpy/quantile5": "2623cc463d9518124be3c44a983e37800493ce419a2023d3eb9e7129ffe8b7f9",
"few/numpy/quantile8": "2623cc463d9518124be3c44a983e37800493ce419a2023d3eb9e7129ffe8b7f9",
"few/numpy/reclassify": "175f5e0776efb513d212e2d6b5b15d3a911f226e5014e855a1521c9795ba4d11",
"few/numpy/reclassify-1bin": "af25db385e5343fc08eea43251f15fb78475109243e84cc5cf3ea08ebcbeac2c",
"int32/dask/binary": "372830aa641c29101427efca242b9cca12fb651d72ecd1d1548b24f153014931",
"int32/dask/binary-name": "59b8894448744371fcaa99e2d89421af0c5c454a4467cfc4eaa877f6cdaa7b60",
"int32/dask/equal_interval2": "9d165318c737b468f956e5e2d1e2f3004f1645ed80fa93863d3bae9b24d53080",
"int32/dask/equal_interval3": "4b357d2d5aee1ecd1895edb0bc97e4284a251e8adde764162169182ae4cad990",
"int32/dask/equal_interval5": "c8587a3382f423c36bb3f52ac70ec4f53b4008c410a2b630d61c5b4a5c18e5ba",
"int32/dask/equal_interval8": "efe07575040ecdc361223720195f9b7dde04aeadf80a728b33e2eeeac0f1a9a4",
"int32/dask/quantile2": "8d56e9b2084c772ad6bf76e225316d943e3890e570424d561bb851ec96c0f612",
"int32/dask/quantile3": "e4e63d8ba9af2b585c7abb287a65d0e622a8f65d4f626f39ca1526636a9325aa",
"int32/dask/quantile5": "d417bbbdfa7e0617b07046924984d9f9ebe9a0ab7c32e59c1846e86682f52aa1",
"int32/dask/quantile8": "dbd1820e4dd5c41733eebb3771da46603fa509cfe1551d6102225962911b27b7",
"int32/dask/reclassify": "ade18b9ebb921ed35da812f7af13a6fc80d54398e44b60bd75043ab141362e9a",
"int32/dask/reclassify-1bin": "7538b9ff37eca58e984f92119048ef27928632ded10de173c109bf5a00d5df6a",
"int32/numpy/binary": "206132b51c95a5ebecb216067d503d8b5197a8ca4dccdfaad5ab479edc4dcb29",
"int32/numpy/binary-name": "a12ab4dd10a075ffc4640b93db316ead9ba58daf09a0eff4ee55a3153f4f5b1a",
"int32/numpy/equal_interval2": "1394329f01af7e58224ee87de112d2eafa3ab4b0c7f36839fd85e571ba63a6c3",
"int32/numpy/equal_interval3": "d55d7e9408ce035491faa734036c5f088599ab4ca64ac86d0788ffc3dd6ed6bf",
"int32/numpy/equal_interval5": "e7700cac737fea99e71d3008e8e9b3025b61c264fbeac3349b2576871e87df59",
"int32/numpy/equal_interval8": "24d7b951739603ec2884645d0f3855e720e6fbc558bf509a3d945c54a60fa76b",
"int32/numpy/natural_breaks2-20000": "75378d92a3351ba09ed83ccfb3aad3148a1ffa41199203cfc0cbac35d40e6f1d",
"int32/numpy/natural_breaks4-None": "01b0649a42061b9573781a755b0bb6b6431505a8b677649a5bb542eca4a90031",
"int32/numpy/natural_breaks5-20": "7b9d3f5f3651f2d43bb272a7f656e3543c63a0f8788d28538601814e57613deb",
"int32/numpy/natural_breaks7-20000": "8eb4c18fb8a28a94a0fadf59a3172c8386b1a3701e272350c87c2321e04c57f3",
"int32/numpy/quantile2": "3f1f711b90430e0fa60659bb91d49b82b8bbdf959d0eb7351c051c4b2f46af89",
"int32/numpy/quantile3": "94e1a68790d10a47838e8791456cd96731a5f42523c8f67d23d326601bad59db",
"int32/numpy/quantile5": "1f1b4ead8e487aaa505135c907fad5a48d3e95197fe594ce7e5f2778bca0b714",
"int32/numpy/quantile8": "ddc111801c7f2c0b5a97935d7bb7f280e3cc040a772d232d8c1d7fba209dc0f5",
"int32/numpy/reclassify": "ebdb54e547cf7b9908950d0612f1bed8264a6534c4308385c2e9cd5e516a2a0e",
"int32/numpy/reclassify-1bin": "65fb3948f8d1e384973f40948c75185286f57601fcdf615dc630876a9e34ed2a",
"int64/dask/binary": "301af12e3cae4bd1e7eab396203aa6fd3def89244842513a7c98bf19c922e348",
"int64/dask/binary-name": "9a710770a87ef6525921851afb51a94902b334f76c77ea692a07887c4209eede",
"int64/dask/equal_interval2": "dc7700212b96d3f2977015235b7238194622b91d64ee3100e6dea4aa2bd56fb4",
"int64/dask/equal_interval3": "0a640eba6ba35638e435ecc4dd4d1cfc3cac99a745eee6fc612875ae77305cd5",
"int64/dask/equal_interval5": "8aebabb5cf2c8acfcd7b5b3ec719df24e638e238be5910e450bb233e66862c40",
"int64/dask/equal_interval8": "7928809328024ec30388f39ce21a50fae40bfe03783e76b02e1e2bcca2264c8f",
"int64/dask/quantile2": "951c2dcdca495ab8db228b1c156fae89e5ffef7316f226457f34eec98d99e0eb",
"int64/dask/quantile3": "bb467393ae8d372aa7b10ebbe76671ad596afc050ae95e89be320157221e507a",
"int64/dask/quantile5": "332823295597be0dda64334bf2f8c216e5030fd32bead398db926bc612031ba2",
"int64/dask/quantile8": "4577e667563a2e1b5fbfb96cfe31e6a13c110ce8c236a180944713ec607efd94",
"int64/dask/reclassify": "32969d02edacc876e57610e262bff56c55ebf9a96d81c75776d63e1f922413d0",
"int64/dask/reclassify-1bin": "f0c4f4ac9ee9ede3761a74b5a2515873faf6f4832b201abdaff23f6c573bf4c6",
"int64/numpy/binary": "acd337fe8ea9b73c26aa59e3651e2f65b849de0f71b32bc938aa6b2bf7b5065e",
"int64/numpy/binary-name": "4185f7457ab46412773ca26c81dd1d624444d464375cbf750f810ab7c3f1e740",
"int64/numpy/equal_interval2": "7950eb6694b6619794be26f4f80c9e2f6723d04077e5a8508ee0249d80c4cf15",
"int64/numpy/equal_interval3": "0b52d8b20340a68f76b2a2a108cbff3e1f844cbb85894eef657745e6967951f7",
"int64/numpy/equal_interval5": "be13e18f50a577f9ab644ef3b3af109a6d683636fa9e2d2488f5c0454676ad0f",
"int64/numpy/equal_interval8": "41e00d60aa33e1711aa08acfe68be6945e09884e6aad02bb9f4c4891ca0e3385",
"int64/numpy/natural_breaks2-20000": "08c4aac82157a45c5a2b55bb30cc7a16d1c68b183f082e35714afd2b836e1939",
"int64/numpy/natural_breaks4-None": "0aee1f28f9efe3c48b03825d1c5ea106d0261dcbac351d43f981cce417532894",
"int64/numpy/natural_breaks5-20": "307f528f0dca2f7b18bfaa8dd29be673c0827bc016803ddb076b176253a36f1c",
"int64/numpy/natural_breaks7-20000": "c1ba5e7a8513f134845f402811f0e8249f994808f5a1b0a39a51bb1af90bd27a",
"int64/numpy/quantile2": "91c8233be0ba560aa8172e15b209c3f537161d5800de2f4940f8c6359e06cf05",
"int64/numpy/quantile3": "49f3c89a318b1294aeded6b49ed20ab0298bf763c9bce57fa6d532af5635a4d2",
"int64/numpy/quantile5": "85e9e3349296dfb2f31a66d980745dd415b8a62657ba7e5e22a7e350c0fae45f",
"int64/numpy/quantile8": "d73172e050a03e9028eadddc646f4405117e56e7557b6971905e94446d638396",
"int64/numpy/reclassify": "f74646f8e2ac54c2bf8005847644dd422dc6bff7fe78243b696cf0fd0d2d8f2a",
"int64/numpy/reclassify-1bin": "07061c9e5636942a114d80924018de87546869964f82b7fff4fd96368adea550",
"row/dask/binary": "16de47414fb481d9a981e82b7998a1cb4a3636d38437af00b2fd27d454ba2c13",
"row/dask/binary-name": "137444fe9dcf35a32a7d4948a4f4bc9ac3ff1827c10cb924f941886b4b8096ea",
"row/dask/equal_interval2": "1936635f7fd60e05e52258d3b824587a691ba8e8a00251a46a6350701e4207e0",
"row/dask/equal_interval3": "b108db4027a1bb0cd70214541efec73e8b1aae7e03b49f27f31c4e562e5c59b7",
"row/dask/equal_interval5": "a9b6686303da8bc4ef61d68afcb84e2a8cd7376de17f609be4e894b35fb78d8f",
"row/dask/equal_interval8": "e7663ed0ca4479b55dfc87863c828d6909a6ebc70133eec87c7a7853112f5a99",
"row/dask/quantile2": "496b44a353fe95149dbacacafd9edc42a4d7b011d625ce30dde7ed9f97fdb1bf",
"row/dask/quantile3": "b4cd5b5a5c5e77d521877c68c848a748e29af3430fc7e24f35414c55c3acd362",
"row/dask/quantile5": "1e2088dd07ef4687bc561d8e555cd4380272163d6b924d4e7d53464bcfd942f0",
"row/dask/quantile8": "0b807ee3e28727f86a5a8b9b8f207562e2aa2d733dcb3957077ce159fff5ac47",
"row/dask/reclassify": "e414b747f12f2a0998101abc052e2ddae713beaea6e8632a29078a083de86eb6",
"row/dask/reclassify-1bin": "0ff3f360136dbeba21e960320b377656c7f1d8f0499eaa7aca5234d071249832",
"row/numpy/binary": "ae46be0ad301dab78c6f5d018a614757bcce5a188fc6b1e4c0800a1d9c981e80",
"row/numpy/binary-name": "b5d30c0718211d605cbb4fe60a83fc4ed24158b73a28b664b4ae59d49675e5af",
"row/numpy/equal_interval2": "2c60e003ae413d384ef42cf64f386e3befd97470beffa2cb72c4c71f818d07aa",
"row/numpy/equal_interval3": "e3a056515058964110ec14ca04be55fd4a92aaacbb6ec8bbd952feddc52dbd84",
"row/numpy/equal_interval5": "e1a37220abe443ba7b04e6dee801c62f8f0dcbefe79cc79acbafa3186ff0712d",
"row/numpy/equal_interval8": "26246461c327e7024e889d6e6debb0dab483a8e4dcf8c5574284e18efafb5fac",
"row/numpy/natural_breaks2-20000": "ebbf6620a2de9549a6a141f482ef5a4129c3c329f40c2dcc02119c1a20a68585",
"row/numpy/natural_breaks4-None": "88b5f97c174b7f26e9dd34481ec9c72ca12a4fdc96d24f933887d3b61ecdd750",
"row/numpy/natural_breaks5-20": "1ee57aaf7e6483e82b1a45553f9e22d305876cf7c917f1eb154d3df5227dd944",
"row/numpy/natural_breaks7-20000": "a5559ed9419c23af8334f9b2af31a51a7056bf99b9c0ddad92d96f9acd9cad5a",
"row/numpy/quantile2": "f1cefee5a03dae3c537763a3ef583c81eeb8715ff02cd434ee39127f7ccb1732",
"row/numpy/quantile3": "af1c9023d95bd54978665e4e3694357259e5e8db1d267891651864375d9bd0d4",
"row/numpy/quantile5": "cbecf787a3503930c9ef4d4df80cca27646e9f228ec3c91d0f45013dbaf949f2",
"row/numpy/quantile8": "1a8ac2cf4b53cfa3c7fc05ced2a194f781b65ee3be2c1c10dc20cf9d25e91f6c",
"row/numpy/reclassify": "0567ea9084ca147bc69567cfba892bb568bdd972abeee8587abda9903b520472",
"row/numpy/reclassify-1bin": "8dfa3291e525cb022841fbc9b8ead13ea3c680e91d842301e7363d6cfa593892",
"ties/dask/binary": "f4eed52683e577059d18147e6a0bcd94feaa8918a3f8eaf50d5668ae2406f101",
"ties/dask/binary-name": "6ca29fd64767917ddfc5b613e9a5c97cc7595dcf563e100213b8f3633f4e30a8",
"ties/dask/equal_interval2": "6526dc60bd3beabf5ab4978fdbc07f73da0735c512f0d04e7c8b50e29d25bc84",
"ties/dask/equal_interval3": "eb848266bc92860a2ab82ea984b7b8c47474ad8828c573c80105d078f6018160",
"ties/dask/equal_interval5": "9707ee6284cf72350a183019d00a816f717f7f967b020ea9e13367d9bb038f38",
"ties/dask/equal_interval8": "addcd63b7e05abb3fdedc049a4ae32994df350cfc77b7c0184311c7ac910769b",
"ties/dask/quantile2": "2b9c7e8a36de65f88f6298478ed9f360257a8cbf24e8da674847c0838fe4d6a3",
"ties/dask/quantile3": "9fe807f0b88676e4991c9c07c8d2a33c4e1f046eba95f6548e7f235058ee26ef",
"ties/dask/quantile5": "8b4388b13189767a1488075c69f9b5f9413088b8224bbbad7b210cf1ebff39de",
"ties/dask/quantile8": "9e4f68f4d5714414013204b8a98c7fe220591e45d3bbd59a106bd41f0b962c24",
"ties/dask/reclassify": "26e3c5f107d0a1ccd163a1a2e82187fc70f07f736ab1da26bbc7da60d66eec1f",
"ties/dask/reclassify-1bin": "1f928e567eab53af68ddf74896608b5a82ee9e9dee1dca8e3941c75d2e96d8d3",
"ties/numpy/binary": "6c0ed34012c071be2b0761ef1bfa2debb300cce41bd95e2b9475145bb5546440",
"ties/numpy/binary-name": "fb61c04e53f4de6784fdf3109e3e51930926417910ac55cd787fc98c6fa9c5b3",
"ties/numpy/equal_interval2": "54e0b5376f0a4da4d67a4570d71e433fa8ce653e9a7d9410cd5fc55e28d9d132",
"ties/numpy/equal_interval3": "2da6122f8321d8a40811883fe0bd5f94b1d0ee8be9772dd350302522e94f7b18",
"ties/numpy/equal_interval5": "56d1414916d4f5106807c2af3b2927b20a656baea7d77db64a8dc29e058e24c5",
"ties/numpy/equal_interval8": "e82c1e0e3558c47706165c37e4112959c8b65d52863024df9df3e552ba9c6ace",
"ties/numpy/natural_breaks2-20000": "e44fb125611cc6379122a20dfaad8b7b6eccdcc20869be7ae25520afa6d1ac1e",
"ties/numpy/natural_breaks4-None": "3b5b5a809d783d0f4de29ee85d6ae1934ab830625d0a55e28e0a71f197bdbe34",
"ties/numpy/natural_breaks5-20": "f97a8c52fe984611e8d99b9615306b17ed34834e1be50b6a166a468fa301e1b9",
"ties/numpy/natural_breaks7-20000": "59ab8bc0f932ee1a632cce5fe80c1ecfea0a504755dd3e21a2e8e38e08061a4a",
"ties/numpy/quantile2": "2e4541effebcef8ac9a128147bf09efa147180aa09f290c9deab3e916c8e5688",
"ties/numpy/quantile3": "ea3a5cc63d1f018fa04f18c6f7d5f3e954082934e93dbd64ec31b5b0d505f390",
"ties/numpy/quantile5": "e3719f70b63c6edffa07f54ea9fe0832d1ada1752049d9c7e7ba8d0a9c419ab8",
"ties/numpy/quantile8": "a5d0a2e12c8e8dc17bdc0eea497b7b4ac7107a382353a6278d08a9484207d83c",
"ties/numpy/reclassify": "a207b03018a962776915dc6075796f6cf51ea66a2162d39f16c5633c555da2d7",
"ties/numpy/reclassify-1bin": "55b80fd496512be0828cf5e5434bea4e1e25de2b39ee75170b24d696bfa7c1dc"
}  # recorded from the unmodified tree


def digest(res, extra=''):
    assert isinstance(res, xr.DataArray)
    arr = res.data
    lazy = isinstance(arr, da.Array)
    if lazy:
        arr = arr.compute()
    arr = np.ascontiguousarray(arr)
    h = hashlib.sha256()
    h.update(repr((str(arr.dtype), arr.shape, lazy, res.name, res.dims,
                   sorted((str(k), repr(v)) for k, v in res.attrs.items()))).encode())
    h.update(arr.tobytes())
    for c in res.coords:
        h.update(str(c).encode())
        h.update(np.ascontiguousarray(res.coords[c].values).tobytes())
    h.update(extra.encode())
    return h.hexdigest()


def rasters():
    rng = np.random.default_rng(20240612)
    out = {}
    base = rng.normal(100, 40, size=(7, 9))
    base[0, 0] = np.nan
    base[3, 4] = np.inf
    base[6, 8] = -np.inf
    out['f64'] = base
    out['f32'] = base.astype(np.float32)
    ties = np.round(rng.uniform(0, 6, size=(5, 11)))
    ties[2, 2] = np.nan
    out['ties'] = ties
    out['int32'] = rng.integers(-50, 50, size=(6, 5)).astype(np.int32)
    out['int64'] = rng.integers(0, 1000, size=(4, 13)).astype(np.int64)
    out['big'] = np.array([[16777217.0, 16777216.0, 16777219.0],
                           [0.1, 1e-30, 123456789.123],
                           [np.nan, -16777217.0, 3.0]])
    out['row'] = np.arange(13, dtype=np.float64).reshape(1, 13) * 1.5
    out['col'] = np.linspace(-3, 3, 11).reshape(11, 1)
    out['few'] = np.array([[1., 1., 2.], [2., np.nan, 1.]])
    return out


def make(arr, backend):
    h, w = arr.shape
    data = arr.copy()
    if backend == 'dask':
        data = da.from_array(data, chunks=(max(1, h // 2), max(1, w // 3)))
    return xr.DataArray(data, dims=['y', 'x'],
                        coords={'y': np.arange(h) * 2.0, 'x': np.arange(w) + 0.5},
                        attrs={'res': (10.0, 10.0), 'unit': 'm'})


def run_all():
    got = {}
    for rname, arr in rasters().items():
        for backend in ('numpy', 'dask'):
            key = f'{rname}/{backend}'
            agg = make(arr, backend)
            got[key + '/binary'] = digest(binary(agg, [1, 2, 3, 100, -5]))
            got[key + '/binary-name'] = digest(binary(agg, [0.0, 1.5], name='bb'))
            bins = [-10, 0, 2.5, 80, 120, 1e9]
            got[key + '/reclassify'] = digest(
                reclassify(agg, bins=bins, new_values=[9, 7, 5, 3, 1, 0]))
            got[key + '/reclassify-1bin'] = digest(
                reclassify(agg, [50], [4], name='r1'))
            for k in (2, 3, 5, 8):
                buf = io.StringIO()
                with contextlib.redirect_stdout(buf):
                    r = quantile(agg, k=k)
                txt = buf.getvalue()
                if backend == 'dask':
                    # dask percentiles: record structure + printed text only
                    v = r.data.compute()
                    fin = np.isfinite(np.asarray(arr, dtype=float))
                    assert np.isnan(v[~fin]).all() and np.isfinite(v[fin]).all()
                got[key + f'/quantile{k}'] = digest(r, txt)
                r = equal_interval(agg, k=k, name=f'ei{k}')
                got[key + f'/equal_interval{k}'] = digest(r)
            if backend == 'numpy':
                for k, ns in ((2, 20000), (4, None), (5, 20), (7, 20000)):
                    with warnings.catch_warnings(record=True) as rec:
                        warnings.simplefilter('always')
                        r = natural_breaks(agg, num_sample=ns, k=k)
                    txt = '|'.join(f'{w.category.__name__}:{w.message}' for w in rec
                                   if 'natural_breaks' in str(w.message))
                    got[key + f'/natural_breaks{k}-{ns}'] = digest(r, txt)
    return got


def independent_checks():
    # independently computed expectations (no recorded data)
    arr = rasters()['f64']
    agg = make(arr, 'numpy')
    fin = np.isfinite(arr)
    r = binary(agg, [1, 2, 3])
    assert r.name == 'binary' and r.dims == ('y', 'x') and r.attrs == agg.attrs
    assert np.isnan(r.values[~fin]).all() and (r.values[fin] == 0).all()
    bins = np.array([50., 100., 150., 1e9])
    nv = np.array([3, 2, 1, 0])
    r = reclassify(agg, bins, nv)
    exp = np.full(arr.shape, np.nan, dtype=np.float32)
    exp[fin] = nv[np.searchsorted(bins, arr[fin], side='left')]
    np.testing.assert_array_equal(r.values, exp)
    assert r.name == 'reclassify' and list(r.coords) == ['y', 'x']
    np.testing.assert_array_equal(r.coords['x'].values, agg.coords['x'].values)
    for k in (2, 4, 6):
        r = quantile(agg, k=k)
        q = np.unique(np.percentile(arr[fin], np.arange(1, k + 1) * 100.0 / k))
        exp = np.full(arr.shape, np.nan, dtype=np.float32)
        exp[fin] = np.searchsorted(q, arr[fin], side='left')
        np.testing.assert_array_equal(r.values, exp)
        assert r.name == 'quantile'
    buf = io.StringIO()
    with contextlib.redirect_stdout(buf):
        quantile(make(rasters()['few'], 'numpy'), k=5)
    assert buf.getvalue() == ('Quantile Warning: Not enough unique values'
                              'for k classes (using 3 bins)\n'), repr(buf.getvalue())
    with warnings.catch_warnings(record=True) as rec:
        warnings.simplefilter('always')
        r = natural_breaks(make(rasters()['few'], 'numpy'), k=5)
    msgs = [str(w.message) for w in rec if 'natural_breaks' in str(w.message)]
    assert msgs == ['natural_breaks Warning: Not enough unique values in data array for 5 '
                    'classes. n_samples=2 should be >= n_clusters=5. Using k=2 instead.'], msgs
    np.testing.assert_array_equal(
        r.values, np.array([[0, 0, 1], [1, np.nan, 0]], dtype=np.float32))
    assert r.name == 'natural_breaks' and r.dims == ('y', 'x')
    # large raster with too few unique values: both warnings, no O(n^2) Jenks run
    big = np.tile(np.array([[3., 7.]]), (200, 100))
    with warnings.catch_warnings(record=True) as rec:
        warnings.simplefilter('always')
        r = natural_breaks(xr.DataArray(big), num_sample=None, k=3)
    msgs = [str(w.message) for w in rec if 'natural_breaks' in str(w.message)]
    assert msgs == ['natural_breaks Warning: Natural break classification (Jenks) has a '
                    'complexity of O(n^2), your classification with 40000 data points may '
                    'take a long time.',
                    'natural_breaks Warning: Not enough unique values in data array for 3 '
                    'classes. n_samples=2 should be >= n_clusters=3. Using k=2 instead.'], msgs
    np.testing.assert_array_equal(r.values, ((big == 7.).astype(np.float32)))
    assert r.values.dtype == np.float32
    try:
        reclassify(agg, [1, 2], [1])
    except ValueError as e:
        assert str(e) == 'bins and new_values mismatch. Should have same length.'
    else:
        raise AssertionError('no ValueError')


def main():
    got = run_all()
    if '--record' in sys.argv:
        print('EXPECTED = ' + json.dumps(got, indent=0, sort_keys=True))
        return 0
    independent_checks()
    bad = [k for k in sorted(set(got) | set(EXPECTED)) if got.get(k) != EXPECTED.get(k)]
    if bad:
        print('MISMATCH in', len(bad), 'of', len(EXPECTED), 'cases:', bad[:10])
        return 1
    print('OK:', len(got), 'cases identical')
    return 0


if __name__ == '__main__':
    sys.exit(main())
