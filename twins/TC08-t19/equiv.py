"""Differential test for C08 refactoring (t19).

Runs curvature, hillshade on a deterministic battery of rasters (several dtypes, NaN / inf
cells, ties, odd shapes, res attr / coordinates / no coordinates, numpy and dask
with several chunkings) and compares a canonical digest (dtype, shape, raw bytes
with NaNs canonicalised, so signed zeros are distinguished) of every result with
the digest recorded from the UNMODIFIED tree.  Additionally checks numpy results
against an independent pure-Python/NumPy float64 reference with a tolerance.

Usage:  cd <worktree> && PYTHONPATH=<worktree> python equiv.py          (check)
        ... python equiv.py --record                                     (print digests)
Exit code 0 iff everything is identical.
"""
import hashlib
import sys
import warnings

import dask
import dask.array as da
import numpy as np
import xarray as xr

import xrspatial
from xrspatial import aspect, curvature, hillshade, slope

warnings.filterwarnings('ignore')
dask.config.set(scheduler='synchronous')

FUNCS = ['curvature', 'hillshade']


def digest(arr):
    arr = np.asarray(arr)
    a = arr.copy()
    if a.dtype.kind == 'f':
        a[np.isnan(a)] = np.nan  # canonical NaN payload
    h = hashlib.sha256()
    h.update(str(a.dtype).encode())
    h.update(str(a.shape).encode())
    h.update(np.ascontiguousarray(a).tobytes())
    return h.hexdigest()[:20]


def rasters():
    rng = np.random.RandomState(8008)
    out = []
    shapes = [(3, 3), (4, 7), (9, 5), (2, 5), (11, 13)]
    for shp in shapes:
        n = shp[0] * shp[1]
        base = rng.uniform(-500, 1500, size=shp)
        out.append(('f64' + str(shp), base.astype(np.float64)))
        out.append(('f32' + str(shp), base.astype(np.float32)))
        out.append(('i32' + str(shp), rng.randint(-50, 50, size=shp).astype(np.int32)))
        out.append(('i64big' + str(shp), (rng.randint(0, 5, size=shp) + 2 ** 40).astype(np.int64)))
        out.append(('u8ties' + str(shp), rng.randint(0, 3, size=shp).astype(np.uint8)))
        out.append(('i8' + str(shp), rng.randint(-128, 127, size=shp).astype(np.int8)))
        withnan = base.copy()
        withnan.flat[rng.choice(n, size=max(1, n // 6), replace=False)] = np.nan
        out.append(('f64nan' + str(shp), withnan))
        out.append(('f32nan' + str(shp), withnan.astype(np.float32)))
        withinf = base.copy()
        withinf.flat[rng.choice(n, size=1)] = np.inf
        withinf.flat[rng.choice(n, size=1)] = -np.inf
        out.append(('f64inf' + str(shp), withinf))
        out.append(('flat' + str(shp), np.full(shp, 7.25, dtype=np.float64)))
        out.append(('allnan' + str(shp), np.full(shp, np.nan, dtype=np.float32)))
        ramp = np.add.outer(np.arange(shp[0]) * 3.0, np.arange(shp[1]) * -2.0)
        out.append(('ramp' + str(shp), ramp))
        out.append(('huge' + str(shp), (base * 1e30).astype(np.float64)))
        out.append(('bool' + str(shp), rng.randint(0, 2, size=shp).astype(bool)))
        out.append(('f16' + str(shp), base.astype(np.float16)))
    return out


def georefs(shape):
    h, w = shape
    return [
        ('nores', dict(dims=['y', 'x'])),
        ('res_t', dict(dims=['y', 'x'], attrs={'res': (10, 3.5)})),
        ('res_s', dict(dims=['y', 'x'], attrs={'res': 0.25})),
        ('res_l', dict(dims=['lat', 'lon'], attrs={'res': [2.0, 30]})),
        ('res_bad', dict(dims=['y', 'x'], attrs={'res': 'abc', 'foo': 1},
                         coords={'y': np.linspace(50, 10, h), 'x': np.linspace(-3, 4, w)})),
        ('coords', dict(dims=['y', 'x'],
                        coords={'y': np.arange(h)[::-1] * 30.0, 'x': np.arange(w) * 12.5})),
    ]


def chunkings(shape):
    h, w = shape
    res = [(h, w), (3, 3), (2, 4), (h, 2)]
    return [c for c in res if min(c) >= 1]


HS_ANGLES = [(225, 25), (0, 0), (90, 90), (315.5, 45.25), (-30, 10), (720, 100)]


def calls():
    """Yield (key, thunk)."""
    for rname, data in rasters():
        for gname, kw in georefs(data.shape):
            for fname in FUNCS:
                f = globals()[fname]
                if fname == 'hillshade':
                    variants = [('az%s_alt%s' % a, dict(azimuth=a[0], angle_altitude=a[1]))
                                for a in HS_ANGLES]
                    if gname not in ('nores', 'res_t'):
                        variants = variants[:1]
                    variants = [('default', {})] + variants
                else:
                    variants = [('default', {}), ('named', dict(name='zz'))]
                    if gname != 'nores':
                        variants = variants[:1]
                for vname, fkw in variants:
                    key = '|'.join([fname, rname, gname, vname, 'numpy'])
                    yield key, (lambda f=f, data=data, kw=kw, fkw=fkw:
                                f(xr.DataArray(data.copy(), **kw), **fkw))
                    if vname != 'default' and not vname.startswith('az315'):
                        continue
                    for ch in chunkings(data.shape):
                        key = '|'.join([fname, rname, gname, vname, 'dask%s' % (ch,)])
                        yield key, (lambda f=f, data=data, kw=kw, fkw=fkw, ch=ch:
                                    f(xr.DataArray(da.from_array(data.copy(), chunks=ch), **kw),
                                      **fkw))


def run_one(thunk, lazy_expected):
    try:
        res = thunk()
    except Exception as e:  # recorded too: error behaviour must not change
        return 'EXC:' + type(e).__name__
    is_lazy = isinstance(res.data, da.Array)
    if is_lazy != lazy_expected:
        return 'LAZINESS-MISMATCH'
    meta = '%s;%s;%s;%s;%s' % (res.name, res.dims, sorted(res.attrs.items(), key=str),
                               sorted(res.coords), res.dtype)
    try:
        vals = res.data.compute() if is_lazy else res.data
    except Exception as e:
        return 'EXC-compute:' + type(e).__name__
    return digest(vals) + ':' + hashlib.sha256(meta.encode()).hexdigest()[:8]


# ---------------------------------------------------------------- reference
def ref_check():
    """Independent float64 reference on numpy inputs (tolerance based)."""
    rng = np.random.RandomState(5)
    bad = 0
    for shp in [(5, 6), (8, 4)]:
        z = rng.uniform(0, 100, size=shp)
        z[2, 2] = np.nan
        zf = z.astype(np.float32).astype(np.float64)
        cx, cy = 3.0, 7.0
        agg = xr.DataArray(z, dims=['y', 'x'], attrs={'res': (cx, cy)})
        H, W = shp
        exp = {k: np.full(shp, np.nan) for k in ('slope', 'aspect', 'curvature', 'hillshade')}
        az, alt = 200.0, 35.0
        for y in range(1, H - 1):
            for x in range(1, W - 1):
                w = zf[y - 1:y + 2, x - 1:x + 2]
                # slope (rows flipped in library naming, symmetric in result)
                dzdx = ((w[0, 2] + 2 * w[1, 2] + w[2, 2]) - (w[0, 0] + 2 * w[1, 0] + w[2, 0]))
                dzdy = ((w[2, 0] + 2 * w[2, 1] + w[2, 2]) - (w[0, 0] + 2 * w[0, 1] + w[0, 2]))
                exp['slope'][y, x] = np.degrees(np.arctan(np.hypot(dzdx / (8 * cx),
                                                                   dzdy / (8 * cy))))
                if np.isnan(dzdx) or np.isnan(dzdy):
                    exp['aspect'][y, x] = np.nan
                elif dzdx == 0 and dzdy == 0:
                    exp['aspect'][y, x] = -1
                else:
                    a = np.degrees(np.arctan2(dzdy / 8, -dzdx / 8))
                    exp['aspect'][y, x] = (90.0 - a) if a <= 90 else (450.0 - a)
                cs = (cx + cy) / 2
                d = (w[2, 1] + w[0, 1]) / 2 - w[1, 1]
                e = (w[1, 2] + w[1, 0]) / 2 - w[1, 1]
                exp['curvature'][y, x] = -2 * (d + e) * 100 / (cs * cs)
                gx = (w[2, 1] - w[0, 1]) / 2
                gy = (w[1, 2] - w[1, 0]) / 2
                sl = np.pi / 2 - np.arctan(np.hypot(gx, gy))
                asp = np.arctan2(-gx, gy)
                azr = np.radians(360.0 - az)
                altr = np.radians(alt)
                sh = (np.sin(altr) * np.sin(sl) +
                      np.cos(altr) * np.cos(sl) * np.cos((azr - np.pi / 2) - asp))
                exp['hillshade'][y, x] = (sh + 1) / 2
        for fname in FUNCS:
            f = globals()[fname]
            for backend in ('numpy', 'dask'):
                a2 = agg if backend == 'numpy' else agg.copy(
                    data=da.from_array(z, chunks=(3, 2)))
                got = f(a2, azimuth=az, angle_altitude=alt) if fname == 'hillshade' else f(a2)
                got = np.asarray(got.data, dtype=np.float64)
                if not np.allclose(got, exp[fname], rtol=2e-4, atol=2e-4, equal_nan=True):
                    print('REFERENCE MISMATCH', fname, backend, shp)
                    bad += 1
    return bad


EXPECTED = {'curvature|allnan(11, 13)': '990e45e64f689fe765773138',
 'curvature|allnan(2, 5)': '9843cf20a970d52353377c8f',
 'curvature|allnan(3, 3)': '3bfd53a329d8bbfdd76085da',
 'curvature|allnan(4, 7)': 'bfa00e1bad0ae18edf47820e',
 'curvature|allnan(9, 5)': 'a863688dde6ae3ecb50a6734',
 'curvature|bool(11, 13)': 'f49baff3c5f319d78078cae6',
 'curvature|bool(2, 5)': '80c1bbb220f61bff8113a154',
 'curvature|bool(3, 3)': '97803dc3a5f6b22e7c9f495b',
 'curvature|bool(4, 7)': 'b6f6c4262315c96188fe14cd',
 'curvature|bool(9, 5)': 'ae6ac0ad75b5ee02b9e11c40',
 'curvature|f16(11, 13)': '263821316490d1c058af1700',
 'curvature|f16(2, 5)': '94d41aa34e9e7a0b6ed07ef9',
 'curvature|f16(3, 3)': 'bab9cc6b8598b1a5ada0bcf3',
 'curvature|f16(4, 7)': '8261da14af6bef3c7dd9e908',
 'curvature|f16(9, 5)': 'b158e45132e880c53c55a4ad',
 'curvature|f32(11, 13)': 'a7f6cb4fa02b6c85fe3cd0b7',
 'curvature|f32(2, 5)': 'bd39e678e767f2655dfb3aa5',
 'curvature|f32(3, 3)': '67cb39b474ff2e5a94991f82',
 'curvature|f32(4, 7)': 'ca39fd33fa9fd8c31e05d9de',
 'curvature|f32(9, 5)': 'cb3a02dc068a737184042b89',
 'curvature|f32nan(11, 13)': 'b1726be5679a62be4c6bc1cc',
 'curvature|f32nan(2, 5)': 'f830e8c5fc804738a0edc8fa',
 'curvature|f32nan(3, 3)': '3acb568f3d4187afdb3be0a2',
 'curvature|f32nan(4, 7)': '4bc760596e09cd478798951e',
 'curvature|f32nan(9, 5)': '9a963888a175323cce8959b5',
 'curvature|f64(11, 13)': 'a00b7b5f0a2914a9c37d16c0',
 'curvature|f64(2, 5)': '6fb6fcc457c7db6184797159',
 'curvature|f64(3, 3)': 'b390269a9ad64ad1a25c937c',
 'curvature|f64(4, 7)': '0641d1bf801044a6aa8fdddc',
 'curvature|f64(9, 5)': '9e84e35df7fdc25a5d6d9d38',
 'curvature|f64inf(11, 13)': 'aec04aebdad6e092629f5b20',
 'curvature|f64inf(2, 5)': 'ddcd26b86994c1d24165c71e',
 'curvature|f64inf(3, 3)': 'd944a3b697468723a437dc96',
 'curvature|f64inf(4, 7)': '00bc857d61fbe566e77dd10f',
 'curvature|f64inf(9, 5)': '1485f65959131fc82112e0ca',
 'curvature|f64nan(11, 13)': 'b3b96bf7fbbd4543e9431850',
 'curvature|f64nan(2, 5)': 'e7889b1dde42e4c11dc88797',
 'curvature|f64nan(3, 3)': '01a407b122f62478f7fc5e75',
 'curvature|f64nan(4, 7)': 'c1a2a3a9989becf6782b8363',
 'curvature|f64nan(9, 5)': '62192e0c9183c10a771027a7',
 'curvature|flat(11, 13)': '5917bbd40cc51cbd2508ad58',
 'curvature|flat(2, 5)': 'd421d6e0905a63a5331ccc23',
 'curvature|flat(3, 3)': 'de7035441493c3006336ed31',
 'curvature|flat(4, 7)': '11988a29c1ebf34d1071c0a8',
 'curvature|flat(9, 5)': 'efd099f8324323f18a942487',
 'curvature|huge(11, 13)': 'b14e9af552516212ab12285b',
 'curvature|huge(2, 5)': '681ed0cb5e42be5476608883',
 'curvature|huge(3, 3)': '3e57771bc2123b760453244f',
 'curvature|huge(4, 7)': '22adbdea831b29109f935e03',
 'curvature|huge(9, 5)': 'd5d9899cb3835ced12a70fb3',
 'curvature|i32(11, 13)': '6e755285f0c4786c3b845e65',
 'curvature|i32(2, 5)': '6937c2c67a969aa086d8f80a',
 'curvature|i32(3, 3)': '1a64cb5efe0719a4ba504de0',
 'curvature|i32(4, 7)': '098ea9a5dfb327d43e7b15a8',
 'curvature|i32(9, 5)': '969b113ec3c10c5c87dc1289',
 'curvature|i64big(11, 13)': 'f7f723dba92dd99c2009126c',
 'curvature|i64big(2, 5)': '59ecaec32e96ba0cbeda3d9e',
 'curvature|i64big(3, 3)': 'bf53bd79ded1e40c60de2bfc',
 'curvature|i64big(4, 7)': '051d6d016ab3696ca27d2567',
 'curvature|i64big(9, 5)': '2d46e46c955d5a60af53f022',
 'curvature|i8(11, 13)': '7db959bef16fa82b2a7e2732',
 'curvature|i8(2, 5)': '0479361d8f133bb665359550',
 'curvature|i8(3, 3)': '74e888eb52971e230f87b07b',
 'curvature|i8(4, 7)': 'cf339425e77395035da0ccc0',
 'curvature|i8(9, 5)': '3fb896de70129c97210639c1',
 'curvature|ramp(11, 13)': '7443a9ce5885bd7b7e332727',
 'curvature|ramp(2, 5)': '3e78c8658b6ace54b8eee366',
 'curvature|ramp(3, 3)': '3f2e18ce890a6e281dc7aeea',
 'curvature|ramp(4, 7)': '66b5c1882148cb77509101b7',
 'curvature|ramp(9, 5)': '64f9b54c26aad2e80e78046e',
 'curvature|u8ties(11, 13)': '8cbf357cd43e314509b1512e',
 'curvature|u8ties(2, 5)': 'a771f8a34fe05cdf5b5fc962',
 'curvature|u8ties(3, 3)': '15b1195d4cdcb29335b723ef',
 'curvature|u8ties(4, 7)': '4f825528cd2b57b9d2488203',
 'curvature|u8ties(9, 5)': 'cd5dd2879e6cfc4ec56045d3',
 'hillshade|allnan(11, 13)': 'b602f716ab59009cc2ccf55d',
 'hillshade|allnan(2, 5)': '23833659ca136639f9aa0c37',
 'hillshade|allnan(3, 3)': '69e56feff47d7770a2e775c3',
 'hillshade|allnan(4, 7)': 'e121328f6006a1c0aedc87a8',
 'hillshade|allnan(9, 5)': '70dadf0e8e66d759ffa2b2dc',
 'hillshade|bool(11, 13)': '4d1cb2de1690a5420e1f3884',
 'hillshade|bool(2, 5)': 'a01857e513384533609d57e4',
 'hillshade|bool(3, 3)': '28bb65e84eef97529730db3f',
 'hillshade|bool(4, 7)': '804ec5dec0f6fb51e53ab17e',
 'hillshade|bool(9, 5)': '500dbcd1d955a53dc9629e25',
 'hillshade|f16(11, 13)': 'd22b4bb13aec375047937ddb',
 'hillshade|f16(2, 5)': 'e72d0705e6c2f768d67b4319',
 'hillshade|f16(3, 3)': '2a329ae5269ab84742ec45e2',
 'hillshade|f16(4, 7)': '833e8cb538214335e702f7d1',
 'hillshade|f16(9, 5)': '3d495152f732b14b02cfef59',
 'hillshade|f32(11, 13)': '5a1662c1d2ef406e1c62b427',
 'hillshade|f32(2, 5)': 'ef461480c44ffd90aa41a540',
 'hillshade|f32(3, 3)': '7e39172dc571e3164d159e37',
 'hillshade|f32(4, 7)': 'd5b723b13c6a85214923e210',
 'hillshade|f32(9, 5)': '81ff3840e86ded288882b3bc',
 'hillshade|f32nan(11, 13)': '67d56e219b92baf33d53a00e',
 'hillshade|f32nan(2, 5)': 'a09bd2cc09a740e53d3a5cec',
 'hillshade|f32nan(3, 3)': '3671fa3f6db9c3a3948bcaa8',
 'hillshade|f32nan(4, 7)': '0acd5c076332c8c868bb4547',
 'hillshade|f32nan(9, 5)': '3aa46f92f492723f023b3af2',
 'hillshade|f64(11, 13)': '9fdc9648fbc7262e9ed97e8f',
 'hillshade|f64(2, 5)': '4e5abe4085a39c3ea5577d11',
 'hillshade|f64(3, 3)': 'f891c5ddd62b97fdc54242e5',
 'hillshade|f64(4, 7)': '461eabdaad6fdf578d986429',
 'hillshade|f64(9, 5)': '1a3a952d320308bfe87808b8',
 'hillshade|f64inf(11, 13)': '7e8f7ecadbd7da1fbd61ab93',
 'hillshade|f64inf(2, 5)': '9d61df58c707de934fe1a4d5',
 'hillshade|f64inf(3, 3)': 'dc9b1adae78056a2ee32e12a',
 'hillshade|f64inf(4, 7)': '0db7957540e2c7ed730576e7',
 'hillshade|f64inf(9, 5)': '6e579dbbdc80111d1c2420cc',
 'hillshade|f64nan(11, 13)': '2abb9efaa37ec99fd3d517fc',
 'hillshade|f64nan(2, 5)': '38fcb4b22ad0e725bb7e7b84',
 'hillshade|f64nan(3, 3)': 'd5b9236afffdf0597f3afdc9',
 'hillshade|f64nan(4, 7)': '69b57b442f9289d97b2bbfc2',
 'hillshade|f64nan(9, 5)': '43e1cda8fd93ab42b9266cee',
 'hillshade|flat(11, 13)': '6550d05bb40bbf63693253b4',
 'hillshade|flat(2, 5)': 'e549e7a14d746f57da645b11',
 'hillshade|flat(3, 3)': '8a74641e591a97301942ad75',
 'hillshade|flat(4, 7)': '3fa4593f7b26be64a324f037',
 'hillshade|flat(9, 5)': 'f6dfc02e14ec5dc1f9bdd01f',
 'hillshade|huge(11, 13)': 'f9740b9e5ca9b0041f888eb0',
 'hillshade|huge(2, 5)': 'c54490753ec5ddca92b714c1',
 'hillshade|huge(3, 3)': 'e83eafd67558786c913aa4df',
 'hillshade|huge(4, 7)': '9c083a11dd86c7870aec5009',
 'hillshade|huge(9, 5)': '68ef327b9f7992a61bf98ae5',
 'hillshade|i32(11, 13)': '2e6c680fbfb098c3e4929bbb',
 'hillshade|i32(2, 5)': '090bfc18a7ab6f015601baaa',
 'hillshade|i32(3, 3)': '29be5a954ccbcb61570ac40f',
 'hillshade|i32(4, 7)': '81c4b36163da33ec54803d44',
 'hillshade|i32(9, 5)': '61b520182e349911e000a72d',
 'hillshade|i64big(11, 13)': 'cb2f50b5930dd6cff9f7ef88',
 'hillshade|i64big(2, 5)': '44f446614e12c54a20c0a140',
 'hillshade|i64big(3, 3)': '44373d6c1c52e23c7a0c7ec5',
 'hillshade|i64big(4, 7)': 'd2ab2cba4a852f6cfa6a93bf',
 'hillshade|i64big(9, 5)': '111c0fe9385a726b19f8f545',
 'hillshade|i8(11, 13)': 'f4bea13932b58979721769fa',
 'hillshade|i8(2, 5)': '66e05a4d8ee3e94f9c10fbff',
 'hillshade|i8(3, 3)': '429d78743b2094399ffaa59d',
 'hillshade|i8(4, 7)': '8401442d38a7356ec0d0cf4d',
 'hillshade|i8(9, 5)': '7ed90b03656c42040035ee7e',
 'hillshade|ramp(11, 13)': '6fe71a99c79732ee6cb31a1e',
 'hillshade|ramp(2, 5)': '30baf64141cac869912bbfb3',
 'hillshade|ramp(3, 3)': '731f34534a56dc9ce161dcea',
 'hillshade|ramp(4, 7)': 'e381547e092a3166835cea8c',
 'hillshade|ramp(9, 5)': '75e79f535436384210d259ed',
 'hillshade|u8ties(11, 13)': '3d2e89e22ab048c27d59b711',
 'hillshade|u8ties(2, 5)': '5b5599be34156a01c2948202',
 'hillshade|u8ties(3, 3)': '60d176cf2acaa95f1dffda9f',
 'hillshade|u8ties(4, 7)': '3edaedec76ffe90b6d95cde1',
 'hillshade|u8ties(9, 5)': 'cde9d5807fb429e27883cdf4'}


def main():
    print('xrspatial from', xrspatial.__file__)
    raw = {}
    for key, thunk in calls():
        raw[key] = run_one(thunk, lazy_expected='dask' in key.split('|')[-1])
    # group per (function, raster): one combined digest over all georefs/variants/backends
    groups = {}
    for key in sorted(raw):
        g = '|'.join(key.split('|')[:2])
        groups.setdefault(g, hashlib.sha256()).update((key + '=' + raw[key] + '\n').encode())
    results = {g: h.hexdigest()[:24] for g, h in groups.items()}
    if '--record' in sys.argv:
        import pprint
        with open(sys.argv[sys.argv.index('--record') + 1], 'w') as fh:
            fh.write(pprint.pformat(results, width=200))
        print('recorded', len(results))
        return 0
    bad = 0
    if set(results) != set(EXPECTED):
        print('KEY SET DIFFERS')
        bad += 1
    for k, v in results.items():
        if EXPECTED.get(k) != v:
            bad += 1
            if bad < 20:
                print('DIFF', k, EXPECTED.get(k), v)
    bad += ref_check()
    nexc = sum(1 for v in raw.values() if v.startswith('EXC'))
    print('%d cases in %d groups (%d raising), %d mismatches' % (len(raw), len(results), nexc, bad))
    return 1 if bad else 0


if __name__ == '__main__':
    sys.exit(main())
