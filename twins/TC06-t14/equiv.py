"""Differential test for C06 (proximity / allocation / direction).

Runs the public functions xrspatial.proximity / allocation / direction (and the
three public distance functions) on a battery of rasters (several dtypes, NaN
and inf cells, odd shapes, ascending / descending and non-square coordinates,
numpy and dask backends, all metrics, several max_distance / target_values
spellings, invalid arguments) and compares
  * a digest (dtype, shape, dask chunks, raw bytes, dims, coords, attrs, name,
    chunks of the *input* raster after the call) of every result, or the type
    of the exception raised, against values recorded from the UNMODIFIED tree
    (embedded below in EXPECTED), and
  * for single-target rasters, proximity against a brute-force computation done
    independently here.
Exit status 0 if everything is identical, 1 otherwise.
`python equiv.py --record` prints the digests of the tree it runs on.
Focus of this copy (t14): data representation inside the kernels (buffer initialisation, shape / dtype spellings, sqrt, degree constant) - every digest covers raw bytes and dtype.
"""
import hashlib
import json
import multiprocessing
import os
import re
import sys
import warnings

import dask
import dask.array as da
import numpy as np
import xarray as xr

import xrspatial
from xrspatial import (allocation, direction, euclidean_distance,
                       great_circle_distance, manhattan_distance, proximity)

warnings.filterwarnings("ignore")
dask.config.set(scheduler="synchronous")

FUNCS = {"proximity": proximity, "allocation": allocation,
         "direction": direction}


# --------------------------------------------------------------------------
# inputs
# --------------------------------------------------------------------------
def _rasters():
    rng = np.random.RandomState(6)
    out = {}

    a = np.zeros((7, 9), dtype=np.float64)
    a[0, 0] = 1
    a[2, 5] = 2
    a[6, 8] = 3
    a[4, 1] = 2
    a[3, 3] = np.nan
    a[5, 6] = np.inf
    a[1, 7] = -np.inf
    out["A_f64_desc_y_nonsquare"] = xr.DataArray(
        a, dims=["y", "x"],
        coords={"y": np.arange(7)[::-1] * 2.0, "x": np.arange(9) * 0.5},
        attrs={"res": (0.5, 2.0), "tag": "A"}, name="A")

    b = np.zeros((5, 6), dtype=np.int32)
    b[1, 1] = 1
    b[3, 4] = 3
    b[4, 0] = 2
    out["B_i32_asc_y"] = xr.DataArray(
        b, dims=["y", "x"],
        coords={"y": np.arange(5) * 1.0, "x": np.arange(6) * 1.0 - 3.0},
        attrs={"res": 1.0})

    c = np.array([[0, 0, 5, 0, 0, 0, 7, 0]], dtype=np.float32)
    out["C_f32_1row"] = xr.DataArray(
        c, dims=["y", "x"], coords={"y": [4.0], "x": np.arange(8) * 3.0},
        attrs={"res": (3.0, 1.0)})

    d = np.array([[0], [0], [4], [0], [0], [9]], dtype=np.int64)
    out["D_i64_1col"] = xr.DataArray(
        d, dims=["y", "x"], coords={"y": np.arange(6)[::-1] * 1.5, "x": [2.0]},
        attrs={"res": (1.0, 1.5)})

    e = (rng.rand(10, 11) > 0.9).astype(np.float64) * rng.randint(
        1, 4, size=(10, 11))
    e[rng.rand(10, 11) > 0.93] = np.nan
    out["E_f64_latlon"] = xr.DataArray(
        e, dims=["lat", "lon"],
        coords={"lat": np.linspace(60, -30, 10),
                "lon": np.linspace(-170, 175, 11)},
        attrs={"res": (34.5, 10.0)})

    out["F_f64_no_targets"] = xr.DataArray(
        np.zeros((4, 5)), dims=["y", "x"],
        coords={"y": np.arange(4)[::-1] * 1.0, "x": np.arange(5) * 1.0},
        attrs={"res": 1.0})

    g = (rng.rand(6, 7) > 0.8).astype(np.uint8) * 2
    out["G_u8_nocoords_desc_x"] = xr.DataArray(
        g, dims=["y", "x"],
        coords={"y": np.arange(6) * 1.0, "x": np.arange(7)[::-1] * 2.0},
        attrs={"res": (2.0, 1.0)})

    h = np.zeros((5, 5), dtype=bool)
    h[2, 2] = True
    out["H_bool_single"] = xr.DataArray(
        h, dims=["y", "x"],
        coords={"y": np.arange(5)[::-1] * 1.0, "x": np.arange(5) * 1.0},
        attrs={"res": 1.0})

    i = np.zeros((6, 6), dtype=np.float32)
    i[0, 5] = 1.5
    i[5, 0] = -2.5
    out["I_f32_nocoordvars"] = xr.DataArray(i, dims=["y", "x"])
    return out


CHUNKS = {
    "A_f64_desc_y_nonsquare": [(3, 4), (7, 9), (2, 2)],
    "B_i32_asc_y": [(2, 3), (5, 1)],
    "C_f32_1row": [(1, 3)],
    "D_i64_1col": [(2, 1)],
    "E_f64_latlon": [(4, 5), (10, 3)],
    "F_f64_no_targets": [(2, 2)],
    "G_u8_nocoords_desc_x": [(3, 3)],
    "H_bool_single": [(2, 3)],
    "I_f32_nocoordvars": [(3, 3)],
}

# (target_values, max_distance, distance_metric) selections
COMBOS = [
    ("default", "default", "default"),
    ([], None, "EUCLIDEAN"),
    ([2], np.inf, "MANHATTAN"),
    ([1, 3], 3, "EUCLIDEAN"),
    ((2.0,), 1.5, "MANHATTAN"),
    (np.array([3]), np.float32(2.5), "EUCLIDEAN"),
    ([], 0, "EUCLIDEAN"),
    ([], 4.0, "FOO"),
    ([], 100, None),
    ([], np.inf, "GREAT_CIRCLE"),
    ([2, 3], 500000.0, "GREAT_CIRCLE"),
    ([np.nan], np.inf, "EUCLIDEAN"),
    ([], -1.0, "MANHATTAN"),
    ([], np.nan, "EUCLIDEAN"),
]


def _kwargs(raster, combo):
    tv, md, dm = combo
    kw = {}
    if raster.dims != ("y", "x"):
        kw["x"], kw["y"] = raster.dims[1], raster.dims[0]
    if not isinstance(tv, str):
        kw["target_values"] = tv
    if not isinstance(md, str):
        kw["max_distance"] = md
    if not (isinstance(dm, str) and dm == "default"):
        kw["distance_metric"] = dm
    return kw


# --------------------------------------------------------------------------
# digests
# --------------------------------------------------------------------------
def _digest_result(res, raster_in, raster_orig):
    h = hashlib.sha256()
    parts = [type(res).__name__, type(res.data).__module__.split(".")[0],
             str(res.dtype), str(res.shape), str(res.dims),
             # a dask-backed result is named after the dask array
             # ("<block function>-<token>"); the token is random
             re.sub(r"-[0-9a-f]{32}$", "-<token>", str(res.name)),
             json.dumps({k: repr(v) for k, v in res.attrs.items()},
                        sort_keys=True)]
    if isinstance(res.data, da.Array):
        parts.append("chunks=" + str(res.data.chunks))
    if isinstance(raster_in.data, da.Array):
        # the input raster may be rechunked in place by the library
        parts.append("in_chunks=" + str(raster_in.data.chunks))
    for k in sorted(res.coords):
        parts.append(k + ":" + hashlib.sha256(
            np.ascontiguousarray(res.coords[k].values).tobytes()).hexdigest())
    vals = np.ascontiguousarray(np.asarray(res.data))
    parts.append(str(vals.dtype))
    h.update("|".join(parts).encode())
    h.update(vals.tobytes())
    # input values untouched
    same_in = np.array_equal(np.asarray(raster_in.data),
                             np.asarray(raster_orig.data), equal_nan=True) \
        if raster_orig.dtype.kind == "f" else np.array_equal(
            np.asarray(raster_in.data), np.asarray(raster_orig.data))
    return h.hexdigest()[:20] + (":in_ok" if same_in else ":in_CHANGED")


def _run(fname, raster, kw, backend, chunks=None):
    orig = raster.copy(deep=True)
    r = raster.copy(deep=True)
    if backend == "dask":
        r.data = da.from_array(r.data, chunks=chunks)
    try:
        res = FUNCS[fname](r, **kw)
        return _digest_result(res, r, orig)
    except Exception as exc:  # noqa
        return "EXC:" + type(exc).__name__


JOBS = []


def _job(i):
    key, thunk = JOBS[i]
    return key, thunk()


def _exc_or(thunk, ok=None):
    try:
        v = thunk()
        return ok if ok is not None else v
    except Exception as exc:  # noqa
        return "EXC:" + type(exc).__name__


def collect():
    rasters = _rasters()
    n = 0
    for rname, raster in rasters.items():
        for ci, combo in enumerate(COMBOS):
            kw = _kwargs(raster, combo)
            for fi, fname in enumerate(FUNCS):
                # thin out: every function on a rotating subset of combos
                if (ci + fi + n) % 3 != 0 and ci not in (0, 3):
                    continue
                key = "%s/%s/c%d/numpy" % (rname, fname, ci)
                JOBS.append((key, lambda a=(fname, raster, kw, "numpy"):
                             _run(*a)))
                chs = CHUNKS[rname]
                ch = chs[(ci + fi) % len(chs)]
                key = "%s/%s/c%d/dask%s" % (rname, fname, ci, ch)
                JOBS.append((key, lambda a=(fname, raster, kw, "dask", ch):
                             _run(*a)))
        n += 1

    # ---- invalid arguments: type of exception / precedence -------------
    A = rasters["A_f64_desc_y_nonsquare"]
    E = rasters["E_f64_latlon"]
    bad = {
        "wrong_dim_names": (A, dict(x="lon", y="lat")),
        "swapped_dims": (A, dict(x="y", y="x")),
        "wrong_dims_and_unhashable_metric": (
            A, dict(x="lon", distance_metric=["EUCLIDEAN"])),
        "unhashable_metric": (A, dict(distance_metric=["EUCLIDEAN"])),
        "unhashable_metric_dict": (A, dict(distance_metric={})),
        "metric_int": (A, dict(distance_metric=2)),
        "metric_lowercase": (A, dict(distance_metric="manhattan")),
        "latlon_default_names": (E, dict()),
        "max_distance_str": (A, dict(max_distance="3")),
        "target_values_str": (A, dict(target_values=["a"])),
        "target_values_scalar": (A, dict(target_values=2)),
        "target_values_2d": (A, dict(target_values=[[1, 2]])),
        "target_values_none": (A, dict(target_values=None)),
        "gc_out_of_range": (
            xr.DataArray(np.eye(4), dims=["y", "x"],
                         coords={"y": np.arange(4) * 50.0,
                                 "x": np.arange(4) * 100.0}),
            dict(distance_metric="GREAT_CIRCLE")),
        "three_d": (xr.DataArray(np.zeros((2, 3, 4)),
                                 dims=["b", "y", "x"]), dict()),
        "one_d": (xr.DataArray(np.zeros(4), dims=["x"]), dict()),
        "empty_rows": (xr.DataArray(np.zeros((0, 4)), dims=["y", "x"]),
                       dict()),
        "empty_cols": (xr.DataArray(np.zeros((3, 0)), dims=["y", "x"]),
                       dict()),
    }
    for name, (r, kw) in bad.items():
        for fname in FUNCS:
            if fname != "proximity" and name not in (
                    "wrong_dim_names", "unhashable_metric",
                    "wrong_dims_and_unhashable_metric", "metric_int",
                    "target_values_none"):
                continue
            JOBS.append(("bad/%s/%s/numpy" % (name, fname),
                         lambda a=(fname, r, kw, "numpy"): _run(*a)))
            if r.ndim == 2 and 0 not in r.shape:
                JOBS.append(("bad/%s/%s/dask" % (name, fname),
                             lambda a=(fname, r, kw, "dask", (2, 2)):
                             _run(*a)))
    JOBS.append(("bad/not_a_dataarray", lambda: _exc_or(
        lambda: proximity(np.zeros((3, 3))), "no exception")))

    # ---- positional call ---------------------------------------------
    def _positional(fname):
        r = A.copy(deep=True)
        res = FUNCS[fname](r, "x", "y", [2], 3.0, "MANHATTAN")
        return _digest_result(res, r, A)

    for fname in FUNCS:
        JOBS.append(("positional/%s" % fname,
                     lambda f=fname: _positional(f)))

    # ---- scalar distance functions -----------------------------------
    pts = [(0.0, 3.0, 0.0, 4.0), (142.32, 312.54 - 200, 23.23, 43.01),
           (-170.0, 175.0, 60.0, -30.0), (1, 4, 2, 6)]
    for i, p in enumerate(pts):
        for f in (euclidean_distance, manhattan_distance,
                  great_circle_distance):
            JOBS.append(("scalar/%s/%d" % (f.__name__, i),
                         lambda f=f, p=p: "%s:%r" % (
                             type(f(*p)).__name__, float(f(*p)))))
    JOBS.append(("scalar/gc_bad", lambda: _exc_or(
        lambda: great_circle_distance(200.0, 0.0, 0.0, 0.0),
        "no exception")))
    # the jobs are independent; run them in forked workers (each public
    # call re-compiles its numba kernel, which dominates the run time)
    ctx = multiprocessing.get_context("fork")
    with ctx.Pool(min(12, os.cpu_count() or 1)) as pool:
        return dict(pool.map(_job, range(len(JOBS)), chunksize=4))


# --------------------------------------------------------------------------
# independent check: single target, brute force
# --------------------------------------------------------------------------
def independent_check():
    ok = True
    rng = np.random.RandomState(60)
    for trial in range(6):
        h, w = rng.randint(2, 8), rng.randint(2, 8)
        data = np.zeros((h, w), dtype=[np.float64, np.int32][trial % 2])
        ty, tx = rng.randint(h), rng.randint(w)
        data[ty, tx] = 7
        ys = (np.arange(h)[::-1] if trial % 3 else np.arange(h)) * 1.5
        xs = np.arange(w) * 0.75 - 1
        r = xr.DataArray(data, dims=["y", "x"], coords={"y": ys, "x": xs})
        for metric in ("EUCLIDEAN", "MANHATTAN"):
            dx = (xs[None, :] - xs[tx]).astype(np.float64)
            dy = (ys[:, None] - ys[ty]).astype(np.float64)
            if metric == "EUCLIDEAN":
                exp = np.sqrt(dx * dx + dy * dy)
            else:
                exp = np.abs(dx) + np.abs(dy)
            exp = exp.astype(np.float32)
            for backend in ("numpy", "dask"):
                rr = r.copy(deep=True)
                if backend == "dask":
                    rr.data = da.from_array(rr.data, chunks=(2, 3))
                got = np.asarray(proximity(rr, distance_metric=metric).data)
                if got.dtype != np.float32 or not np.allclose(
                        got, exp, rtol=1e-6, atol=0):
                    print("INDEPENDENT MISMATCH", trial, metric, backend)
                    ok = False
                al = np.asarray(allocation(rr, distance_metric=metric).data)
                if not np.all(al == 7):
                    print("INDEPENDENT ALLOCATION MISMATCH", trial, metric)
                    ok = False
                di = np.asarray(direction(rr, distance_metric=metric).data)
                if di[ty, tx] != 0 or np.isnan(di).any():
                    print("INDEPENDENT DIRECTION MISMATCH", trial, metric)
                    ok = False
    return ok


EXPECTED = json.loads(r"""
{
"A_f64_desc_y_nonsquare/allocation/c0/dask(7, 9)": "589d3718d978f67af887:in_ok",
"A_f64_desc_y_nonsquare/allocation/c0/numpy": "b712a90f5a315d0e94b9:in_ok",
"A_f64_desc_y_nonsquare/allocation/c11/dask(3, 4)": "07d77fe66289f4047d40:in_ok",
"A_f64_desc_y_nonsquare/allocation/c11/numpy": "550c9dcd62487a692f2d:in_ok",
"A_f64_desc_y_nonsquare/allocation/c2/dask(3, 4)": "ed114e3b218218cca57a:in_ok",
"A_f64_desc_y_nonsquare/allocation/c2/numpy": "d8316dabbffeb5efbfd0:in_ok",
"A_f64_desc_y_nonsquare/allocation/c3/dask(7, 9)": "612c4207cd36e17cbf4a:in_ok",
"A_f64_desc_y_nonsquare/allocation/c3/numpy": "07c043665752b51cd635:in_ok",
"A_f64_desc_y_nonsquare/allocation/c5/dask(3, 4)": "b7762090901e4a88a588:in_ok",
"A_f64_desc_y_nonsquare/allocation/c5/numpy": "d5352d65de886f41fcb5:in_ok",
"A_f64_desc_y_nonsquare/allocation/c8/dask(3, 4)": "589d3718d978f67af887:in_ok",
"A_f64_desc_y_nonsquare/allocation/c8/numpy": "b712a90f5a315d0e94b9:in_ok",
"A_f64_desc_y_nonsquare/direction/c0/dask(2, 2)": "835e9e5b9320d76e679e:in_ok",
"A_f64_desc_y_nonsquare/direction/c0/numpy": "9fc68b9eef9831abd147:in_ok",
"A_f64_desc_y_nonsquare/direction/c1/dask(3, 4)": "835e9e5b9320d76e679e:in_ok",
"A_f64_desc_y_nonsquare/direction/c1/numpy": "9fc68b9eef9831abd147:in_ok",
"A_f64_desc_y_nonsquare/direction/c10/dask(3, 4)": "EXC:ValueError",
"A_f64_desc_y_nonsquare/direction/c10/numpy": "694db6e96441cd5d14f8:in_ok",
"A_f64_desc_y_nonsquare/direction/c13/dask(3, 4)": "EXC:ValueError",
"A_f64_desc_y_nonsquare/direction/c13/numpy": "70ec52e5ce20b4599826:in_ok",
"A_f64_desc_y_nonsquare/direction/c3/dask(2, 2)": "2a9e5e8884b3caeb407c:in_ok",
"A_f64_desc_y_nonsquare/direction/c3/numpy": "2bfec4ca2e8ac701a26a:in_ok",
"A_f64_desc_y_nonsquare/direction/c4/dask(3, 4)": "0f5132bd8e95bc7096dd:in_ok",
"A_f64_desc_y_nonsquare/direction/c4/numpy": "9815a5075a46b428b00b:in_ok",
"A_f64_desc_y_nonsquare/direction/c7/dask(3, 4)": "cb63dc65a340207ca9db:in_ok",
"A_f64_desc_y_nonsquare/direction/c7/numpy": "9fc68b9eef9831abd147:in_ok",
"A_f64_desc_y_nonsquare/proximity/c0/dask(3, 4)": "8b06df363af5e8802734:in_ok",
"A_f64_desc_y_nonsquare/proximity/c0/numpy": "9b874225489ecc6e8f49:in_ok",
"A_f64_desc_y_nonsquare/proximity/c12/dask(3, 4)": "EXC:ValueError",
"A_f64_desc_y_nonsquare/proximity/c12/numpy": "6298027ccf9a85849827:in_ok",
"A_f64_desc_y_nonsquare/proximity/c3/dask(3, 4)": "d96eed4032e54f1c981a:in_ok",
"A_f64_desc_y_nonsquare/proximity/c3/numpy": "208bcd6b49cce9b6b7dc:in_ok",
"A_f64_desc_y_nonsquare/proximity/c6/dask(3, 4)": "fa2bbc4dbac1d58b9862:in_ok",
"A_f64_desc_y_nonsquare/proximity/c6/numpy": "70ec52e5ce20b4599826:in_ok",
"A_f64_desc_y_nonsquare/proximity/c9/dask(3, 4)": "af592ba7fb91c8b9f3ad:in_ok",
"A_f64_desc_y_nonsquare/proximity/c9/numpy": "88cf7abe8b95fb63ec28:in_ok",
"B_i32_asc_y/allocation/c0/dask(5, 1)": "eebaa36445a61fcced7f:in_ok",
"B_i32_asc_y/allocation/c0/numpy": "2ed530443970df35b68c:in_ok",
"B_i32_asc_y/allocation/c1/dask(2, 3)": "eebaa36445a61fcced7f:in_ok",
"B_i32_asc_y/allocation/c1/numpy": "2ed530443970df35b68c:in_ok",
"B_i32_asc_y/allocation/c10/dask(5, 1)": "EXC:ValueError",
"B_i32_asc_y/allocation/c10/numpy": "a266d6a704790216aa0f:in_ok",
"B_i32_asc_y/allocation/c13/dask(2, 3)": "EXC:ValueError",
"B_i32_asc_y/allocation/c13/numpy": "6f8ad40abf1972548bcf:in_ok",
"B_i32_asc_y/allocation/c3/dask(2, 3)": "0a956448220a3614ba99:in_ok",
"B_i32_asc_y/allocation/c3/numpy": "9ee59098457af62097e3:in_ok",
"B_i32_asc_y/allocation/c4/dask(5, 1)": "ace3655468424996970f:in_ok",
"B_i32_asc_y/allocation/c4/numpy": "4d5bce8b19085898c642:in_ok",
"B_i32_asc_y/allocation/c7/dask(2, 3)": "ca4354c6c1f24769ef95:in_ok",
"B_i32_asc_y/allocation/c7/numpy": "2ed530443970df35b68c:in_ok",
"B_i32_asc_y/direction/c0/dask(2, 3)": "ec1f876ec0992c9ecfd6:in_ok",
"B_i32_asc_y/direction/c0/numpy": "2abd7149ddb4054cf6f7:in_ok",
"B_i32_asc_y/direction/c12/dask(2, 3)": "6c411dfa33fc6125f296:in_ok",
"B_i32_asc_y/direction/c12/numpy": "0b2668ad4221936d2333:in_ok",
"B_i32_asc_y/direction/c3/dask(5, 1)": "df359f4fc18478ac3230:in_ok",
"B_i32_asc_y/direction/c3/numpy": "68fd735e3f91c86c5de0:in_ok",
"B_i32_asc_y/direction/c6/dask(2, 3)": "3fbf4974271a1c91afd9:in_ok",
"B_i32_asc_y/direction/c6/numpy": "f0c79af3e19f7ef4b494:in_ok",
"B_i32_asc_y/direction/c9/dask(5, 1)": "ec1f876ec0992c9ecfd6:in_ok",
"B_i32_asc_y/direction/c9/numpy": "2abd7149ddb4054cf6f7:in_ok",
"B_i32_asc_y/proximity/c0/dask(2, 3)": "68a68e250fb925c41cc3:in_ok",
"B_i32_asc_y/proximity/c0/numpy": "cf7cd530cce70263d694:in_ok",
"B_i32_asc_y/proximity/c11/dask(5, 1)": "403fd2ff52659adbbb39:in_ok",
"B_i32_asc_y/proximity/c11/numpy": "4a6d1547bd82a8cd38cf:in_ok",
"B_i32_asc_y/proximity/c2/dask(2, 3)": "f4f1c718aae5b80d58cb:in_ok",
"B_i32_asc_y/proximity/c2/numpy": "ed2f3fde3f250f6637f2:in_ok",
"B_i32_asc_y/proximity/c3/dask(5, 1)": "f6bae65c81a7a88cc53d:in_ok",
"B_i32_asc_y/proximity/c3/numpy": "5455b5b636ea680b9f8c:in_ok",
"B_i32_asc_y/proximity/c5/dask(5, 1)": "edbef0a4151a794a9e87:in_ok",
"B_i32_asc_y/proximity/c5/numpy": "79ef75e6444fcd2305bd:in_ok",
"B_i32_asc_y/proximity/c8/dask(2, 3)": "68a68e250fb925c41cc3:in_ok",
"B_i32_asc_y/proximity/c8/numpy": "cf7cd530cce70263d694:in_ok",
"C_f32_1row/allocation/c0/dask(1, 3)": "a85c9f209629c4764b80:in_ok",
"C_f32_1row/allocation/c0/numpy": "e6fd28fe6cc4fa79d745:in_ok",
"C_f32_1row/allocation/c12/dask(1, 3)": "bcabbc3f291039c346d1:in_ok",
"C_f32_1row/allocation/c12/numpy": "94c823f371853477c9db:in_ok",
"C_f32_1row/allocation/c3/dask(1, 3)": "EXC:ValueError",
"C_f32_1row/allocation/c3/numpy": "87c4b2947585b529074e:in_ok",
"C_f32_1row/allocation/c6/dask(1, 3)": "bcabbc3f291039c346d1:in_ok",
"C_f32_1row/allocation/c6/numpy": "94c823f371853477c9db:in_ok",
"C_f32_1row/allocation/c9/dask(1, 3)": "a85c9f209629c4764b80:in_ok",
"C_f32_1row/allocation/c9/numpy": "e6fd28fe6cc4fa79d745:in_ok",
"C_f32_1row/direction/c0/dask(1, 3)": "a7a1c1782930035ab96d:in_ok",
"C_f32_1row/direction/c0/numpy": "92427a9d83f5d8aa2ad3:in_ok",
"C_f32_1row/direction/c11/dask(1, 3)": "69895f21cf2327c95e59:in_ok",
"C_f32_1row/direction/c11/numpy": "87c4b2947585b529074e:in_ok",
"C_f32_1row/direction/c2/dask(1, 3)": "69895f21cf2327c95e59:in_ok",
"C_f32_1row/direction/c2/numpy": "87c4b2947585b529074e:in_ok",
"C_f32_1row/direction/c3/dask(1, 3)": "EXC:ValueError",
"C_f32_1row/direction/c3/numpy": "87c4b2947585b529074e:in_ok",
"C_f32_1row/direction/c5/dask(1, 3)": "EXC:ValueError",
"C_f32_1row/direction/c5/numpy": "87c4b2947585b529074e:in_ok",
"C_f32_1row/direction/c8/dask(1, 3)": "a7a1c1782930035ab96d:in_ok",
"C_f32_1row/direction/c8/numpy": "92427a9d83f5d8aa2ad3:in_ok",
"C_f32_1row/proximity/c0/dask(1, 3)": "893449a496c774d52920:in_ok",
"C_f32_1row/proximity/c0/numpy": "38dffdef147b227bcb01:in_ok",
"C_f32_1row/proximity/c1/dask(1, 3)": "893449a496c774d52920:in_ok",
"C_f32_1row/proximity/c1/numpy": "38dffdef147b227bcb01:in_ok",
"C_f32_1row/proximity/c10/dask(1, 3)": "EXC:ValueError",
"C_f32_1row/proximity/c10/numpy": "87c4b2947585b529074e:in_ok",
"C_f32_1row/proximity/c13/dask(1, 3)": "EXC:ValueError",
"C_f32_1row/proximity/c13/numpy": "18a55e79d7c2630ed9d1:in_ok",
"C_f32_1row/proximity/c3/dask(1, 3)": "EXC:ValueError",
"C_f32_1row/proximity/c3/numpy": "87c4b2947585b529074e:in_ok",
"C_f32_1row/proximity/c4/dask(1, 3)": "EXC:ValueError",
"C_f32_1row/proximity/c4/numpy": "87c4b2947585b529074e:in_ok",
"C_f32_1row/proximity/c7/dask(1, 3)": "EXC:ValueError",
"C_f32_1row/proximity/c7/numpy": "81a42016bf28d8fa1677:in_ok",
"D_i64_1col/allocation/c0/dask(2, 1)": "165af7b86b5de6d942c8:in_ok",
"D_i64_1col/allocation/c0/numpy": "08ee319cd8dd52bdf76e:in_ok",
"D_i64_1col/allocation/c11/dask(2, 1)": "c6bb271795754b75175e:in_ok",
"D_i64_1col/allocation/c11/numpy": "7a78c7861e0f247337e9:in_ok",
"D_i64_1col/allocation/c2/dask(2, 1)": "c6bb271795754b75175e:in_ok",
"D_i64_1col/allocation/c2/numpy": "7a78c7861e0f247337e9:in_ok",
"D_i64_1col/allocation/c3/dask(2, 1)": "EXC:ValueError",
"D_i64_1col/allocation/c3/numpy": "7a78c7861e0f247337e9:in_ok",
"D_i64_1col/allocation/c5/dask(2, 1)": "EXC:ValueError",
"D_i64_1col/allocation/c5/numpy": "7a78c7861e0f247337e9:in_ok",
"D_i64_1col/allocation/c8/dask(2, 1)": "165af7b86b5de6d942c8:in_ok",
"D_i64_1col/allocation/c8/numpy": "08ee319cd8dd52bdf76e:in_ok",
"D_i64_1col/direction/c0/dask(2, 1)": "ce45d963cca9a77bab59:in_ok",
"D_i64_1col/direction/c0/numpy": "9d0d48643a22b994d30d:in_ok",
"D_i64_1col/direction/c1/dask(2, 1)": "ce45d963cca9a77bab59:in_ok",
"D_i64_1col/direction/c1/numpy": "9d0d48643a22b994d30d:in_ok",
"D_i64_1col/direction/c10/dask(2, 1)": "EXC:ValueError",
"D_i64_1col/direction/c10/numpy": "7a78c7861e0f247337e9:in_ok",
"D_i64_1col/direction/c13/dask(2, 1)": "EXC:ValueError",
"D_i64_1col/direction/c13/numpy": "78ff798f22604741334f:in_ok",
"D_i64_1col/direction/c3/dask(2, 1)": "EXC:ValueError",
"D_i64_1col/direction/c3/numpy": "7a78c7861e0f247337e9:in_ok",
"D_i64_1col/direction/c4/dask(2, 1)": "EXC:ValueError",
"D_i64_1col/direction/c4/numpy": "7a78c7861e0f247337e9:in_ok",
"D_i64_1col/direction/c7/dask(2, 1)": "EXC:ValueError",
"D_i64_1col/direction/c7/numpy": "9d0d48643a22b994d30d:in_ok",
"D_i64_1col/proximity/c0/dask(2, 1)": "96905fa19606eee56518:in_ok",
"D_i64_1col/proximity/c0/numpy": "deb0b8901130024fbc1b:in_ok",
"D_i64_1col/proximity/c12/dask(2, 1)": "7b3c3b2725c26969a519:in_ok",
"D_i64_1col/proximity/c12/numpy": "78ff798f22604741334f:in_ok",
"D_i64_1col/proximity/c3/dask(2, 1)": "EXC:ValueError",
"D_i64_1col/proximity/c3/numpy": "7a78c7861e0f247337e9:in_ok",
"D_i64_1col/proximity/c6/dask(2, 1)": "7b3c3b2725c26969a519:in_ok",
"D_i64_1col/proximity/c6/numpy": "78ff798f22604741334f:in_ok",
"D_i64_1col/proximity/c9/dask(2, 1)": "7a1c72c9148239a5fc07:in_ok",
"D_i64_1col/proximity/c9/numpy": "2203373b886ee1dcabd6:in_ok",
"E_f64_latlon/allocation/c0/dask(10, 3)": "1114f44878e26e71c045:in_ok",
"E_f64_latlon/allocation/c0/numpy": "c5e884a04ae1eb0a2858:in_ok",
"E_f64_latlon/allocation/c1/dask(4, 5)": "1114f44878e26e71c045:in_ok",
"E_f64_latlon/allocation/c1/numpy": "c5e884a04ae1eb0a2858:in_ok",
"E_f64_latlon/allocation/c10/dask(10, 3)": "EXC:ValueError",
"E_f64_latlon/allocation/c10/numpy": "d81bee5a64ff242d1758:in_ok",
"E_f64_latlon/allocation/c13/dask(4, 5)": "EXC:ValueError",
"E_f64_latlon/allocation/c13/numpy": "e0fc5e3b6ebe62ee218b:in_ok",
"E_f64_latlon/allocation/c3/dask(4, 5)": "ac551282c35567b56580:in_ok",
"E_f64_latlon/allocation/c3/numpy": "29c637e9268ab59de794:in_ok",
"E_f64_latlon/allocation/c4/dask(10, 3)": "85bdcf97e0db94962597:in_ok",
"E_f64_latlon/allocation/c4/numpy": "2e7727512a4612082190:in_ok",
"E_f64_latlon/allocation/c7/dask(4, 5)": "700259a73c277df9d006:in_ok",
"E_f64_latlon/allocation/c7/numpy": "e0fc5e3b6ebe62ee218b:in_ok",
"E_f64_latlon/direction/c0/dask(4, 5)": "05dcb32697d4d8cdca88:in_ok",
"E_f64_latlon/direction/c0/numpy": "721b0c9b2a064abfe0a2:in_ok",
"E_f64_latlon/direction/c12/dask(4, 5)": "fc07707e3a757a9e8212:in_ok",
"E_f64_latlon/direction/c12/numpy": "2061371d130e7ff49f53:in_ok",
"E_f64_latlon/direction/c3/dask(10, 3)": "06b83bfa1e853ccab12f:in_ok",
"E_f64_latlon/direction/c3/numpy": "638caffe3b899ab0b646:in_ok",
"E_f64_latlon/direction/c6/dask(4, 5)": "fc07707e3a757a9e8212:in_ok",
"E_f64_latlon/direction/c6/numpy": "2061371d130e7ff49f53:in_ok",
"E_f64_latlon/direction/c9/dask(10, 3)": "01abad165f3c0008e200:in_ok",
"E_f64_latlon/direction/c9/numpy": "8e07622654efbf550912:in_ok",
"E_f64_latlon/proximity/c0/dask(4, 5)": "634c49d226c4f74679af:in_ok",
"E_f64_latlon/proximity/c0/numpy": "37d6cb339481922266db:in_ok",
"E_f64_latlon/proximity/c11/dask(10, 3)": "ff04fa6621e3998a542c:in_ok",
"E_f64_latlon/proximity/c11/numpy": "ae738903cef204703986:in_ok",
"E_f64_latlon/proximity/c2/dask(4, 5)": "d1519e5a918564a5ac7d:in_ok",
"E_f64_latlon/proximity/c2/numpy": "7c388102f239d1043def:in_ok",
"E_f64_latlon/proximity/c3/dask(10, 3)": "06b83bfa1e853ccab12f:in_ok",
"E_f64_latlon/proximity/c3/numpy": "638caffe3b899ab0b646:in_ok",
"E_f64_latlon/proximity/c5/dask(10, 3)": "ee7e3628f4e6ee037fc3:in_ok",
"E_f64_latlon/proximity/c5/numpy": "c3fcfa86d21a25c2a9ee:in_ok",
"E_f64_latlon/proximity/c8/dask(4, 5)": "6451ce2636e43e9961d0:in_ok",
"E_f64_latlon/proximity/c8/numpy": "e6b33e387e6a83ccdc33:in_ok",
"F_f64_no_targets/allocation/c0/dask(2, 2)": "99e561ce8b848a10e70c:in_ok",
"F_f64_no_targets/allocation/c0/numpy": "271f73a5c6433d319476:in_ok",
"F_f64_no_targets/allocation/c12/dask(2, 2)": "42ebbd4b495f3af3f261:in_ok",
"F_f64_no_targets/allocation/c12/numpy": "271f73a5c6433d319476:in_ok",
"F_f64_no_targets/allocation/c3/dask(2, 2)": "a6e17242a0a09dc4928e:in_ok",
"F_f64_no_targets/allocation/c3/numpy": "271f73a5c6433d319476:in_ok",
"F_f64_no_targets/allocation/c6/dask(2, 2)": "42ebbd4b495f3af3f261:in_ok",
"F_f64_no_targets/allocation/c6/numpy": "271f73a5c6433d319476:in_ok",
"F_f64_no_targets/allocation/c9/dask(2, 2)": "99e561ce8b848a10e70c:in_ok",
"F_f64_no_targets/allocation/c9/numpy": "271f73a5c6433d319476:in_ok",
"F_f64_no_targets/direction/c0/dask(2, 2)": "99e561ce8b848a10e70c:in_ok",
"F_f64_no_targets/direction/c0/numpy": "271f73a5c6433d319476:in_ok",
"F_f64_no_targets/direction/c11/dask(2, 2)": "99e561ce8b848a10e70c:in_ok",
"F_f64_no_targets/direction/c11/numpy": "271f73a5c6433d319476:in_ok",
"F_f64_no_targets/direction/c2/dask(2, 2)": "99e561ce8b848a10e70c:in_ok",
"F_f64_no_targets/direction/c2/numpy": "271f73a5c6433d319476:in_ok",
"F_f64_no_targets/direction/c3/dask(2, 2)": "a6e17242a0a09dc4928e:in_ok",
"F_f64_no_targets/direction/c3/numpy": "271f73a5c6433d319476:in_ok",
"F_f64_no_targets/direction/c5/dask(2, 2)": "a6e17242a0a09dc4928e:in_ok",
"F_f64_no_targets/direction/c5/numpy": "271f73a5c6433d319476:in_ok",
"F_f64_no_targets/direction/c8/dask(2, 2)": "99e561ce8b848a10e70c:in_ok",
"F_f64_no_targets/direction/c8/numpy": "271f73a5c6433d319476:in_ok",
"F_f64_no_targets/proximity/c0/dask(2, 2)": "99e561ce8b848a10e70c:in_ok",
"F_f64_no_targets/proximity/c0/numpy": "271f73a5c6433d319476:in_ok",
"F_f64_no_targets/proximity/c1/dask(2, 2)": "99e561ce8b848a10e70c:in_ok",
"F_f64_no_targets/proximity/c1/numpy": "271f73a5c6433d319476:in_ok",
"F_f64_no_targets/proximity/c10/dask(2, 2)": "EXC:ValueError",
"F_f64_no_targets/proximity/c10/numpy": "271f73a5c6433d319476:in_ok",
"F_f64_no_targets/proximity/c13/dask(2, 2)": "EXC:ValueError",
"F_f64_no_targets/proximity/c13/numpy": "271f73a5c6433d319476:in_ok",
"F_f64_no_targets/proximity/c3/dask(2, 2)": "a6e17242a0a09dc4928e:in_ok",
"F_f64_no_targets/proximity/c3/numpy": "271f73a5c6433d319476:in_ok",
"F_f64_no_targets/proximity/c4/dask(2, 2)": "3a50aa3eca28a1326fbb:in_ok",
"F_f64_no_targets/proximity/c4/numpy": "271f73a5c6433d319476:in_ok",
"F_f64_no_targets/proximity/c7/dask(2, 2)": "a6e17242a0a09dc4928e:in_ok",
"F_f64_no_targets/proximity/c7/numpy": "271f73a5c6433d319476:in_ok",
"G_u8_nocoords_desc_x/allocation/c0/dask(3, 3)": "eb233adaf54d12658339:in_ok",
"G_u8_nocoords_desc_x/allocation/c0/numpy": "d33f9ae804f032137417:in_ok",
"G_u8_nocoords_desc_x/allocation/c11/dask(3, 3)": "bb99ad71a299c3f003ea:in_ok",
"G_u8_nocoords_desc_x/allocation/c11/numpy": "60b3bb46e792793f4a91:in_ok",
"G_u8_nocoords_desc_x/allocation/c2/dask(3, 3)": "eb233adaf54d12658339:in_ok",
"G_u8_nocoords_desc_x/allocation/c2/numpy": "d33f9ae804f032137417:in_ok",
"G_u8_nocoords_desc_x/allocation/c3/dask(3, 3)": "024c48944151601b892f:in_ok",
"G_u8_nocoords_desc_x/allocation/c3/numpy": "60b3bb46e792793f4a91:in_ok",
"G_u8_nocoords_desc_x/allocation/c5/dask(3, 3)": "e0af4c3b1400d781535b:in_ok",
"G_u8_nocoords_desc_x/allocation/c5/numpy": "60b3bb46e792793f4a91:in_ok",
"G_u8_nocoords_desc_x/allocation/c8/dask(3, 3)": "eb233adaf54d12658339:in_ok",
"G_u8_nocoords_desc_x/allocation/c8/numpy": "d33f9ae804f032137417:in_ok",
"G_u8_nocoords_desc_x/direction/c0/dask(3, 3)": "d7639afc548707faa65d:in_ok",
"G_u8_nocoords_desc_x/direction/c0/numpy": "223bd4f1473f43d5b8ab:in_ok",
"G_u8_nocoords_desc_x/direction/c1/dask(3, 3)": "d7639afc548707faa65d:in_ok",
"G_u8_nocoords_desc_x/direction/c1/numpy": "223bd4f1473f43d5b8ab:in_ok",
"G_u8_nocoords_desc_x/direction/c10/dask(3, 3)": "EXC:ValueError",
"G_u8_nocoords_desc_x/direction/c10/numpy": "38f7ecf53f19f62f516c:in_ok",
"G_u8_nocoords_desc_x/direction/c13/dask(3, 3)": "EXC:ValueError",
"G_u8_nocoords_desc_x/direction/c13/numpy": "10ca4e71ca78ad050685:in_ok",
"G_u8_nocoords_desc_x/direction/c3/dask(3, 3)": "024c48944151601b892f:in_ok",
"G_u8_nocoords_desc_x/direction/c3/numpy": "60b3bb46e792793f4a91:in_ok",
"G_u8_nocoords_desc_x/direction/c4/dask(3, 3)": "395908a980d4db183856:in_ok",
"G_u8_nocoords_desc_x/direction/c4/numpy": "a17af649f67816dae6ce:in_ok",
"G_u8_nocoords_desc_x/direction/c7/dask(3, 3)": "81fa5f16b40ee1e44b3c:in_ok",
"G_u8_nocoords_desc_x/direction/c7/numpy": "269ade154130ce424f7a:in_ok",
"G_u8_nocoords_desc_x/proximity/c0/dask(3, 3)": "6f7df4964feee756bcac:in_ok",
"G_u8_nocoords_desc_x/proximity/c0/numpy": "6638aa729f260787f0f5:in_ok",
"G_u8_nocoords_desc_x/proximity/c12/dask(3, 3)": "8e2bf9f17f226a96a2da:in_ok",
"G_u8_nocoords_desc_x/proximity/c12/numpy": "f173be1ed91c6b50d64f:in_ok",
"G_u8_nocoords_desc_x/proximity/c3/dask(3, 3)": "024c48944151601b892f:in_ok",
"G_u8_nocoords_desc_x/proximity/c3/numpy": "60b3bb46e792793f4a91:in_ok",
"G_u8_nocoords_desc_x/proximity/c6/dask(3, 3)": "8541f04df2c3f31ccd8c:in_ok",
"G_u8_nocoords_desc_x/proximity/c6/numpy": "10ca4e71ca78ad050685:in_ok",
"G_u8_nocoords_desc_x/proximity/c9/dask(3, 3)": "7f94128a7edd706430f7:in_ok",
"G_u8_nocoords_desc_x/proximity/c9/numpy": "456888e3719a230e4776:in_ok",
"H_bool_single/allocation/c0/dask(2, 3)": "42fccfbedd4a52ab7a6e:in_ok",
"H_bool_single/allocation/c0/numpy": "f82a296a6cd4ac7bf9fc:in_ok",
"H_bool_single/allocation/c1/dask(2, 3)": "42fccfbedd4a52ab7a6e:in_ok",
"H_bool_single/allocation/c1/numpy": "f82a296a6cd4ac7bf9fc:in_ok",
"H_bool_single/allocation/c10/dask(2, 3)": "EXC:ValueError",
"H_bool_single/allocation/c10/numpy": "96451e8398205ac7ba2b:in_ok",
"H_bool_single/allocation/c13/dask(2, 3)": "EXC:ValueError",
"H_bool_single/allocation/c13/numpy": "810b39edb7e369c31119:in_ok",
"H_bool_single/allocation/c3/dask(2, 3)": "0c7bc14c70b74d0a236e:in_ok",
"H_bool_single/allocation/c3/numpy": "f82a296a6cd4ac7bf9fc:in_ok",
"H_bool_single/allocation/c4/dask(2, 3)": "cfa1592b120777f17c84:in_ok",
"H_bool_single/allocation/c4/numpy": "96451e8398205ac7ba2b:in_ok",
"H_bool_single/allocation/c7/dask(2, 3)": "0c7bc14c70b74d0a236e:in_ok",
"H_bool_single/allocation/c7/numpy": "f82a296a6cd4ac7bf9fc:in_ok",
"H_bool_single/direction/c0/dask(2, 3)": "53f31d8de95b1451fdb2:in_ok",
"H_bool_single/direction/c0/numpy": "f4c7991c12211783fecc:in_ok",
"H_bool_single/direction/c12/dask(2, 3)": "e9b60b54463584734842:in_ok",
"H_bool_single/direction/c12/numpy": "054ca272f1a6364d698b:in_ok",
"H_bool_single/direction/c3/dask(2, 3)": "502f2eb87161a4d9454b:in_ok",
"H_bool_single/direction/c3/numpy": "f4c7991c12211783fecc:in_ok",
"H_bool_single/direction/c6/dask(2, 3)": "f8325017edc9619baf67:in_ok",
"H_bool_single/direction/c6/numpy": "d517fc80f078aa2e6702:in_ok",
"H_bool_single/direction/c9/dask(2, 3)": "53f31d8de95b1451fdb2:in_ok",
"H_bool_single/direction/c9/numpy": "f4c7991c12211783fecc:in_ok",
"H_bool_single/proximity/c0/dask(2, 3)": "e254030ac194f16972d6:in_ok",
"H_bool_single/proximity/c0/numpy": "93f764c8405244913e49:in_ok",
"H_bool_single/proximity/c11/dask(2, 3)": "0b9afeb2b7f12e8ad7e4:in_ok",
"H_bool_single/proximity/c11/numpy": "96451e8398205ac7ba2b:in_ok",
"H_bool_single/proximity/c2/dask(2, 3)": "0b9afeb2b7f12e8ad7e4:in_ok",
"H_bool_single/proximity/c2/numpy": "96451e8398205ac7ba2b:in_ok",
"H_bool_single/proximity/c3/dask(2, 3)": "20eb13accd36a25cffd5:in_ok",
"H_bool_single/proximity/c3/numpy": "93f764c8405244913e49:in_ok",
"H_bool_single/proximity/c5/dask(2, 3)": "98ec1932cc967054fc96:in_ok",
"H_bool_single/proximity/c5/numpy": "96451e8398205ac7ba2b:in_ok",
"H_bool_single/proximity/c8/dask(2, 3)": "e254030ac194f16972d6:in_ok",
"H_bool_single/proximity/c8/numpy": "93f764c8405244913e49:in_ok",
"I_f32_nocoordvars/allocation/c0/dask(3, 3)": "44985ff297435f2c5db5:in_ok",
"I_f32_nocoordvars/allocation/c0/numpy": "b28d54a117b955432add:in_ok",
"I_f32_nocoordvars/allocation/c12/dask(3, 3)": "264d86cd102c71d82487:in_ok",
"I_f32_nocoordvars/allocation/c12/numpy": "90edfee6ea71881eeac4:in_ok",
"I_f32_nocoordvars/allocation/c3/dask(3, 3)": "c196768400cebe9b6946:in_ok",
"I_f32_nocoordvars/allocation/c3/numpy": "bb6127d827cad80a0d66:in_ok",
"I_f32_nocoordvars/allocation/c6/dask(3, 3)": "b45bb555dd981a0ba3aa:in_ok",
"I_f32_nocoordvars/allocation/c6/numpy": "ed98686da3bf16cc73f1:in_ok",
"I_f32_nocoordvars/allocation/c9/dask(3, 3)": "651219b4b84a87ab0a16:in_ok",
"I_f32_nocoordvars/allocation/c9/numpy": "48821e1a97b8808208e7:in_ok",
"I_f32_nocoordvars/direction/c0/dask(3, 3)": "c2592e04f0f3d5e77089:in_ok",
"I_f32_nocoordvars/direction/c0/numpy": "78b161e57573f089459a:in_ok",
"I_f32_nocoordvars/direction/c11/dask(3, 3)": "5a704521983aed56573e:in_ok",
"I_f32_nocoordvars/direction/c11/numpy": "bb6127d827cad80a0d66:in_ok",
"I_f32_nocoordvars/direction/c2/dask(3, 3)": "5a704521983aed56573e:in_ok",
"I_f32_nocoordvars/direction/c2/numpy": "bb6127d827cad80a0d66:in_ok",
"I_f32_nocoordvars/direction/c3/dask(3, 3)": "c196768400cebe9b6946:in_ok",
"I_f32_nocoordvars/direction/c3/numpy": "bb6127d827cad80a0d66:in_ok",
"I_f32_nocoordvars/direction/c5/dask(3, 3)": "c196768400cebe9b6946:in_ok",
"I_f32_nocoordvars/direction/c5/numpy": "bb6127d827cad80a0d66:in_ok",
"I_f32_nocoordvars/direction/c8/dask(3, 3)": "c2592e04f0f3d5e77089:in_ok",
"I_f32_nocoordvars/direction/c8/numpy": "78b161e57573f089459a:in_ok",
"I_f32_nocoordvars/proximity/c0/dask(3, 3)": "f95634f39f22d1e0cc7e:in_ok",
"I_f32_nocoordvars/proximity/c0/numpy": "26f6495a9f530db70040:in_ok",
"I_f32_nocoordvars/proximity/c1/dask(3, 3)": "f95634f39f22d1e0cc7e:in_ok",
"I_f32_nocoordvars/proximity/c1/numpy": "26f6495a9f530db70040:in_ok",
"I_f32_nocoordvars/proximity/c10/dask(3, 3)": "EXC:ValueError",
"I_f32_nocoordvars/proximity/c10/numpy": "bb6127d827cad80a0d66:in_ok",
"I_f32_nocoordvars/proximity/c13/dask(3, 3)": "EXC:ValueError",
"I_f32_nocoordvars/proximity/c13/numpy": "b833d8fc10ae7bba8cb0:in_ok",
"I_f32_nocoordvars/proximity/c3/dask(3, 3)": "c196768400cebe9b6946:in_ok",
"I_f32_nocoordvars/proximity/c3/numpy": "bb6127d827cad80a0d66:in_ok",
"I_f32_nocoordvars/proximity/c4/dask(3, 3)": "c196768400cebe9b6946:in_ok",
"I_f32_nocoordvars/proximity/c4/numpy": "bb6127d827cad80a0d66:in_ok",
"I_f32_nocoordvars/proximity/c7/dask(3, 3)": "90a465af001fa7ec1122:in_ok",
"I_f32_nocoordvars/proximity/c7/numpy": "d8939365833c6103447d:in_ok",
"bad/empty_cols/proximity/numpy": "EXC:IndexError",
"bad/empty_rows/proximity/numpy": "EXC:IndexError",
"bad/gc_out_of_range/proximity/dask": "EXC:ValueError",
"bad/gc_out_of_range/proximity/numpy": "EXC:ValueError",
"bad/latlon_default_names/proximity/dask": "EXC:ValueError",
"bad/latlon_default_names/proximity/numpy": "EXC:ValueError",
"bad/max_distance_str/proximity/dask": "EXC:TypeError",
"bad/max_distance_str/proximity/numpy": "EXC:TypingError",
"bad/metric_int/allocation/dask": "589d3718d978f67af887:in_ok",
"bad/metric_int/allocation/numpy": "b712a90f5a315d0e94b9:in_ok",
"bad/metric_int/direction/dask": "835e9e5b9320d76e679e:in_ok",
"bad/metric_int/direction/numpy": "9fc68b9eef9831abd147:in_ok",
"bad/metric_int/proximity/dask": "8b06df363af5e8802734:in_ok",
"bad/metric_int/proximity/numpy": "9b874225489ecc6e8f49:in_ok",
"bad/metric_lowercase/proximity/dask": "8b06df363af5e8802734:in_ok",
"bad/metric_lowercase/proximity/numpy": "9b874225489ecc6e8f49:in_ok",
"bad/not_a_dataarray": "EXC:AttributeError",
"bad/one_d/proximity/numpy": "EXC:ValueError",
"bad/swapped_dims/proximity/dask": "EXC:ValueError",
"bad/swapped_dims/proximity/numpy": "EXC:ValueError",
"bad/target_values_2d/proximity/dask": "EXC:ValueError",
"bad/target_values_2d/proximity/numpy": "EXC:ValueError",
"bad/target_values_none/allocation/dask": "EXC:TypingError",
"bad/target_values_none/allocation/numpy": "EXC:TypingError",
"bad/target_values_none/direction/dask": "EXC:TypingError",
"bad/target_values_none/direction/numpy": "EXC:TypingError",
"bad/target_values_none/proximity/dask": "EXC:TypingError",
"bad/target_values_none/proximity/numpy": "EXC:TypingError",
"bad/target_values_scalar/proximity/dask": "EXC:TypingError",
"bad/target_values_scalar/proximity/numpy": "EXC:TypingError",
"bad/target_values_str/proximity/dask": "07d77fe66289f4047d40:in_ok",
"bad/target_values_str/proximity/numpy": "550c9dcd62487a692f2d:in_ok",
"bad/three_d/proximity/numpy": "EXC:ValueError",
"bad/unhashable_metric/allocation/dask": "EXC:TypeError",
"bad/unhashable_metric/allocation/numpy": "EXC:TypeError",
"bad/unhashable_metric/direction/dask": "EXC:TypeError",
"bad/unhashable_metric/direction/numpy": "EXC:TypeError",
"bad/unhashable_metric/proximity/dask": "EXC:TypeError",
"bad/unhashable_metric/proximity/numpy": "EXC:TypeError",
"bad/unhashable_metric_dict/proximity/dask": "EXC:TypeError",
"bad/unhashable_metric_dict/proximity/numpy": "EXC:TypeError",
"bad/wrong_dim_names/allocation/dask": "EXC:ValueError",
"bad/wrong_dim_names/allocation/numpy": "EXC:ValueError",
"bad/wrong_dim_names/direction/dask": "EXC:ValueError",
"bad/wrong_dim_names/direction/numpy": "EXC:ValueError",
"bad/wrong_dim_names/proximity/dask": "EXC:ValueError",
"bad/wrong_dim_names/proximity/numpy": "EXC:ValueError",
"bad/wrong_dims_and_unhashable_metric/allocation/dask": "EXC:ValueError",
"bad/wrong_dims_and_unhashable_metric/allocation/numpy": "EXC:ValueError",
"bad/wrong_dims_and_unhashable_metric/direction/dask": "EXC:ValueError",
"bad/wrong_dims_and_unhashable_metric/direction/numpy": "EXC:ValueError",
"bad/wrong_dims_and_unhashable_metric/proximity/dask": "EXC:ValueError",
"bad/wrong_dims_and_unhashable_metric/proximity/numpy": "EXC:ValueError",
"positional/allocation": "3f528488d7a81a633568:in_ok",
"positional/direction": "267b7e4541f935c28685:in_ok",
"positional/proximity": "ea69c8614cf7068b7adf:in_ok",
"scalar/euclidean_distance/0": "float:5.0",
"scalar/euclidean_distance/1": "float:35.75047971706112",
"scalar/euclidean_distance/2": "float:356.5459297201414",
"scalar/euclidean_distance/3": "float:5.0",
"scalar/gc_bad": "EXC:ValueError",
"scalar/great_circle_distance/0": "float:556434.5801859829",
"scalar/great_circle_distance/1": "float:3511200.3351779208",
"scalar/great_circle_distance/2": "float:10112864.127599195",
"scalar/great_circle_distance/3": "float:556068.4893151501",
"scalar/manhattan_distance/0": "float:7.0",
"scalar/manhattan_distance/1": "float:49.559999999999974",
"scalar/manhattan_distance/2": "float:435.0",
"scalar/manhattan_distance/3": "int:7.0"
}
""")


def main():
    print("xrspatial from", xrspatial.__file__)
    got = collect()
    if "--record" in sys.argv:
        print("@@JSON@@" + json.dumps(got, indent=0, sort_keys=True))
        return 0
    bad = 0
    for k in sorted(set(got) | set(EXPECTED)):
        if got.get(k) != EXPECTED.get(k):
            bad += 1
            print("DIFF", k, "expected", EXPECTED.get(k), "got", got.get(k))
    if not independent_check():
        bad += 1
    print("%d recorded cases compared, %d differences" % (len(EXPECTED), bad))
    return 1 if bad else 0


if __name__ == "__main__":
    sys.exit(main())
