"""Differential test for property C03 (zonal tables independent of dask chunking).

Runs xrspatial.zonal.stats / crosstab on numpy and dask inputs for many chunk
decompositions, dtypes, NaN / nodata patterns and id selections, and checks

  1. the results against an independent brute-force reference (exact for zone
     ids / count / min / max, rtol for sum / mean / std / var),
  2. dask == numpy backend (same criteria),
  3. a SHA256 digest over the raw bytes of every produced table against the
     digest recorded from the unmodified tree (bit-for-bit identical output,
     identical dtypes and column names, identical exception types).

Exit code 0 when everything matches, 1 otherwise.
Usage:  python equiv.py            (check)
        python equiv.py --record   (print digest of the current tree)
"""
import hashlib
import sys
import warnings

import dask
import dask.array as da
import numpy as np
import pandas as pd
import xarray as xr

import xrspatial
from xrspatial.zonal import crosstab, stats

warnings.filterwarnings("ignore")

RECORDED_DIGEST = "d8964d38bf6db68d6beaaf6350e3601fff130a287e0cae1547bc32fd19e880b7"

ALL_STATS = ['mean', 'max', 'min', 'sum', 'std', 'var', 'count']
failures = []
hasher = hashlib.sha256()


def fail(msg):
    failures.append(msg)
    print("FAIL:", msg)


def feed_df(tag, df):
    hasher.update(tag.encode())
    hasher.update(("|".join(map(str, df.columns))).encode())
    for c in df.columns:
        col = df[c].to_numpy()
        hasher.update(str(col.dtype).encode())
        hasher.update(np.ascontiguousarray(col).tobytes())
    hasher.update(np.asarray(df.index).tobytes())


def feed_arr(tag, arr):
    arr = np.asarray(arr)
    hasher.update(tag.encode())
    hasher.update(str(arr.dtype).encode())
    hasher.update(str(arr.shape).encode())
    hasher.update(np.ascontiguousarray(arr).tobytes())


raised = []


def feed_exc(tag, exc):
    raised.append((tag, type(exc).__name__))
    hasher.update(tag.encode())
    hasher.update(type(exc).__name__.encode())


# ---------------------------------------------------------------- inputs
def make_zones(rng, shape, kind):
    if kind == 'int32':
        return rng.integers(0, 5, size=shape).astype(np.int32)
    if kind == 'int64_sparse':
        return (rng.integers(0, 4, size=shape) * 7 - 3).astype(np.int64)
    if kind == 'float_nan':
        z = rng.integers(0, 4, size=shape).astype(np.float64)
        z[rng.random(shape) < 0.15] = np.nan
        return z
    if kind == 'float_inf':
        z = rng.integers(1, 4, size=shape).astype(np.float64) * 1.5
        m = rng.random(shape)
        z[m < 0.1] = np.nan
        z[(m >= 0.1) & (m < 0.15)] = np.inf
        z[(m >= 0.15) & (m < 0.2)] = -np.inf
        return z
    if kind == 'blocks':
        z = np.zeros(shape, dtype=np.int64)
        z[shape[0] // 2:, :] = 1
        z[:, shape[1] // 2:] += 2
        return z
    raise ValueError(kind)


def make_values(rng, shape, kind):
    if kind == 'int32':
        return rng.integers(-3, 6, size=shape).astype(np.int32)
    if kind == 'int64':
        return rng.integers(0, 1000, size=shape).astype(np.int64)
    if kind == 'float32':
        v = (rng.random(shape) * 100).astype(np.float32)
        v[rng.random(shape) < 0.2] = np.nan
        return v
    if kind == 'float64':
        v = rng.normal(size=shape) * 1e3
        m = rng.random(shape)
        v[m < 0.15] = np.nan
        v[(m >= 0.15) & (m < 0.2)] = np.inf
        v[(m >= 0.2) & (m < 0.3)] = 0.0
        return v
    if kind == 'cats':
        v = rng.integers(0, 4, size=shape).astype(np.float64)
        v[rng.random(shape) < 0.2] = np.nan
        return v
    raise ValueError(kind)


def chunkings(shape):
    # (zones chunks, values chunks); kept to a handful of blocks because the
    # dask backend of zonal.stats costs ~0.1 s per block and per statistic
    h, w = shape
    h2, w2 = -(-h // 2), -(-w // 2)
    h3, w3 = -(-h // 3), -(-w // 3)
    out = [
        ((h, w), (h, w)),                 # single block
        ((h2, w2), (h2, w2)),             # zones split over up to 4 blocks
        ((h, w3), (h3, w)),               # zones / values chunked differently
        ((h3, w), (h2, w2)),              # ditto, other way round
    ]
    return out


# ---------------------------------------------------------------- references
def ref_stats(zones, values, zone_ids, stat_names, nodata):
    zf = zones.ravel().astype(np.float64)
    vf = values.ravel()
    uz = np.unique(zf[np.isfinite(zf)])
    if zone_ids is not None:
        uz = np.array([z for z in uz if z in zone_ids])
    rows = []
    for z in uz:
        v = vf[zf == z]
        keep = np.isfinite(v)
        if nodata is not None:
            keep &= (v != nodata)
        v = v[keep].astype(np.float64)
        row = {'zone': z}
        if v.size == 0:
            for s in stat_names:
                row[s] = np.nan
        else:
            n = v.size
            full = dict(count=float(n), min=v.min(), max=v.max(), sum=v.sum(),
                        mean=v.sum() / n,
                        var=np.mean((v - v.mean()) ** 2),
                        std=np.sqrt(np.mean((v - v.mean()) ** 2)))
            for s in stat_names:
                row[s] = full[s]
        rows.append(row)
    return pd.DataFrame(rows, columns=['zone'] + list(stat_names))


def cmp_stats(tag, got, ref, exact_only=False):
    if list(got.columns) != list(ref.columns):
        fail(f"{tag}: columns {list(got.columns)} != {list(ref.columns)}")
        return
    if len(got) != len(ref):
        fail(f"{tag}: nrows {len(got)} != {len(ref)}")
        return
    for c in ref.columns:
        g = got[c].to_numpy().astype(np.float64)
        r = ref[c].to_numpy().astype(np.float64)
        if c in ('zone', 'count', 'min', 'max'):
            ok = np.array_equal(g, r, equal_nan=True)
        else:
            # std/var use the cancellation-prone E[x^2]-E[x]^2 formula on dask
            ok = np.allclose(g, r, rtol=1e-5, atol=1e-3, equal_nan=True)
        if not ok:
            fail(f"{tag}: column {c}: {g} != {r}")


def ref_crosstab(zones, values, zone_ids, cat_ids, nodata, agg):
    zf = zones.ravel().astype(np.float64)
    vf = values.ravel().astype(np.float64)
    uz = np.unique(zf[np.isfinite(zf)])
    if zone_ids is not None:
        uz = np.array([z for z in uz if z in zone_ids])
    keep_all = np.isfinite(vf)
    if nodata is not None:
        keep_all &= (vf != nodata)
    ucats = np.unique(vf[keep_all])
    cats = list(ucats) if cat_ids is None else [c for c in cat_ids if c in ucats]
    rows = []
    for z in uz:
        v = vf[(zf == z) & keep_all]
        row = {'zone': z}
        for c in cats:
            n = float((v == c).sum())
            if agg == 'percentage':
                n = n / v.size * 100 if v.size else np.nan
            row[c] = n
        rows.append(row)
    return pd.DataFrame(rows, columns=['zone'] + cats)


def cmp_crosstab(tag, got, ref):
    def _names(df):
        return ['zone'] + [c if isinstance(c, str) else float(c) for c in df.columns[1:]]
    if got.columns[0] != 'zone' or _names(got) != _names(ref):
        fail(f"{tag}: columns {list(got.columns)} != {list(ref.columns)}")
        return
    if len(got) != len(ref):
        fail(f"{tag}: nrows {len(got)} != {len(ref)}")
        return
    g = got.to_numpy().astype(np.float64)
    r = ref.to_numpy().astype(np.float64)
    if not np.allclose(g, r, rtol=1e-12, atol=0, equal_nan=True):
        fail(f"{tag}: values differ\n{got}\n{ref}")


# ---------------------------------------------------------------- drivers
def run(tag, fn):
    """Run fn, feed result/exception in the digest, return result or None."""
    try:
        res = fn()
        if hasattr(res, 'compute'):
            res = res.compute()
    except Exception as e:  # noqa
        feed_exc(tag, e)
        return None
    if isinstance(res, pd.DataFrame):
        feed_df(tag, res)
    else:
        feed_arr(tag, res.data if hasattr(res, 'data') else res)
    return res


def check_stats():
    rng = np.random.default_rng(20240517)
    shapes = [(7, 9), (1, 13), (6, 6), (5, 1)]
    zone_kinds = ['int32', 'int64_sparse', 'float_nan', 'float_inf', 'blocks']
    value_kinds = ['int32', 'int64', 'float32', 'float64']
    stat_subsets = [ALL_STATS, ['count'], ['min', 'max'], ['sum', 'mean'],
                    ['std'], ['var', 'count'], ['max', 'std', 'sum']]
    case = 0
    for shape in shapes:
        for zk in zone_kinds:
            for vk in value_kinds:
                case += 1
                zones = make_zones(rng, shape, zk)
                values = make_values(rng, shape, vk)
                if shape != shapes[0] and case % 4 != 0:
                    continue  # full product only for the first shape
                nodata = [None, 0, 3][case % 3]
                sub = stat_subsets[case % len(stat_subsets)]
                uz = np.unique(zones[np.isfinite(zones)])
                zid_options = [None]
                if len(uz) > 1 and case % 2 == 0:
                    zid_options.append([uz[-1], uz[0], 12345])
                for zi, zone_ids in enumerate(zid_options):
                    tag = f"stats[{case}:{shape}:{zk}:{vk}:nd={nodata}:zi={zi}:{sub}]"
                    kw = dict(zone_ids=zone_ids, stats_funcs=sub)
                    if nodata is not None:
                        kw['nodata_values'] = nodata
                    ref = ref_stats(zones, values, zone_ids, sub, nodata)
                    np_df = run(tag + ":np", lambda: stats(
                        xr.DataArray(zones.copy()), xr.DataArray(values.copy()), **kw))
                    if np_df is None:
                        fail(tag + ": numpy backend raised")
                        continue
                    cmp_stats(tag + ":np-vs-ref", np_df, ref)
                    # zone_ids selection on the dask backend goes through a
                    # slow row loop; exercise it on one chunking only
                    chs = chunkings(shape) if zone_ids is None else chunkings(shape)[1:2]
                    for ci, (zc, vc) in enumerate(chs):
                        sched = 'threads' if (ci + case) % 2 else 'synchronous'
                        with dask.config.set(scheduler=sched, num_workers=3):
                            dk_df = run(f"{tag}:dk{ci}", lambda: stats(
                                xr.DataArray(da.from_array(zones.copy(), chunks=zc)),
                                xr.DataArray(da.from_array(values.copy(), chunks=vc)),
                                **kw))
                        if dk_df is None:
                            # dask may legitimately raise (recorded in digest)
                            continue
                        dk_df = dk_df.reset_index(drop=True)
                        cmp_stats(f"{tag}:dk{ci}-vs-ref", dk_df, ref)
                        cmp_stats(f"{tag}:dk{ci}-vs-np", dk_df, np_df.reset_index(drop=True))

    # numpy-only paths sharing the same helpers
    zones = make_zones(rng, (8, 5), 'float_nan')
    values = make_values(rng, (8, 5), 'float64')
    run("stats:xarray-return", lambda: stats(
        xr.DataArray(zones), xr.DataArray(values), return_type='xarray.DataArray'))
    run("stats:xarray-return-ids", lambda: stats(
        xr.DataArray(zones), xr.DataArray(values), zone_ids=[2, 0],
        stats_funcs=['mean', 'count'], return_type='xarray.DataArray'))
    run("stats:custom", lambda: stats(
        xr.DataArray(zones), xr.DataArray(values), nodata_values=0,
        stats_funcs={'rng': lambda z: z.max() - z.min(), 'n': lambda z: z.size}))
    run("stats:bad-stat", lambda: stats(
        xr.DataArray(zones), xr.DataArray(values), stats_funcs=['median']))
    run("stats:dask-dict", lambda: stats(
        xr.DataArray(da.from_array(zones, chunks=3)),
        xr.DataArray(da.from_array(values, chunks=3)),
        stats_funcs={'n': lambda z: z.size}))
    run("stats:bad-dtype", lambda: stats(
        xr.DataArray(zones.astype(bool)), xr.DataArray(values)))


def check_crosstab():
    rng = np.random.default_rng(777)
    shapes = [(7, 9), (1, 11), (6, 4)]
    zone_kinds = ['int32', 'float_nan', 'float_inf', 'blocks']
    case = 0
    for shape in shapes:
        for zk in zone_kinds:
            for vk in ['cats', 'int32']:
                case += 1
                zones = make_zones(rng, shape, zk)
                values = make_values(rng, shape, vk)
                nodata = [None, 0, 2][case % 3]
                agg = ['count', 'percentage'][case % 2]
                uz = np.unique(zones[np.isfinite(zones)])
                for zi, zone_ids in enumerate([None, [uz[-1], uz[0], 999]]):
                    for cidx, cat_ids in enumerate([None, [3, 1, 77]]):
                        if (zi + cidx + case) % 2:
                            continue  # half of the id selections per case
                        tag = f"crosstab[{case}:{shape}:{zk}:{vk}:nd={nodata}:{agg}:zi={zi}:ci={cidx}]"
                        kw = dict(zone_ids=zone_ids, cat_ids=cat_ids, agg=agg)
                        if nodata is not None:
                            kw['nodata_values'] = nodata
                        ref = ref_crosstab(zones, values, zone_ids, cat_ids, nodata, agg)
                        np_df = run(tag + ":np", lambda: crosstab(
                            xr.DataArray(zones.copy()), xr.DataArray(values.copy()), **kw))
                        if np_df is None:
                            fail(tag + ": numpy backend raised")
                            continue
                        cmp_crosstab(tag + ":np-vs-ref", np_df, ref)
                        for ci, (zc, vc) in enumerate(chunkings(shape)):
                            sched = 'threads' if (ci + case) % 2 else 'synchronous'
                            with dask.config.set(scheduler=sched, num_workers=3):
                                dk_df = run(f"{tag}:dk{ci}", lambda: crosstab(
                                    xr.DataArray(da.from_array(zones.copy(), chunks=zc)),
                                    xr.DataArray(da.from_array(values.copy(), chunks=vc)),
                                    **kw))
                            if dk_df is None:
                                fail(f"{tag}:dk{ci}: dask backend raised")
                                continue
                            dk_df = dk_df.reset_index(drop=True)
                            cmp_crosstab(f"{tag}:dk{ci}-vs-ref", dk_df, ref)
                            cmp_crosstab(f"{tag}:dk{ci}-vs-np", dk_df, np_df)

    # 3D values
    zones = make_zones(rng, (6, 8), 'float_nan')
    vals3 = rng.normal(size=(3, 6, 8))
    vals3[rng.random(vals3.shape) < 0.2] = np.nan
    vals3[rng.random(vals3.shape) < 0.1] = 0.0
    coords = {'layer': ['a', 'b', 'c']}
    dims = ('layer', 'y', 'x')
    for agg in ['count', 'min', 'max', 'sum', 'mean', 'std', 'var']:
        for cat_ids in [None, ['c', 'a']]:
            run(f"crosstab3d:np:{agg}:{cat_ids}", lambda: crosstab(
                xr.DataArray(zones.copy()),
                xr.DataArray(vals3.copy(), dims=dims, coords=coords),
                cat_ids=cat_ids, agg=agg, nodata_values=0))
    np3 = crosstab(xr.DataArray(zones.copy()),
                   xr.DataArray(vals3.copy(), dims=dims, coords=coords),
                   agg='count', nodata_values=0, zone_ids=[0, 3])
    for ci, (zc, vc) in enumerate(chunkings((6, 8))):
        dk3 = run(f"crosstab3d:dk{ci}", lambda: crosstab(
            xr.DataArray(da.from_array(zones.copy(), chunks=zc)),
            xr.DataArray(da.from_array(vals3.copy(), chunks=(1,) + vc), dims=dims, coords=coords),
            agg='count', nodata_values=0, zone_ids=[0, 3]))
        if dk3 is None:
            fail(f"crosstab3d:dk{ci} raised")
            continue
        cmp_crosstab(f"crosstab3d:dk{ci}-vs-np", dk3.reset_index(drop=True), np3)
    # layer given as last dim
    run("crosstab3d:layer-1", lambda: crosstab(
        xr.DataArray(zones.copy()),
        xr.DataArray(np.moveaxis(vals3, 0, -1).copy(), dims=('y', 'x', 'layer'), coords=coords),
        layer=-1, agg='mean'))


def main():
    assert '/verif' not in xrspatial.__file__
    print("testing", xrspatial.__file__)
    check_stats()
    check_crosstab()
    digest = hasher.hexdigest()
    if '--record' in sys.argv:
        print("DIGEST", digest)
        return 0 if not failures else 1
    if digest != RECORDED_DIGEST:
        fail(f"digest {digest} != recorded {RECORDED_DIGEST}")
    print("calls that raised (type recorded in digest):", raised)
    print("failures:", len(failures))
    return 0 if not failures else 1


if __name__ == '__main__':
    sys.exit(main())
