"""Differential test for refactoring TC19-t22 (radius-string parsing and
calc_cellsize unit lookup in xrspatial/convolution.py).

The expected outcomes are produced by an independent reference
re-implementation (verbatim copy of the pre-refactoring logic, stand-alone)
plus a handful of hard-coded numbers.  Exit 0 if everything is identical.
"""
import re
import sys

import numpy as np
import xarray as xr

import xrspatial
from xrspatial import convolution as C

FAILS = []


def check(cond, msg):
    if not cond:
        FAILS.append(msg)


# ---------------------------------------------------------------- reference
R_UNITS = {'meter': 1, 'meters': 1, 'm': 1,
           'feet': 0.3048, 'foot': 0.3048, 'ft': 0.3048,
           'miles': 1609.344, 'mls': 1609.344, 'ml': 1609.344,
           'kilometer': 1000, 'kilometers': 1000, 'km': 1000}


def ref_get_distance(distance_str):
    splits = [x for x in re.split(r'(-?\d*\.?\d+)', distance_str) if x != '']
    if len(splits) not in [1, 2]:
        raise ValueError("Invalid distance.")
    unit = 'meter'
    if len(splits) == 2:
        unit = splits[1]
    number = splits[0]
    try:
        float(number)
    except ValueError:
        raise ValueError("Distance should be a positive numeric value.\n")
    distance = float(number)
    if distance <= 0:
        raise ValueError("Distance should be a positive.\n")
    unit = unit.lower()
    unit = unit.replace(' ', '')
    if unit not in R_UNITS:
        raise ValueError(
            "Distance unit should be one of the following: \n"
            "meter (meter, meters, m),\n"
            "kilometer (kilometer, kilometers, km),\n"
            "foot (foot, feet, ft),\n"
            "mile (mile, miles, ml, mls)")
    return distance * R_UNITS[unit]


def ref_ellipse(half_w, half_h):
    # independent: explicit loops on integer offsets
    out = np.zeros((2 * half_h + 1, 2 * half_w + 1), dtype=np.float64)
    for j in range(-half_h, half_h + 1):
        for i in range(-half_w, half_w + 1):
            if (i * half_h) ** 2 + (j * half_w) ** 2 <= (half_w * half_h) ** 2:
                out[j + half_h, i + half_w] = 1.0
    return out


def ref_circle(cx, cy, radius):
    r = ref_get_distance(str(radius))
    return ref_ellipse(int(r / cx), int(r / cy))


def outcome(f, *a):
    try:
        v = f(*a)
    except Exception as e:  # noqa
        return ('exc', type(e).__name__, str(e))
    return ('val', type(v).__name__, repr(v))


def same_array(a, b):
    return (type(a) is type(b) and a.dtype == b.dtype and a.shape == b.shape
            and a.tobytes() == b.tobytes())


# ------------------------------------------------------------- _get_distance
numbers = ['1', '10', '2.5', '.5', '0.25', '007', '1e3', '1.5e2', '3.', '0',
           '0.0', '-1', '-0.5', '-.5', '1-2', '1.2.3', '', ' ', '12 34', 'abc',
           '.', '-', '1,5', '  7', '7  ', '1_0', 'inf', 'nan', '1e-3', '٣',
           '5 5 5', '1000000000000000000000', '0.30000000000000004']
units = ['', 'm', 'M', 'meter', 'meters', 'Meters', 'METER', ' m', ' m ',
         'k m', 'km', 'KM', 'kilometer', 'kilometers', 'Kilo Meters', 'ft',
         'foot', 'feet', 'FEET', 'ml', 'mls', 'miles', 'mile', 'Miles',
         'yard', 'cm', 'm2', 'm 2', 'km3km', '\tm', '\nkm', 'm\n', ' ', 'mi',
         'meter s', 'ft.', 'k-m', 'é']
strings = []
for n in numbers:
    for u in units:
        strings.append(n + u)
        strings.append(n + ' ' + u)
strings += ['m5', 'km 5', ' 5km', '5km ', 'five', '5 km 5', '5km5km', '--5',
            '+5', '+5m', '5e', '5E2km', '1/2', '0x10', '1e400', '1e-400']

for s in strings:
    got = outcome(C._get_distance, s)
    exp = outcome(ref_get_distance, s)
    check(got == exp, '_get_distance(%r): got %r expected %r' % (s, got, exp))

# a few hard-coded numbers (recorded from the unmodified tree)
hard = {'1': 1.0, '2.5km': 2500.0, '10 ft': 3.048, '3 Miles': 4828.032,
        '1.5 Kilo Meters': 1500.0, '7mls': 11265.408, '2foot': 0.6096,
        '1e3': 1.0 * 1000 if False else None}
for s, v in hard.items():
    if v is None:
        continue
    got = C._get_distance(s)
    check(type(got) is float and got == v, 'hard %r -> %r' % (s, got))
# int / float typed result depends on unit factor: 'm' keeps float
check(type(C._get_distance('3')) is float, 'type of metres result')
check(type(C._get_distance('3km')) is float, 'type of km result')
for bad in (None, 5, 5.0, b'5'):
    got = outcome(C._get_distance, bad)
    exp = outcome(ref_get_distance, bad)
    check(got[:2] == exp[:2], 'non-str %r: %r vs %r' % (bad, got, exp))

# ------------------------------------------------- circle / annulus kernels
radii = [1, 2, 3, 4.5, 7, 0.4, '3', '3m', '30 ft', '0.01km', '0.002 miles',
         '10 Feet', 12, 2.999999, '1e1', 0, -1, '0m', '-3km', 'x', '3 yards',
         '1 2 3', 3.0000001, np.float32(2.5), np.int64(4), True]
cells = [(1, 1), (1, 2), (2, 1), (0.5, 0.5), (0.3, 0.7), (1.5, 1), (10, 10),
         (3, 0.25), (np.float32(0.5), np.float64(1.5)), (1, -1), (-1, 1)]
for cx, cy in cells:
    for r in radii:
        try:
            got = C.circle_kernel(cx, cy, r)
            gexc = None
        except Exception as e:  # noqa
            got, gexc = None, (type(e).__name__, str(e))
        try:
            exp = ref_circle(cx, cy, r)
            eexc = None
        except Exception as e:  # noqa
            exp, eexc = None, (type(e).__name__,)
        if gexc or eexc:
            check(gexc is not None and eexc is not None
                  and gexc[0] == eexc[0],
                  'circle exc mismatch %r %r %r: %r / %r'
                  % (cx, cy, r, gexc, eexc))
            continue
        check(same_array(got, exp), 'circle_kernel(%r,%r,%r)' % (cx, cy, r))
        check(got.shape[0] % 2 == 1 and got.shape[1] % 2 == 1, 'odd shape')
        check(np.array_equal(got, got[::-1]) and
              np.array_equal(got, got[:, ::-1]), 'flip symmetry')

for cx, cy in cells[:9]:
    for ro in [3, 5, '5', '20ft', '0.01 km', 7.5, '12m']:
        for ri in [1, 2, '2m', '5 ft', 0.5, 3, '3', 6, 0, 'bad']:
            try:
                got = C.annulus_kernel(cx, cy, ro, ri)
                gexc = None
            except Exception as e:  # noqa
                got, gexc = None, type(e).__name__
            try:
                ko = ref_circle(cx, cy, ro)
                ki = ref_circle(cx, cy, ri)
                dh = ko.shape[0] - ki.shape[0]
                dw = ko.shape[1] - ki.shape[1]
                if dh < 0 or dw < 0:
                    raise ValueError('negative pad')
                pad = np.zeros_like(ko)
                pad[dh // 2: dh // 2 + ki.shape[0],
                    dw // 2: dw // 2 + ki.shape[1]] = ki
                exp = ko - pad
                eexc = None
            except Exception as e:  # noqa
                exp, eexc = None, type(e).__name__
            if gexc or eexc:
                check(gexc == eexc, 'annulus exc %r %r %r %r: %r / %r'
                      % (cx, cy, ro, ri, gexc, eexc))
                continue
            check(same_array(got, exp),
                  'annulus_kernel(%r,%r,%r,%r)' % (cx, cy, ro, ri))
            check(got.min() >= 0, 'annulus never negative')

# recorded example from the docstring
k = C.circle_kernel(1, 1, 3)
check(k.tolist() == [[0, 0, 0, 1, 0, 0, 0], [0, 1, 1, 1, 1, 1, 0],
                     [0, 1, 1, 1, 1, 1, 0], [1, 1, 1, 1, 1, 1, 1],
                     [0, 1, 1, 1, 1, 1, 0], [0, 1, 1, 1, 1, 1, 0],
                     [0, 0, 0, 1, 0, 0, 0]], 'docstring circle')
k = C.annulus_kernel(1, 2, 5, 2)
check(k.tolist() == [[0, 0, 0, 0, 0, 1, 0, 0, 0, 0, 0],
                     [0, 1, 1, 1, 1, 0, 1, 1, 1, 1, 0],
                     [1, 1, 1, 0, 0, 0, 0, 0, 1, 1, 1],
                     [0, 1, 1, 1, 1, 0, 1, 1, 1, 1, 0],
                     [0, 0, 0, 0, 0, 1, 0, 0, 0, 0, 0]], 'docstring annulus')

# ------------------------------------------------------------ calc_cellsize
try:
    import dask.array as da
except ImportError:  # pragma: no cover
    da = None


def rasters():
    for dt in (np.float64, np.float32, np.int32, np.uint8):
        for (h, w) in ((4, 5), (3, 7), (2, 2)):
            data = np.arange(h * w).reshape(h, w).astype(dt)
            for backend in ('numpy', 'dask'):
                if backend == 'dask':
                    if da is None:
                        continue
                    d = da.from_array(data, chunks=(2, 3))
                else:
                    d = data
                yield d, h, w


def expected_cellsize(sx, sy, unit):
    f = R_UNITS[unit]
    return (sx * f, np.abs(sy * f))


for d, h, w in rasters():
    for attrs_unit in (None, 'm', 'meter', 'meters', 'km', 'kilometer', 'ft',
                       'foot', 'feet', 'miles', 'ml', 'mls', 'kilometers'):
        for step_x, step_y in ((1.0, 1.0), (0.5, -2.0), (30.0, -30.0),
                               (0.1, 0.3)):
            attrs = {} if attrs_unit is None else {'unit': attrs_unit}
            attrs['other'] = 'x'
            r = xr.DataArray(d, dims=['y', 'x'], attrs=dict(attrs))
            r['y'] = 100.0 + step_y * np.arange(h)
            r['x'] = -50.0 + step_x * np.arange(w)
            got = C.calc_cellsize(r)
            from xrspatial.utils import get_dataarray_resolution
            gx, gy = get_dataarray_resolution(r)
            exp = expected_cellsize(gx, gy, attrs_unit or 'meter')
            check(isinstance(got, tuple) and len(got) == 2, 'tuple result')
            check(got[0] == exp[0] and got[1] == exp[1]
                  and type(got[0]) is type(exp[0])
                  and type(got[1]) is type(exp[1]),
                  'calc_cellsize unit=%r steps=%r: %r vs %r'
                  % (attrs_unit, (step_x, step_y), got, exp))
            check(r.attrs == attrs, 'attrs untouched')
    # res attribute takes precedence, unit still applied
    r = xr.DataArray(d, attrs={'res': (0.5, 0.25), 'unit': 'km'})
    check(C.calc_cellsize(r) == (500.0, 250.0), 'res+unit')
    r = xr.DataArray(d, attrs={'res': (0.5, 0.25)})
    check(C.calc_cellsize(r) == (0.5, 0.25), 'res, default unit')

# bad unit attribute -> KeyError in both
for badunit in ('yard', 'KM', None, 3):
    r = xr.DataArray(np.ones((3, 3)), attrs={'res': (1, 1), 'unit': badunit})
    got = outcome(C.calc_cellsize, r)
    check(got[0] == 'exc' and got[1] == 'KeyError',
          'bad unit %r -> %r' % (badunit, got))

if FAILS:
    print('FAILURES (%d):' % len(FAILS))
    for f in FAILS[:40]:
        print('  ', f)
    sys.exit(1)
print('equiv TC19-t22 OK  [%s]' % xrspatial.__file__)
sys.exit(0)
