"""Differential test for C06 (proximity / allocation / direction).

Runs the three public functions on a deterministic family of rasters
(several dtypes, NaN/inf cells, odd shapes, ascending / descending /
non-square / lat-lon coordinates, all metrics, int / float / float32 / None
max_distance, numpy and dask backends) and compares

  (a) a sha256 digest of every result (dtype + shape + raw bytes) against
      digests recorded from the UNMODIFIED tree (EXPECTED below), and
  (b) single-target proximity against an independent brute-force computation.

Exit status 0 iff everything is identical.
Usage:  python equiv.py            (check)
        python equiv.py --record   (print the digest table)
"""
import hashlib
import sys

import dask.array as da
import numpy as np
import xarray as xr

import xrspatial
from xrspatial import allocation, direction, proximity

FUNCS = (("prox", proximity), ("alloc", allocation), ("dir", direction))


def digest(a):
    a = np.ascontiguousarray(np.asarray(a))
    h = hashlib.sha256()
    h.update(str(a.dtype).encode())
    h.update(str(a.shape).encode())
    h.update(a.tobytes())
    return h.hexdigest()[:16]


def make(data, ys, xs, chunks=None, attrs=None):
    if chunks is not None:
        data = da.from_array(data, chunks=chunks)
    return xr.DataArray(data, dims=["y", "x"], coords={"y": ys, "x": xs},
                        attrs=attrs or {"res": 1})


def cases():
    rng = np.random.default_rng(20240606)
    out = []

    def add(name, data, ys, xs, kw, chunks=None, every=False):
        # every=True: run all three functions; otherwise rotate one per case
        # (each call re-JITs the kernel, so the budget is ~100 calls)
        fns = FUNCS if every else (FUNCS[len(out) % 3],)
        out.append((name, data, np.asarray(ys), np.asarray(xs), kw, chunks,
                    fns))

    # 1. dtypes x default targets, descending y, unit cells, odd shape
    base = (rng.random((7, 9)) < 0.12) * rng.integers(1, 6, (7, 9))
    for dt in (np.float64, np.float32, np.int64, np.int32, np.uint8):
        add("dtype-%s" % np.dtype(dt).name, base.astype(dt),
            np.arange(7)[::-1], np.arange(9), {}, every=(dt != np.int32))
    # 2. NaN / inf cells are not targets; float coords, non-square cells
    f = base.astype(np.float64)
    f[0, 0] = np.nan
    f[3, 4] = np.inf
    f[6, 8] = -np.inf
    f[5, 1] = -2.5
    ysf = np.linspace(10.0, 1.0, 7)
    xsf = np.linspace(-3.0, 9.0, 9)
    for metric in ("EUCLIDEAN", "MANHATTAN", "GREAT_CIRCLE"):
        add("nan-%s" % metric, f, ysf, xsf, {"distance_metric": metric},
            every=True)
        for md in (2, 3.7, np.float32(4.5), 0.0, None):
            if metric == "GREAT_CIRCLE" and md is not None and md < 1e6:
                md_ = md * 111000
            else:
                md_ = md
            add("nan-%s-md%r" % (metric, md), f, ysf, xsf,
                {"distance_metric": metric, "max_distance": md_})
    # 3. explicit target_values (incl. 0 and a value that is absent)
    g = rng.integers(0, 5, (6, 5)).astype(np.float64)
    for tv in ([0], [1, 4], [2, 2, 0]):
        add("tv-%r" % tv, g, np.arange(6), np.arange(5)[::-1] * 2.0,
            {"target_values": tv})
        add("tv-%r-md" % tv, g, np.arange(6), np.arange(5)[::-1] * 2.0,
            {"target_values": tv, "max_distance": 2.5,
             "distance_metric": "MANHATTAN"})
    # 4. degenerate shapes, no target, all targets
    add("row", np.array([[0, 0, 3, 0, 0, 0, 1.0]]), [5.0], np.arange(7), {})
    add("col", np.array([[0], [0], [3], [0], [0.0]]), np.arange(5), [2.0], {})
    add("one", np.array([[4.0]]), [0.0], [0.0], {})
    add("none", np.zeros((4, 3)), np.arange(4), np.arange(3), {})
    add("all", np.ones((3, 4)), np.arange(3)[::-1], np.arange(4), {})
    add("nomatch", np.ones((3, 4)), np.arange(3), np.arange(4),
        {"target_values": [7]})
    # 5. bigger random rasters, several densities, ties galore
    for k, p in enumerate((0.01, 0.05, 0.3)):
        h = (rng.random((23, 17)) < p) * rng.integers(1, 9, (23, 17))
        h = h.astype(np.float64)
        add("big%d" % k, h, np.arange(23)[::-1] * 0.5, np.arange(17) * 2.0,
            {}, every=True)
        add("big%d-md" % k, h, np.arange(23)[::-1] * 0.5,
            np.arange(17) * 2.0, {"max_distance": 4.0})
        add("big%d-man" % k, h, np.arange(23)[::-1] * 0.5,
            np.arange(17) * 2.0, {"distance_metric": "MANHATTAN",
                                  "max_distance": 5})
    # 6. dask: unbounded (rechunk path) and bounded (halo path)
    h = (rng.random((20, 24)) < 0.04) * rng.integers(1, 9, (20, 24))
    h = h.astype(np.float64)
    h[7, 7] = np.nan
    ysd, xsd = np.arange(20)[::-1] * 1.0, np.arange(24) * 1.0
    for chunks in ((5, 6), (7, 24), (3, 4)):
        for kw in ({}, {"max_distance": 3.0},
                   {"max_distance": 2, "distance_metric": "MANHATTAN"}):
            add("dask-%r-%r" % (chunks, sorted(kw.items())), h, ysd, xsd, kw,
                chunks, every=(chunks == (5, 6)))
    hi = h.copy()
    hi[np.isnan(hi)] = 0
    add("dask-f32", hi.astype(np.float32), ysd, xsd, {"max_distance": 3.0},
        (6, 7))
    add("dask-gc", h, np.linspace(40, 38, 20), np.linspace(-100, -97, 24),
        {"distance_metric": "GREAT_CIRCLE"}, (8, 8))
    return out


def brute_single(ys, xs, ty, tx, metric):
    yy, xx = np.meshgrid(ys.astype(float), xs.astype(float), indexing="ij")
    dy, dx = yy - ys[ty], xx - xs[tx]
    if metric == "MANHATTAN":
        d = np.abs(dx) + np.abs(dy)
    else:
        d = np.sqrt(dx * dx + dy * dy)
    return d.astype(np.float32)


def main():
    record = "--record" in sys.argv
    print("xrspatial from", xrspatial.__file__)
    got = {}
    bad = []
    for name, data, ys, xs, kw, chunks, fns in cases():
        for fname, fn in fns:
            r = make(data.copy(), ys, xs, chunks)
            res = fn(r, **kw)
            ok_type = isinstance(res.data, da.Array) == (chunks is not None)
            arr = res.values
            key = "%s|%s" % (name, fname)
            got[key] = digest(arr)
            if not ok_type:
                bad.append((key, "backend type"))
            if res.dims != r.dims or res.attrs != r.attrs or \
                    list(res.coords) != list(r.coords):
                bad.append((key, "metadata"))
    # independent check: single target == brute force, all three outputs
    rng = np.random.default_rng(5)
    for shape in ((1, 1), (4, 7)):
        for metric in ("EUCLIDEAN", "MANHATTAN"):
            ty, tx = rng.integers(0, shape[0]), rng.integers(0, shape[1])
            d = np.zeros(shape)
            d[ty, tx] = 7.0
            ys = np.arange(shape[0])[::-1] * 1.5
            xs = np.arange(shape[1]) * 0.5
            for chunks in (None, (2, 2)):
                r = make(d, ys, xs, chunks)
                p = proximity(r, distance_metric=metric).values
                a = allocation(r, distance_metric=metric).values
                exp = brute_single(ys, xs, ty, tx, metric)
                if p.dtype != np.float32 or not np.array_equal(p, exp):
                    bad.append(("single-%r-%s" % (shape, metric), "brute"))
                if not np.all(a == 7.0):
                    bad.append(("single-%r-%s" % (shape, metric), "alloc"))
    if record:
        print("EXPECTED = {")
        for k in got:
            print("    %r: %r," % (k, got[k]))
        print("}")
        return 0
    for k, v in got.items():
        if EXPECTED.get(k) != v:
            bad.append((k, "digest %s != %s" % (v, EXPECTED.get(k))))
    if set(EXPECTED) != set(got):
        bad.append(("keys", "case set differs"))
    for b in bad:
        print("MISMATCH", b)
    print("%d results checked, %d mismatches" % (len(got), len(bad)))
    return 1 if bad else 0


# digests recorded from the unmodified tree
EXPECTED = {
    'dtype-float64|prox': 'c44316fc63b1f70f',
    'dtype-float64|alloc': '4b99e6a799f18ef6',
    'dtype-float64|dir': 'e65b95681196b70c',
    'dtype-float32|prox': 'c44316fc63b1f70f',
    'dtype-float32|alloc': '4b99e6a799f18ef6',
    'dtype-float32|dir': 'e65b95681196b70c',
    'dtype-int64|prox': 'c44316fc63b1f70f',
    'dtype-int64|alloc': '4b99e6a799f18ef6',
    'dtype-int64|dir': 'e65b95681196b70c',
    'dtype-int32|prox': 'c44316fc63b1f70f',
    'dtype-uint8|prox': 'c44316fc63b1f70f',
    'dtype-uint8|alloc': '4b99e6a799f18ef6',
    'dtype-uint8|dir': 'e65b95681196b70c',
    'nan-EUCLIDEAN|prox': '821b5ff62f7cb402',
    'nan-EUCLIDEAN|alloc': '974499818ece4511',
    'nan-EUCLIDEAN|dir': '9ae85652d1ad867d',
    'nan-EUCLIDEAN-md2|prox': '7b78395559ce2dd5',
    'nan-EUCLIDEAN-md3.7|alloc': '13f03aa56f6ead07',
    'nan-EUCLIDEAN-mdnp.float32(4.5)|dir': '083f1c9c52166ca0',
    'nan-EUCLIDEAN-md0.0|prox': 'd656dffc60b6d440',
    'nan-EUCLIDEAN-mdNone|alloc': '974499818ece4511',
    'nan-MANHATTAN|prox': 'b7f75fae3b4d9b11',
    'nan-MANHATTAN|alloc': 'bcdd945394983ebc',
    'nan-MANHATTAN|dir': '5aa7e6f8b4119ae2',
    'nan-MANHATTAN-md2|prox': '7b78395559ce2dd5',
    'nan-MANHATTAN-md3.7|alloc': '7411aee9ce955061',
    'nan-MANHATTAN-mdnp.float32(4.5)|dir': '264022c2db1e2afd',
    'nan-MANHATTAN-md0.0|prox': 'd656dffc60b6d440',
    'nan-MANHATTAN-mdNone|alloc': 'bcdd945394983ebc',
    'nan-GREAT_CIRCLE|prox': 'b0dfe660e1e14654',
    'nan-GREAT_CIRCLE|alloc': 'dae91860d6146dc3',
    'nan-GREAT_CIRCLE|dir': '287345e3f020b708',
    'nan-GREAT_CIRCLE-md2|prox': 'cc0866f6ec81d014',
    'nan-GREAT_CIRCLE-md3.7|alloc': '6014a2e399f21887',
    'nan-GREAT_CIRCLE-mdnp.float32(4.5)|dir': '6bcc137980366a7c',
    'nan-GREAT_CIRCLE-md0.0|prox': 'd656dffc60b6d440',
    'nan-GREAT_CIRCLE-mdNone|alloc': 'dae91860d6146dc3',
    'tv-[0]|dir': 'b165339568cd1b37',
    'tv-[0]-md|prox': '597ebd29d3da4ea7',
    'tv-[1, 4]|alloc': '938a7ff43f4c0284',
    'tv-[1, 4]-md|dir': '4082904c1a88b859',
    'tv-[2, 2, 0]|prox': 'be42a663dc2190fe',
    'tv-[2, 2, 0]-md|alloc': 'e6c8e13edbd359a5',
    'row|dir': 'bf7fa0bc9388428e',
    'col|prox': 'fc891c1bc729fc94',
    'one|alloc': 'cf7823b3318a381d',
    'none|dir': 'd284f1c3e171d1f3',
    'all|prox': 'fd04be91b2b25054',
    'nomatch|alloc': 'b627778b404e96c4',
    'big0|prox': 'e864d6c742e8541d',
    'big0|alloc': '236b8865cd3d9e83',
    'big0|dir': '4f022fabb59f762d',
    'big0-md|prox': '14bd7795f237bf2c',
    'big0-man|alloc': '91dbe567c74b26d0',
    'big1|prox': '1b0e3c12602fa61e',
    'big1|alloc': '8fed003fc63e9790',
    'big1|dir': '90079685dfc58c74',
    'big1-md|prox': '0470e26cdc8ec3f7',
    'big1-man|alloc': 'bf82093cbade9d50',
    'big2|prox': '1a958429234f482a',
    'big2|alloc': 'd72004df312a8e08',
    'big2|dir': '75d785b89caea7b2',
    'big2-md|prox': '1a958429234f482a',
    'big2-man|alloc': '25f7839522ce0c47',
    'dask-(5, 6)-[]|prox': '3ae0340205be856f',
    'dask-(5, 6)-[]|alloc': '5164df8d4a8eb8c1',
    'dask-(5, 6)-[]|dir': '7cbcc3a0ecaf9759',
    "dask-(5, 6)-[('max_distance', 3.0)]|prox": '057f7357b9e9e365',
    "dask-(5, 6)-[('max_distance', 3.0)]|alloc": 'bbbd6f0aba0b6723',
    "dask-(5, 6)-[('max_distance', 3.0)]|dir": '2842525509cc404a',
    "dask-(5, 6)-[('distance_metric', 'MANHATTAN'), ('max_distance', 2)]|prox": 'd679e1c8663065e6',
    "dask-(5, 6)-[('distance_metric', 'MANHATTAN'), ('max_distance', 2)]|alloc": 'd491a6fff549faf9',
    "dask-(5, 6)-[('distance_metric', 'MANHATTAN'), ('max_distance', 2)]|dir": 'a0669ea24a82b884',
    'dask-(7, 24)-[]|dir': '7cbcc3a0ecaf9759',
    "dask-(7, 24)-[('max_distance', 3.0)]|prox": '057f7357b9e9e365',
    "dask-(7, 24)-[('distance_metric', 'MANHATTAN'), ('max_distance', 2)]|alloc": 'd491a6fff549faf9',
    'dask-(3, 4)-[]|dir': '7cbcc3a0ecaf9759',
    "dask-(3, 4)-[('max_distance', 3.0)]|prox": '057f7357b9e9e365',
    "dask-(3, 4)-[('distance_metric', 'MANHATTAN'), ('max_distance', 2)]|alloc": 'd491a6fff549faf9',
    'dask-f32|dir': '2842525509cc404a',
    'dask-gc|prox': '34b7e244dee734c9',
}

if __name__ == "__main__":
    sys.exit(main())
