"""Differential test for generate_terrain (numpy + dask) and perlin.

Usage (from inside the worktree):
    PYTHONPATH=<worktree> python equiv.py            # check, exit 0 if identical
    PYTHONPATH=<worktree> python equiv.py --record   # print digests of this tree

Checks
  1. bit-exact digests of results (values, dtype, shape) AND of the global numpy
     RNG state left behind by each call, recorded from the UNMODIFIED tree;
  2. independent properties: repeating a call, interleaving other seeds / other
     library calls / other uses of np.random before it never changes the result;
     dask result is lazy and equals a single-chunk dask run; the output is
     min-max normalised, has water (0) below 0.3 and scales with zfactor.
"""
import hashlib
import sys
import warnings

import dask
import dask.array as da
import numpy as np
import xarray as xr

import xrspatial
from xrspatial import generate_terrain, perlin

warnings.filterwarnings('ignore')


def digest(a):
    a = np.asarray(a)
    h = hashlib.sha256()
    h.update(str(a.dtype).encode())
    h.update(str(a.shape).encode())
    h.update(np.ascontiguousarray(a).tobytes())
    return h.hexdigest()[:20]


def rng_digest():
    st = np.random.get_state()
    h = hashlib.sha256()
    h.update(st[1].tobytes())
    h.update(repr(st[2:]).encode())
    return h.hexdigest()[:12]


def template(shape, dtype, chunks=None):
    data = np.zeros(shape, dtype=dtype)
    if chunks is not None:
        data = da.from_array(data, chunks=chunks)
    return xr.DataArray(data, dims=['y', 'x'])


NP_CASES = [
    # name, shape, dtype, kwargs
    ('default', (9, 7), np.float32, {}),
    ('f64', (9, 7), np.float64, {}),
    ('i32', (9, 7), np.int32, {}),
    ('u8', (5, 11), np.uint8, dict(seed=3)),
    ('seed0', (6, 6), np.float32, dict(seed=0)),
    ('seed11', (6, 6), np.float32, dict(seed=11)),
    ('seed10', (6, 6), np.float32, dict(seed=10)),
    ('range', (8, 5), np.float64, dict(x_range=(-20, 20), y_range=(100, 130), seed=2)),
    ('extent', (8, 5), np.float32,
     dict(x_range=(0, 50), y_range=(10, 60), full_extent=(-100, -100, 100, 100), seed=7)),
    ('extent_list', (4, 13), np.float64,
     dict(x_range=(5, 6), y_range=(5, 7), full_extent=[0, 0, 10, 10], zfactor=1)),
    ('zf', (7, 7), np.float32, dict(zfactor=250, seed=42)),
    ('zfneg', (7, 7), np.float64, dict(zfactor=-3, seed=42)),
    ('row', (2, 9), np.float32, dict(seed=1)),
    ('col', (9, 2), np.float32, dict(seed=1)),
    ('big', (40, 33), np.float32, dict(seed=5)),
]
DA_CASES = [
    ('default', (9, 7), np.float32, (4, 3), {}),
    ('i32', (9, 7), np.int32, (9, 7), {}),
    ('f64s11', (9, 7), np.float64, (2, 7), dict(seed=11)),
    ('extent', (8, 5), np.float32, (3, 2),
     dict(x_range=(0, 50), y_range=(10, 60), full_extent=(-100, -100, 100, 100), seed=7)),
    ('zf', (7, 7), np.float32, (5, 5), dict(zfactor=250, seed=42)),
    ('row', (2, 9), np.float32, (1, 4), dict(seed=1)),
]


def run():
    got = {}
    bad = []

    # numpy, in order
    first = {}
    for name, shape, dtype, kw in NP_CASES:
        agg = template(shape, dtype)
        np.random.seed(999)            # known global state before the call
        r = generate_terrain(agg, **kw)
        key = 'np/' + name
        got[key] = digest(r.data)
        got[key + '/rng'] = rng_digest()
        got[key + '/coords'] = digest(r['x'].data) + digest(r['y'].data)
        first[name] = r.data.copy()
        if (agg.data != 0).any():
            bad.append(key + ': template modified')
        if r.name != 'terrain' or 'res' not in r.attrs:
            bad.append(key + ': name/attrs')
        d = r.data
        zf = kw.get('zfactor', 4000)
        if d.size > 1:
            unit = d / zf
            if not (np.nanmax(unit) == 1.0 and np.nanmin(unit) == 0.0):
                bad.append(key + ': not normalised')
            if ((unit > 0) & (unit < 0.3)).any():
                bad.append(key + ': water missing')

    # reverse order, with unrelated library / RNG activity in between
    for name, shape, dtype, kw in reversed(NP_CASES):
        np.random.rand(17)
        perlin(template((3, 4), np.float32), seed=name.__len__())
        r = generate_terrain(template(shape, dtype), **kw)
        if digest(r.data) != got['np/' + name]:
            bad.append('np/%s: result depends on earlier calls' % name)
        r = generate_terrain(template(shape, dtype), **kw)
        if digest(r.data) != got['np/' + name]:
            bad.append('np/%s: repeat differs' % name)

    # same seed, shape and extent -> same terrain whatever the template holds
    t = template((9, 7), np.float32)
    t.data[:] = 123.0
    if digest(generate_terrain(t).data) != got['np/default']:
        bad.append('np/default: depends on template values')

    # dask
    for name, shape, dtype, chunks, kw in DA_CASES:
        key = 'da/' + name
        np.random.seed(999)
        lazy = generate_terrain(template(shape, dtype, chunks), **kw)
        got[key + '/rng'] = rng_digest()
        if not isinstance(lazy.data, da.Array):
            bad.append(key + ': not lazy')
        got[key + '/meta'] = '%s %s' % (lazy.data.dtype, lazy.data.chunks)
        with dask.config.set(scheduler='threads', num_workers=4):
            r4 = lazy.data.compute()
        with dask.config.set(scheduler='synchronous'):
            r1 = lazy.data.compute()
        got[key] = digest(r4)
        if digest(r1) != digest(r4):
            bad.append(key + ': depends on number of workers')
        one = generate_terrain(template(shape, dtype, shape), **kw).data.compute()
        if not np.allclose(one, r4, rtol=1e-5, atol=1e-3, equal_nan=True):
            bad.append(key + ': depends on chunking')
        if name in first and first[name].dtype == r4.dtype:
            if not np.allclose(first[name], r4, rtol=1e-4, atol=1e-2, equal_nan=True):
                bad.append(key + ': differs from numpy backend')

    # perlin (shares _perlin with the terrain layers)
    for seed in (0, 5, 6):
        for freq in ((1, 1), (3, 2)):
            for dtype in (np.float32, np.int16):
                key = 'perlin/%d/%s/%s' % (seed, freq, np.dtype(dtype).name)
                got[key] = digest(perlin(template((6, 5), dtype), freq=freq, seed=seed).data)
                got[key + '/da'] = digest(
                    perlin(template((6, 5), dtype, (4, 2)), freq=freq, seed=seed).data.compute())
    return got, bad


# recorded from the unmodified tree with --record
EXPECTED = {'da/default': 'db966bfba8bcce748976',
 'da/default/meta': 'float32 ((4, 4, 1), (3, 3, 1))',
 'da/default/rng': '7877bafb4d70',
 'da/extent': 'cc8d64b8d08f556eaaca',
 'da/extent/meta': 'float32 ((3, 3, 2), (2, 2, 1))',
 'da/extent/rng': 'e6ef2d8ac112',
 'da/f64s11': 'd2c8cdbdce1d59f95abd',
 'da/f64s11/meta': 'float64 ((2, 2, 2, 2, 1), (7,))',
 'da/f64s11/rng': '1369f09a1c79',
 'da/i32': 'e4e0ff0964aba226b16c',
 'da/i32/meta': 'float64 ((9,), (7,))',
 'da/i32/rng': '7877bafb4d70',
 'da/row': '5087929ca52d5c060ff0',
 'da/row/meta': 'float32 ((1, 1), (4, 4, 1))',
 'da/row/rng': 'ca30a2f836fc',
 'da/zf': 'f35ef4f4d019e41a96cc',
 'da/zf/meta': 'float32 ((5, 2), (5, 2))',
 'da/zf/rng': 'b22304d7f4bc',
 'np/big': '97d394fc54bb894ecb55',
 'np/big/coords': '8e9d3de9483e8f720cd1a2f1c2fbc35b41567768',
 'np/big/rng': 'b855e776c0f5',
 'np/col': 'ba3086710b7c8e3996c3',
 'np/col/coords': '7101b834e1fd746dc2e8cac8689a550d37fe12a3',
 'np/col/rng': 'ca30a2f836fc',
 'np/default': 'c37f27c5333688334beb',
 'np/default/coords': '38288f793c575b159161cac8689a550d37fe12a3',
 'np/default/rng': '7877bafb4d70',
 'np/extent': '75cdc077522173b9ad39',
 'np/extent/coords': '1c160f3bf9d937aa781a7fb0656aeb419d75a0ed',
 'np/extent/rng': 'e6ef2d8ac112',
 'np/extent_list': '6f3416ca3cf6f0250770',
 'np/extent_list/coords': '94850679f939ab659045c2501ceaf8807c92096e',
 'np/extent_list/rng': '7877bafb4d70',
 'np/f64': 'e4e0ff0964aba226b16c',
 'np/f64/coords': '38288f793c575b159161cac8689a550d37fe12a3',
 'np/f64/rng': '7877bafb4d70',
 'np/i32': 'e4e0ff0964aba226b16c',
 'np/i32/coords': '38288f793c575b159161cac8689a550d37fe12a3',
 'np/i32/rng': '7877bafb4d70',
 'np/range': '9543d7b6e5fee1324ada',
 'np/range/coords': '9f10f22a942e38c51fae53e6a97e0aed06b9af34',
 'np/range/rng': '35457c365472',
 'np/row': '5e0d76a33ec3ea39fcfd',
 'np/row/coords': 'cac8689a550d37fe12a37101b834e1fd746dc2e8',
 'np/row/rng': 'ca30a2f836fc',
 'np/seed0': '24083b69cba8780a6eed',
 'np/seed0/coords': '5ac5a471a15afb7815a45ac5a471a15afb7815a4',
 'np/seed0/rng': 'b7f4abad7b8b',
 'np/seed10': 'e82ecd6282fdfcfebf96',
 'np/seed10/coords': '5ac5a471a15afb7815a45ac5a471a15afb7815a4',
 'np/seed10/rng': '7877bafb4d70',
 'np/seed11': 'dc4d3fde71645d3502bc',
 'np/seed11/coords': '5ac5a471a15afb7815a45ac5a471a15afb7815a4',
 'np/seed11/rng': '1369f09a1c79',
 'np/u8': '343935690d059d6b84d0',
 'np/u8/coords': '64e9d27ad106de983b297158b6316df909f5425b',
 'np/u8/rng': 'd0794d4fdd4c',
 'np/zf': 'd6178fe99f647715230f',
 'np/zf/coords': '38288f793c575b15916138288f793c575b159161',
 'np/zf/rng': 'b22304d7f4bc',
 'np/zfneg': 'fc7f76530dbc67a64d9b',
 'np/zfneg/coords': '38288f793c575b15916138288f793c575b159161',
 'np/zfneg/rng': 'b22304d7f4bc',
 'perlin/0/(1, 1)/float32': 'a8ab5a65dce2b8c6cf91',
 'perlin/0/(1, 1)/float32/da': '66e7a55fc5d964b0c5c6',
 'perlin/0/(1, 1)/int16': 'a8ab5a65dce2b8c6cf91',
 'perlin/0/(1, 1)/int16/da': '66e7a55fc5d964b0c5c6',
 'perlin/0/(3, 2)/float32': '03f87b1d0739d0e42503',
 'perlin/0/(3, 2)/float32/da': '03eeb6abd4da08784d3e',
 'perlin/0/(3, 2)/int16': '03f87b1d0739d0e42503',
 'perlin/0/(3, 2)/int16/da': '03eeb6abd4da08784d3e',
 'perlin/5/(1, 1)/float32': 'ccc02733b58fbdcd622d',
 'perlin/5/(1, 1)/float32/da': 'ea2da47cfd8f7474b457',
 'perlin/5/(1, 1)/int16': 'ccc02733b58fbdcd622d',
 'perlin/5/(1, 1)/int16/da': 'ea2da47cfd8f7474b457',
 'perlin/5/(3, 2)/float32': '84cbaa7ed71c2c75cff1',
 'perlin/5/(3, 2)/float32/da': '85f60b201c5b8bcee138',
 'perlin/5/(3, 2)/int16': '84cbaa7ed71c2c75cff1',
 'perlin/5/(3, 2)/int16/da': '85f60b201c5b8bcee138',
 'perlin/6/(1, 1)/float32': '02d1c218bd470792ffae',
 'perlin/6/(1, 1)/float32/da': 'fdfcafef732ead8bf496',
 'perlin/6/(1, 1)/int16': '02d1c218bd470792ffae',
 'perlin/6/(1, 1)/int16/da': 'fdfcafef732ead8bf496',
 'perlin/6/(3, 2)/float32': 'a1f322c00210f5b7dfd3',
 'perlin/6/(3, 2)/float32/da': '22ec9bf9a54025683770',
 'perlin/6/(3, 2)/int16': 'a1f322c00210f5b7dfd3',
 'perlin/6/(3, 2)/int16/da': '22ec9bf9a54025683770'}


def main():
    got, bad = run()
    if '--record' in sys.argv:
        import pprint
        pprint.pprint(got)
        print('independent problems:', bad, file=sys.stderr)
        return 0 if not bad else 2
    for k, v in EXPECTED.items():
        if got.get(k) != v:
            bad.append('%s: %s != recorded %s' % (k, got.get(k), v))
    if set(got) != set(EXPECTED):
        bad.append('case set differs')
    print('xrspatial from', xrspatial.__file__)
    print('%d recorded values' % len(got))
    if bad:
        print('\n'.join(bad[:40]))
        print('FAILED: %d problems' % len(bad))
        return 1
    print('OK')
    return 0


if __name__ == '__main__':
    sys.exit(main())
