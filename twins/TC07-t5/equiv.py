"""Differential test for refactorings of xrspatial/proximity.py (property C07).

Runs proximity / allocation / direction on numpy and dask rasters (several
dtypes, NaN/inf cells, odd shapes, several chunkings, schedulers, metrics,
max_distance values) and compares a digest of every result (dtype, shape, raw
bytes, result container type, chunks of the input raster after the call,
exception type if the call raises) with digests recorded from the UNMODIFIED
tree.  Additionally checks dask == numpy for cases inside the C07 domain.

usage: python equiv.py            -> compare, exit 0 iff identical
       python equiv.py --record   -> print the EXPECTED dict (unmodified tree)
"""
import hashlib
import sys
import warnings

import dask
import dask.array as da
import numpy as np
import xarray as xr

warnings.filterwarnings("ignore")

import xrspatial  # noqa: E402
from xrspatial import allocation, direction, proximity  # noqa: E402
import xrspatial.proximity  # noqa: E402,F401

pmod = sys.modules["xrspatial.proximity"]  # the name is shadowed by the fn

FUNCS = {"prox": proximity, "alloc": allocation, "dir": direction}

# digests recorded from the unmodified tree (python equiv.py --record)
EXPECTED = {'np/0/prox/mdinf': '314fc7641dca16044b87|6974b5c7fb02',
 'np/0/prox/md2.0': 'dc73fd809ff67ab15d8a|6974b5c7fb02',
 'np/0/alloc/mdinf': 'fdc40976ffb81fee237a|6974b5c7fb02',
 'np/0/alloc/md2.0': 'bc3490ba7c953498cb5f|6974b5c7fb02',
 'np/0/dir/mdinf': 'a680ec5aceb8143e562f|6974b5c7fb02',
 'np/0/dir/md2.0': '13aa18b1d103c3a8a113|6974b5c7fb02',
 'np/1/prox/mdinf': 'a6377162281d5ec09e0d|6d9ff72fec8b',
 'np/1/prox/md2.0': '22bc503fd0f7e67a9b29|6d9ff72fec8b',
 'np/1/alloc/mdinf': 'be23332b58f6b697e78f|6d9ff72fec8b',
 'np/1/alloc/md2.0': 'f12587d346c91ceefdd5|6d9ff72fec8b',
 'np/1/dir/mdinf': '8b87dd0b66a5573601a5|6d9ff72fec8b',
 'np/1/dir/md2.0': '63869e5275796d2d7a40|6d9ff72fec8b',
 'np/2/prox/mdinf': 'e78eb859267a190297a2|c5a4b54cea86',
 'np/2/prox/md2.0': 'e78eb859267a190297a2|c5a4b54cea86',
 'np/2/alloc/mdinf': '72c83570c5b27cb12764|c5a4b54cea86',
 'np/2/alloc/md2.0': '72c83570c5b27cb12764|c5a4b54cea86',
 'np/2/dir/mdinf': '3c51d7d620f8d3c49807|c5a4b54cea86',
 'np/2/dir/md2.0': '3c51d7d620f8d3c49807|c5a4b54cea86',
 'np/3/prox/mdinf': 'c2b8cc4445c6372fe1d1|72b230244c58',
 'np/3/prox/md2.0': '6109fd2051dbea4e2213|72b230244c58',
 'np/3/alloc/mdinf': '18eae37c4920ac6a5b19|72b230244c58',
 'np/3/alloc/md2.0': 'a1de9b4aab2b4b18526f|72b230244c58',
 'np/3/dir/mdinf': '732043b170da20e09dbf|72b230244c58',
 'np/3/dir/md2.0': 'a604d09d2aaf73860fad|72b230244c58',
 'np/4/prox/mdinf': 'd4e7da90e5aa8f96297e|8cd594edd0c3',
 'np/4/prox/md2.0': '14568849eddd8f8fb69f|8cd594edd0c3',
 'np/4/alloc/mdinf': '37b80d98487b5f5dc061|8cd594edd0c3',
 'np/4/dir/mdinf': 'fdaf51f7fb82f0fe328d|8cd594edd0c3',
 'np/5/prox/mdinf': 'dfdb76cab7f502f9f8be|1f312806c132',
 'np/5/prox/md2.0': 'b0aba818faeb24eeb73f|1f312806c132',
 'np/5/alloc/mdinf': 'a8add03267936cee9b17|1f312806c132',
 'np/5/dir/mdinf': 'f2f9828f6d8040e521b5|1f312806c132',
 'np/6/prox/mdinf': '90a42d8683db31d6a864|fa3b24f16cf3',
 'np/6/prox/md2.0': 'aabe7ef6981b879cf2b3|fa3b24f16cf3',
 'np/6/alloc/mdinf': '10aa9e045f192cc59ed3|fa3b24f16cf3',
 'np/6/dir/mdinf': '6927bde462675c516615|fa3b24f16cf3',
 'np/7/prox/mdinf': '5d73d8bac17f2753f34f|19b36afddf00',
 'np/7/prox/md2.0': '5d73d8bac17f2753f34f|19b36afddf00',
 'np/7/alloc/mdinf': 'c076640afeb7e425c465|19b36afddf00',
 'np/7/dir/mdinf': '5d73d8bac17f2753f34f|19b36afddf00',
 'np/8/prox/mdinf': 'f826bbfbeb169b828311|3d322ef1ac60',
 'np/8/prox/md2.0': 'f826bbfbeb169b828311|3d322ef1ac60',
 'np/8/alloc/mdinf': 'f826bbfbeb169b828311|3d322ef1ac60',
 'np/8/dir/mdinf': 'f826bbfbeb169b828311|3d322ef1ac60',
 'np/9/prox/mdinf': '3f6c28371b9c7ddd5e68|32b658ff5e90',
 'np/9/prox/md2.0': 'c992712614015c7b7030|32b658ff5e90',
 'np/9/alloc/mdinf': '3c22a02d0473bc13d14c|32b658ff5e90',
 'np/9/dir/mdinf': 'a965dfe515e9c86651bd|32b658ff5e90',
 'np/tv/prox': 'baba3ac6dc679031db7f|21b435eadf06',
 'np/manh/prox': '7c78b15493f048ea7e57|21b435eadf06',
 'np/foo/prox': 'c689cfec72ec921b13ce|21b435eadf06',
 'np/tv/alloc': '78e3a8079f59e5dbac00|21b435eadf06',
 'np/manh/alloc': '54b5aea5470f88eda296|21b435eadf06',
 'np/foo/alloc': '8fb0af5d28f05339d014|21b435eadf06',
 'np/tv/dir': '2cd7702af1c398b10daf|21b435eadf06',
 'np/manh/dir': 'a7aa8437033404ade331|21b435eadf06',
 'np/foo/dir': '92cba0541a73a710126e|21b435eadf06',
 'np/gc/prox': 'ad46e372f4bba7325681|35a8c319fb87',
 'np/gc2/prox': '3afd02ee57becdf33269|35a8c319fb87',
 'np/gc/alloc': '8c50b47672aaa0fe4369|35a8c319fb87',
 'np/gc2/alloc': '3afd02ee57becdf33269|35a8c319fb87',
 'np/gc/dir': '1631295901731cbaf574|35a8c319fb87',
 'np/gc2/dir': '3afd02ee57becdf33269|35a8c319fb87',
 'np/frac/md0.0': 'f6b44d398c8892a9810c|21b435eadf06',
 'np/frac/md0.4': 'f6b44d398c8892a9810c|21b435eadf06',
 'np/frac/md0.5': 'f6b44d398c8892a9810c|21b435eadf06',
 'np/frac/md1': 'd3dc284992ebcb6a6e10|21b435eadf06',
 'np/frac/md1.49': 'f43644d9ef6a615957b6|21b435eadf06',
 'np/frac/md1.5': 'f43644d9ef6a615957b6|21b435eadf06',
 'np/frac/md2.5': '9e7c28c98e8ab52826d5|21b435eadf06',
 'np/frac/md1000.0': 'c689cfec72ec921b13ce|21b435eadf06',
 'np/frac/mdnan': 'f6b44d398c8892a9810c|21b435eadf06',
 'np/baddims': 'ERR:ValueError',
 'da/0/prox/md0.4': 'c875ba89c6f5f7503ba2|c1043869a0df',
 'da/0/prox/md0.5': 'c875ba89c6f5f7503ba2|c1043869a0df',
 'da/0/alloc/md0.5': '4bb11a88ef8d81e4f948|c1043869a0df',
 'da/0/dir/md0.5': 'c875ba89c6f5f7503ba2|c1043869a0df',
 'da/0/prox/md1.0': 'ff927a6570ef633cc03f|c1043869a0df',
 'da/0/prox/md1.5': '18881dda88857eb6fd2a|c1043869a0df',
 'da/0/alloc/md1.5': '5398e131b29665180b69|c1043869a0df',
 'da/0/dir/md1.5': 'c384a10a32d5346c0801|c1043869a0df',
 'da/0/prox/md2.0': 'd61739d457f586c54c35|c1043869a0df',
 'da/0/alloc/md2.0': '483274f818ffb3fc5a81|c1043869a0df',
 'da/0/dir/md2.0': '3d07cff5abf3a44b0965|c1043869a0df',
 'da/0/prox/mdinf': 'eaee2768bef1f60467ac|1e0afe7fe460',
 'da/0/alloc/mdinf': '337a7b39e116723be350|1e0afe7fe460',
 'da/0/dir/mdinf': 'f06db8b6edc7ba7c786c|1e0afe7fe460',
 'da/1/prox/md0.4': 'c875ba89c6f5f7503ba2|b9da4c5ef8b5',
 'da/1/prox/md0.5': 'c875ba89c6f5f7503ba2|b9da4c5ef8b5',
 'da/1/alloc/md0.5': '4bb11a88ef8d81e4f948|b9da4c5ef8b5',
 'da/1/dir/md0.5': 'c875ba89c6f5f7503ba2|b9da4c5ef8b5',
 'da/1/prox/md1.0': 'ff927a6570ef633cc03f|b9da4c5ef8b5',
 'da/1/prox/md1.5': '18881dda88857eb6fd2a|b9da4c5ef8b5',
 'da/1/alloc/md1.5': '5398e131b29665180b69|b9da4c5ef8b5',
 'da/1/dir/md1.5': 'c384a10a32d5346c0801|b9da4c5ef8b5',
 'da/1/prox/md2.0': 'd61739d457f586c54c35|b9da4c5ef8b5',
 'da/1/alloc/md2.0': '483274f818ffb3fc5a81|b9da4c5ef8b5',
 'da/1/dir/md2.0': '3d07cff5abf3a44b0965|b9da4c5ef8b5',
 'da/1/prox/mdinf': 'eaee2768bef1f60467ac|1e0afe7fe460',
 'da/1/alloc/mdinf': '337a7b39e116723be350|1e0afe7fe460',
 'da/1/dir/mdinf': 'f06db8b6edc7ba7c786c|1e0afe7fe460',
 'da/2/prox/md0.4': 'c875ba89c6f5f7503ba2|1e0afe7fe460',
 'da/2/prox/md0.5': 'c875ba89c6f5f7503ba2|1e0afe7fe460',
 'da/2/alloc/md0.5': '4bb11a88ef8d81e4f948|1e0afe7fe460',
 'da/2/dir/md0.5': 'c875ba89c6f5f7503ba2|1e0afe7fe460',
 'da/2/prox/md1.0': 'ff927a6570ef633cc03f|1e0afe7fe460',
 'da/2/prox/md1.5': '18881dda88857eb6fd2a|1e0afe7fe460',
 'da/2/alloc/md1.5': '5398e131b29665180b69|1e0afe7fe460',
 'da/2/dir/md1.5': 'c384a10a32d5346c0801|1e0afe7fe460',
 'da/2/prox/md2.0': 'd61739d457f586c54c35|1e0afe7fe460',
 'da/2/alloc/md2.0': '483274f818ffb3fc5a81|1e0afe7fe460',
 'da/2/dir/md2.0': '3d07cff5abf3a44b0965|1e0afe7fe460',
 'da/2/prox/mdinf': 'eaee2768bef1f60467ac|1e0afe7fe460',
 'da/2/alloc/mdinf': '337a7b39e116723be350|1e0afe7fe460',
 'da/2/dir/mdinf': 'f06db8b6edc7ba7c786c|1e0afe7fe460',
 'da/3/prox/md0.4': 'c875ba89c6f5f7503ba2|23d4e89c16f7',
 'da/3/prox/md0.5': 'c875ba89c6f5f7503ba2|23d4e89c16f7',
 'da/3/alloc/md0.5': '4bb11a88ef8d81e4f948|23d4e89c16f7',
 'da/3/dir/md0.5': 'c875ba89c6f5f7503ba2|23d4e89c16f7',
 'da/3/prox/md1.0': 'ff927a6570ef633cc03f|23d4e89c16f7',
 'da/3/prox/md1.5': '18881dda88857eb6fd2a|23d4e89c16f7',
 'da/3/alloc/md1.5': '5398e131b29665180b69|23d4e89c16f7',
 'da/3/dir/md1.5': 'c384a10a32d5346c0801|23d4e89c16f7',
 'da/3/prox/md2.0': 'd61739d457f586c54c35|23d4e89c16f7',
 'da/3/alloc/md2.0': '483274f818ffb3fc5a81|23d4e89c16f7',
 'da/3/dir/md2.0': '3d07cff5abf3a44b0965|23d4e89c16f7',
 'da/3/prox/mdinf': 'eaee2768bef1f60467ac|1e0afe7fe460',
 'da/3/alloc/mdinf': '337a7b39e116723be350|1e0afe7fe460',
 'da/3/dir/mdinf': 'f06db8b6edc7ba7c786c|1e0afe7fe460',
 'da/4/prox/md0.4': 'c875ba89c6f5f7503ba2|ee7bd23f82af',
 'da/4/prox/md0.5': 'c875ba89c6f5f7503ba2|ee7bd23f82af',
 'da/4/alloc/md0.5': '4bb11a88ef8d81e4f948|ee7bd23f82af',
 'da/4/dir/md0.5': 'c875ba89c6f5f7503ba2|ee7bd23f82af',
 'da/4/prox/md1.0': 'ff927a6570ef633cc03f|ee7bd23f82af',
 'da/4/prox/md1.5': '18881dda88857eb6fd2a|ee7bd23f82af',
 'da/4/alloc/md1.5': '5398e131b29665180b69|ee7bd23f82af',
 'da/4/dir/md1.5': 'c384a10a32d5346c0801|ee7bd23f82af',
 'da/4/prox/md2.0': 'd61739d457f586c54c35|ee7bd23f82af',
 'da/4/alloc/md2.0': '483274f818ffb3fc5a81|ee7bd23f82af',
 'da/4/dir/md2.0': '3d07cff5abf3a44b0965|ee7bd23f82af',
 'da/4/prox/mdinf': 'eaee2768bef1f60467ac|1e0afe7fe460',
 'da/4/alloc/mdinf': '337a7b39e116723be350|1e0afe7fe460',
 'da/4/dir/mdinf': 'f06db8b6edc7ba7c786c|1e0afe7fe460',
 'da/5/prox/md0.4': 'c875ba89c6f5f7503ba2|3035e3ee26c1',
 'da/5/prox/md0.5': 'c875ba89c6f5f7503ba2|3035e3ee26c1',
 'da/5/alloc/md0.5': '4bb11a88ef8d81e4f948|3035e3ee26c1',
 'da/5/dir/md0.5': 'c875ba89c6f5f7503ba2|3035e3ee26c1',
 'da/5/prox/md1.0': 'ff927a6570ef633cc03f|3035e3ee26c1',
 'da/5/prox/md1.5': '18881dda88857eb6fd2a|3035e3ee26c1',
 'da/5/alloc/md1.5': '5398e131b29665180b69|3035e3ee26c1',
 'da/5/dir/md1.5': 'c384a10a32d5346c0801|3035e3ee26c1',
 'da/5/prox/md2.0': 'd61739d457f586c54c35|3035e3ee26c1',
 'da/5/alloc/md2.0': '483274f818ffb3fc5a81|3035e3ee26c1',
 'da/5/dir/md2.0': '3d07cff5abf3a44b0965|3035e3ee26c1',
 'da/5/prox/mdinf': 'eaee2768bef1f60467ac|1e0afe7fe460',
 'da/5/alloc/mdinf': '337a7b39e116723be350|1e0afe7fe460',
 'da/5/dir/mdinf': 'f06db8b6edc7ba7c786c|1e0afe7fe460',
 'da/sched/threads/prox': 'd61739d457f586c54c35|281ca9020d7e',
 'da/sched/threads/alloc': '483274f818ffb3fc5a81|281ca9020d7e',
 'da/sched/threads/dir': '3d07cff5abf3a44b0965|281ca9020d7e',
 'da/sched/synchronous/prox': 'd61739d457f586c54c35|281ca9020d7e',
 'da/sched/synchronous/alloc': '483274f818ffb3fc5a81|281ca9020d7e',
 'da/sched/synchronous/dir': '3d07cff5abf3a44b0965|281ca9020d7e',
 'da/extent/md17.029386520385742': 'eaee2768bef1f60467ac|1e0afe7fe460',
 'da/extent/alloc/md17.029386520385742': '337a7b39e116723be350|1e0afe7fe460',
 'da/extent/md17.02838652038574': 'ERR:ValueError',
 'da/extent/alloc/md17.02838652038574': 'ERR:ValueError',
 'da/extent/md18.029386520385742': 'eaee2768bef1f60467ac|1e0afe7fe460',
 'da/extent/alloc/md18.029386520385742': '337a7b39e116723be350|1e0afe7fe460',
 'da/extent/md1000000000.0': 'eaee2768bef1f60467ac|1e0afe7fe460',
 'da/extent/alloc/md1000000000.0': '337a7b39e116723be350|1e0afe7fe460',
 'da/extent/mdNone': 'eaee2768bef1f60467ac|1e0afe7fe460',
 'da/extent/alloc/mdNone': '337a7b39e116723be350|1e0afe7fe460',
 'da/res/prox/md0.9': 'dcd64d975b7f2fe76d5d|1de615e91208',
 'da/res/alloc/md0.9': '985d0e456ed0a5b51ae7|1de615e91208',
 'da/res/dir/md0.9': 'a62b319b0ee65547ef77|1de615e91208',
 'da/res/prox/md1.0': '815adc028e4ea5ed39be|1de615e91208',
 'da/res/alloc/md1.0': '3f12bb75083043daf82f|1de615e91208',
 'da/res/dir/md1.0': 'd7b1207d52b9b054d9db|1de615e91208',
 'da/res/prox/md2.0': 'cd90820e120ee54df263|7fd004ec3e42',
 'da/res/alloc/md2.0': '5c58c2b96382ef3de637|7fd004ec3e42',
 'da/res/dir/md2.0': '02563f6e11a005648c90|7fd004ec3e42',
 'da/res/prox/md3.1': 'cad2417e1c27e4d59a2d|bf190ec02e74',
 'da/res/alloc/md3.1': '70d9e72f9676060f70a5|bf190ec02e74',
 'da/res/dir/md3.1': '9fe5aa38f63c19bc935c|bf190ec02e74',
 'da/int/prox': '63cdb777b30ee311cf08|6a202d3b4829',
 'da/manh/prox': 'ca034edbc12208346fb9|785c5bec4a5b',
 'da/int/alloc': 'e92118ab919b398b8c81|6a202d3b4829',
 'da/manh/alloc': '25da2d2c5ab776015cf6|785c5bec4a5b',
 'da/int/dir': '39659bbfba1044de3ec4|6a202d3b4829',
 'da/manh/dir': '6ea442147832db3fa2ee|785c5bec4a5b',
 'da/gc/prox': 'e1fb95c120e9088f6217|4ec9bcf5000b',
 'da/gc/alloc': '20fc9e0113369a3f75ba|4ec9bcf5000b',
 'da/gc/dir': '503935463954595d65a1|4ec9bcf5000b',
 'da/halo/c3/md2.0': '0fd95d56f491653d315e|ee690c6362ce',
 'da/halo/c3/md2.4': '09c025b26a5c2bd2a197|ee690c6362ce',
 'da/halo/c3/md2.5': '09c025b26a5c2bd2a197|ee690c6362ce',
 'da/halo/c3/md3.0': '303207c2d1e4b75c7911|ee690c6362ce',
 'da/halo/c4/md2.0': 'ee3c7d1b93070860d8f1|7cc80f6019a6',
 'da/halo/c4/md2.4': '6c02f8df0a93d7856993|7cc80f6019a6',
 'da/halo/c4/md2.5': '6c02f8df0a93d7856993|7cc80f6019a6',
 'da/halo/c4/md3.0': '0480e4ca7c099c2052b9|7cc80f6019a6',
 'da/halo/c5/md2.0': 'efb3c90ec9adf420cf7d|39fe66a3cba6',
 'da/halo/c5/md2.4': '51a5243d8361d143f0fb|39fe66a3cba6',
 'da/halo/c5/md2.5': '51a5243d8361d143f0fb|39fe66a3cba6',
 'da/halo/c5/md3.0': 'd3c92749f34e58d73dae|39fe66a3cba6',
 'da/1row': 'ERR:ValueError',
 'da/1row/inf': '5af1dd1db0d493dfee56|cef9e4b14351',
 'da/nan': 'ERR:ValueError',
 'da/baddims': 'ERR:ValueError',
 'helper/metrics': '9675940ce0dd581de6e9',
 'helper/calc_direction': '68fc0430019c7078a0e2',
 'helper/distance': '4222e9a931a62e18ea11',
 'helper/metric_fns': '8f14f5b399b834c932aa'}


def digest(arr):
    arr = np.ascontiguousarray(arr)
    h = hashlib.sha256()
    h.update(str(arr.dtype).encode())
    h.update(str(arr.shape).encode())
    h.update(arr.tobytes())
    return h.hexdigest()[:20]


def make_raster(kind, shape, dtype, xres=1.0, yres=1.0, latlon=False,
                seed=0):
    rng = np.random.RandomState(seed)
    h, w = shape
    data = np.zeros(shape, dtype=np.float64)
    if kind == "sparse":
        n = max(1, (h * w) // 12)
        idx = rng.choice(h * w, size=n, replace=False)
        data.flat[idx] = rng.randint(1, 4, size=n)
    elif kind == "single":
        data[h // 2, w // 3] = 2
    elif kind == "corner":
        data[0, 0] = 1
        data[h - 1, w - 1] = 3
    elif kind == "empty":
        pass
    elif kind == "dense":
        data[:] = rng.randint(0, 4, size=shape)
    data = data.astype(dtype)
    if np.issubdtype(np.dtype(dtype), np.floating) and h * w > 6:
        # sprinkle NaN / inf cells (never targets when target_values == [])
        idx = rng.choice(h * w, size=3, replace=False)
        data.flat[idx[0]] = np.nan
        data.flat[idx[1]] = np.inf
        data.flat[idx[2]] = -np.inf
    if latlon:
        xc = np.linspace(-170, 170, w) if w > 1 else np.array([10.0])
        yc = np.linspace(80, -80, h) if h > 1 else np.array([5.0])
    else:
        xc = 3.0 + np.arange(w) * xres
        yc = (7.0 + np.arange(h) * yres)[::-1]
    return xr.DataArray(data, dims=["y", "x"], coords={"y": yc, "x": xc},
                        attrs={"res": (xres, yres), "k": kind})


def run(fname, raster, chunks=None, scheduler="synchronous", **kw):
    """Return (digest-string, ndarray or None)."""
    f = FUNCS[fname]
    r = raster.copy(deep=True)
    if chunks is not None:
        r.data = da.from_array(r.data, chunks=chunks)
    try:
        out = f(r, **kw)
        is_dask = isinstance(out.data, da.Array)
        if is_dask:
            with dask.config.set(scheduler=scheduler):
                vals = out.data.compute()
        else:
            vals = out.data
        vals = np.asarray(vals)
        extra = [
            type(out).__name__, "dask" if is_dask else type(out.data).__name__,
            str(out.dims), str(sorted(out.attrs.items())),
            str(getattr(r.data, "chunks", None)),
            str(getattr(out.data, "chunks", None)),
            digest(out["x"].values), digest(out["y"].values),
            # input raster data must be untouched
            digest(np.asarray(r.data)),
        ]
        return digest(vals) + "|" + hashlib.sha256(
            "|".join(extra).encode()).hexdigest()[:12], vals
    except Exception as e:  # noqa: BLE001
        return "ERR:" + type(e).__name__, None


def cases():
    """Yield (key, fname, raster, chunks, scheduler, kwargs, in_domain)."""
    # ---- numpy: dtypes, shapes, metrics, max distances ------------------
    np_specs = [
        ("sparse", (9, 11), "float64", 1.0, 1.0),
        ("sparse", (7, 5), "float32", 0.5, 2.0),
        ("dense", (6, 6), "int32", 1.0, 1.0),
        ("sparse", (5, 8), "int64", 2.0, 0.5),
        ("sparse", (4, 7), "uint8", 1.0, 1.0),
        ("single", (1, 9), "float64", 1.0, 1.0),
        ("single", (8, 1), "float64", 1.0, 1.0),
        ("single", (1, 1), "float64", 1.0, 1.0),
        ("empty", (4, 5), "float64", 1.0, 1.0),
        ("corner", (6, 9), "float32", 1.0, 1.0),
    ]
    for i, (kind, shape, dt, xr_, yr_) in enumerate(np_specs):
        r = make_raster(kind, shape, dt, xr_, yr_, seed=i)
        for fname in FUNCS:
            for md in (np.inf, 2.0):
                if fname != "prox" and i >= 4 and md == 2.0:
                    continue
                yield ("np/%d/%s/md%s" % (i, fname, md), fname, r, None,
                       "synchronous", dict(max_distance=md), False)
    r = make_raster("sparse", (9, 11), "float64", seed=21)
    for fname in FUNCS:
        yield ("np/tv/%s" % fname, fname, r, None, "synchronous",
               dict(target_values=[2, 3], max_distance=3.5), False)
        yield ("np/manh/%s" % fname, fname, r, None, "synchronous",
               dict(distance_metric="MANHATTAN", max_distance=3), False)
        yield ("np/foo/%s" % fname, fname, r, None, "synchronous",
               dict(distance_metric="NOPE", max_distance=None), False)
    rl = make_raster("sparse", (6, 8), "float64", latlon=True, seed=22)
    for fname in FUNCS:
        yield ("np/gc/%s" % fname, fname, rl, None, "synchronous",
               dict(distance_metric="GREAT_CIRCLE"), False)
        yield ("np/gc2/%s" % fname, fname, rl, None, "synchronous",
               dict(distance_metric="GREAT_CIRCLE", max_distance=4.0e6,
                    target_values=[1]), False)
    # fractions of a cell / integer max_distance / zero / nan
    for md in (0.0, 0.4, 0.5, 1, 1.49, 1.5, 2.5, 1000.0, float("nan")):
        yield ("np/frac/md%s" % md, "prox", r, None, "synchronous",
               dict(max_distance=md), False)
    # wrong dim names
    yield ("np/baddims", "prox", r, None, "synchronous",
           dict(x="lon", y="lat"), False)

    # ---- dask: chunkings x max_distance x function ----------------------
    rd = make_raster("sparse", (12, 14), "float64", seed=31)
    chunkings = [(4, 5), (6, 7), (12, 14), (3, 14), (12, 2),
                 ((5, 7), (4, 4, 6))]
    for ci, ch in enumerate(chunkings):
        for md in (0.4, 0.5, 1.0, 1.5, 2.0, np.inf):
            halo = int(md + 0.5) if np.isfinite(md) else 0
            flat = [c for dim in (ch if isinstance(ch[0], tuple)
                                  else ((ch[0],), (ch[1],))) for c in dim]
            in_dom = halo <= min(flat)
            for fname in FUNCS:
                if fname != "prox" and md in (0.4, 1.0):
                    continue
                yield ("da/%d/%s/md%s" % (ci, fname, md), fname, rd, ch,
                       "synchronous", dict(max_distance=md), in_dom)
    # schedulers
    for sched in ("threads", "synchronous"):
        for fname in FUNCS:
            yield ("da/sched/%s/%s" % (sched, fname), fname, rd, (5, 6),
                   sched, dict(max_distance=2.0), True)
    # max_distance reaching / just below the raster's extent
    diag = float(np.float32(np.hypot(13.0, 11.0)))
    for md in (diag, diag - 1e-3, diag + 1.0, 1e9, None):
        yield ("da/extent/md%s" % md, "prox", rd, (4, 5), "synchronous",
               dict(max_distance=md), md is None or md >= diag)
        yield ("da/extent/alloc/md%s" % md, "alloc", rd, (4, 5),
               "synchronous", dict(max_distance=md), md is None or md >= diag)
    # non-unit cell sizes, other dtypes, target values, metrics
    rd2 = make_raster("sparse", (10, 9), "float32", 0.5, 2.0, seed=32)
    for md in (0.9, 1.0, 2.0, 3.1):
        for fname in FUNCS:
            yield ("da/res/%s/md%s" % (fname, md), fname, rd2, (5, 8),
                   "synchronous", dict(max_distance=md), md < 3.1)
    rd3 = make_raster("dense", (9, 10), "int32", seed=33)
    for fname in FUNCS:
        yield ("da/int/%s" % fname, fname, rd3, (4, 4), "synchronous",
               dict(max_distance=2.0, target_values=[3]), True)
        yield ("da/manh/%s" % fname, fname, rd, (6, 5), "synchronous",
               dict(max_distance=3, distance_metric="MANHATTAN"), True)
    rl2 = make_raster("sparse", (8, 10), "float64", latlon=True, seed=34)
    for fname in FUNCS:
        yield ("da/gc/%s" % fname, fname, rl2, (4, 5), "synchronous",
               dict(distance_metric="GREAT_CIRCLE"), True)
    # target just inside / just outside the halo of the neighbouring chunk
    z = np.zeros((6, 12))
    for col in (3, 4, 5):
        zz = z.copy()
        zz[2, col] = 1
        rr = xr.DataArray(zz, dims=["y", "x"],
                          coords={"y": np.arange(6)[::-1] * 1.0,
                                  "x": np.arange(12) * 1.0})
        for md in (2.0, 2.4, 2.5, 3.0):
            yield ("da/halo/c%d/md%s" % (col, md), "prox", rr, (6, 6),
                   "synchronous", dict(max_distance=md), True)
    # odd shapes on dask
    r1 = make_raster("single", (1, 9), "float64", seed=35)
    yield ("da/1row", "prox", r1, (1, 3), "synchronous",
           dict(max_distance=2.0), False)
    yield ("da/1row/inf", "prox", r1, (1, 3), "synchronous", dict(), True)
    yield ("da/nan", "prox", rd, (4, 5), "synchronous",
           dict(max_distance=float("nan")), False)
    yield ("da/baddims", "dir", rd, (4, 5), "synchronous",
           dict(x="a", y="b"), False)


def helper_checks():
    """Digests of private helpers / tables present in both trees."""
    out = {}
    out["metrics"] = str(sorted(pmod.DISTANCE_METRICS.items()))
    pts = [(0., 0., 0., 0.), (0., 1., 0., 0.), (0., 0., 0., 1.),
           (1., 0., 0., 0.), (0., 0., 1., 0.), (0., 1., 0., 1.),
           (2., -1., 3., 5.), (2., 5., 3., -1.), (-2., -5., 3., 3.5),
           (0., 1., 0., np.nan), (np.nan, 1., 0., 2.), (0., np.inf, 0., 1.),
           (0., 1e-30, 0., -1e-30), (1., 1., 2., 2.)]
    vals = []
    for p in pts:
        v = pmod._calc_direction(*p)
        vals.append(repr((type(v).__name__, float(v))))
    out["calc_direction"] = "|".join(vals)
    vals = []
    for p in pts[:9]:
        for m in (0, 1, 2):
            v = pmod._distance(*p, m)
            vals.append(repr((type(v).__name__, float(v))))
    out["distance"] = "|".join(vals)
    vals = []
    for p in pts:
        vals.append(repr(float(pmod.euclidean_distance(*p))))
        vals.append(repr(float(pmod.manhattan_distance(*p))))
    out["metric_fns"] = "|".join(vals)
    return {k: hashlib.sha256(v.encode()).hexdigest()[:20]
            for k, v in out.items()}


def main():
    record = "--record" in sys.argv
    assert "/site-packages/" not in xrspatial.__file__
    got = {}
    bad = []
    np_cache = {}
    for key, fname, raster, chunks, sched, kw, in_dom in cases():
        d, vals = run(fname, raster, chunks, sched, **kw)
        assert key not in got, key
        got[key] = d
        if chunks is not None and in_dom and vals is not None:
            ck = (fname, id(raster), repr(sorted(kw.items())))
            if ck not in np_cache:
                np_cache[ck] = run(fname, raster, None, **kw)[1]
            ref = np_cache[ck]
            same = (ref is not None and ref.dtype == vals.dtype
                    and ref.shape == vals.shape
                    and np.array_equal(ref, vals, equal_nan=True))
            if not same:
                bad.append("dask != numpy for in-domain case " + key)
    for k, v in helper_checks().items():
        got["helper/" + k] = v
    if record:
        print(repr(got))
        if bad:
            print("\n".join(bad), file=sys.stderr)
            return 2
        return 0
    for k in sorted(set(got) | set(EXPECTED)):
        if got.get(k) != EXPECTED.get(k):
            bad.append("MISMATCH %s: got %s expected %s"
                       % (k, got.get(k), EXPECTED.get(k)))
    print("xrspatial from", xrspatial.__file__)
    print("%d cases, %d problems" % (len(got), len(bad)))
    for b in bad[:40]:
        print(b)
    return 1 if bad else 0


if __name__ == "__main__":
    sys.exit(main())
