"""Differential test for C18 (trim / crop): compares the library against an
independent pure-numpy reference of the window bounds, and checks that cells,
coords, attrs, dtype and name are those of the original at the same positions.
Exit 0 if identical, 1 otherwise."""
import itertools
import sys

import numpy as np
import xarray as xr
import dask.array as da

import xrspatial
from xrspatial.zonal import trim, crop, _trim, _crop

FAIL = []


def check(cond, msg):
    if not cond:
        FAIL.append(msg)


def ref_bounds(keep):
    """keep: 2D bool mask of cells that must stay inside the window."""
    rows, cols = keep.shape
    r = np.flatnonzero(keep.any(axis=1))
    c = np.flatnonzero(keep.any(axis=0))
    if rows == 0 or cols == 0:
        return 0, 0, 0, 0
    if r.size == 0:
        # documented-by-behaviour fallback of the scanning kernels
        return rows - 1, 0, cols - 1, 0
    return int(r[0]), int(r[-1]), int(c[0]), int(c[-1])


def trim_mask(a, excludes):
    excl = np.zeros(a.shape, dtype=bool)
    for e in excludes:
        if isinstance(e, float) and np.isnan(e):
            if a.dtype.kind == 'f':
                excl |= np.isnan(a)
        else:
            excl |= (a == e)
    return ~excl


def crop_mask(z, ids):
    m = np.zeros(z.shape, dtype=bool)
    for i in ids:
        m |= (z == i)
    return m


def mk(a, name='src'):
    h, w = a.shape
    return xr.DataArray(
        a, dims=['y', 'x'], name=name,
        coords={'y': np.linspace(50.0, 40.0, h) if h > 1 else np.array([50.0]),
                'x': np.arange(w) * 2.5 - 7.0,
                'lab': ('x', np.arange(w) + 100)},
        attrs={'res': (2.5, 1.0), 'units': 'm', 'nested': {'a': 1}})


def same_window(out, src, b, name, tag):
    t, bo, l, r = b
    exp = src[t: bo + 1, l: r + 1]
    check(out.shape == exp.shape, f'{tag}: shape {out.shape} != {exp.shape}')
    check(out.dtype == src.dtype, f'{tag}: dtype')
    check(out.name == name, f'{tag}: name')
    check(out.dims == src.dims, f'{tag}: dims')
    check(out.attrs == src.attrs, f'{tag}: attrs')
    if out.shape == exp.shape:
        check(np.array_equal(out.values, exp.values, equal_nan=(src.dtype.kind == 'f')),
              f'{tag}: values')
        check(out.values.tobytes() == exp.values.tobytes(), f'{tag}: bytes')
        for k in src.coords:
            check(k in out.coords and np.array_equal(out[k].values, exp[k].values),
                  f'{tag}: coord {k}')


rng = np.random.default_rng(18)
shapes = [(1, 1), (1, 5), (6, 1), (2, 2), (3, 4), (5, 7), (8, 3), (9, 9)]
nan = float('nan')

# ---------------------------------------------------------------- trim
trim_cases = 0
for shape in shapes:
    for dt in ('f8', 'f4', 'i8', 'i4', 'u1'):
        for dens in (0.0, 0.15, 0.5, 1.0):
            for rep in range(3):
                # base: excluded everywhere, sprinkle kept cells
                kept = rng.random(shape) < dens
                if dt[0] == 'f':
                    bg = rng.choice(np.array([np.nan, 0.0, -1.0]), size=shape)
                    a = np.where(kept, rng.integers(1, 5, shape).astype(dt), bg).astype(dt)
                    exsets = [(nan,), [nan], (nan, 0.0), [0.0, nan, -1.0], (0.0,),
                              [-1.0, 0.0], (nan, 0.0, -1.0, 7.0)]
                else:
                    bg = rng.choice(np.array([0, 9]), size=shape)
                    a = np.where(kept, rng.integers(1, 5, shape), bg).astype(dt)
                    exsets = [[0], (0,), [0, 9], (9, 0, 3), (nan,), [nan, 0.0], (0.0, 9.0)]
                src = mk(a)
                for ex in exsets:
                    b = ref_bounds(trim_mask(a, ex))
                    got = tuple(int(v) for v in _trim(a, ex))
                    check(got == b, f'_trim {shape} {dt} {ex}: {got} != {b}')
                    out = trim(src, values=ex, name='tt')
                    same_window(out, src, b, 'tt', f'trim {shape} {dt} {ex}')
                    trim_cases += 1
                # default arguments
                out = trim(src)
                same_window(out, src, ref_bounds(trim_mask(a, (nan,))), 'trim',
                            f'trim-default {shape} {dt}')

# kept cells touching every subset of the four borders
for mask_bits in itertools.product([0, 1], repeat=4):
    a = np.full((6, 7), np.nan)
    a[2:4, 3:5] = 1.5
    if mask_bits[0]:
        a[0, 3] = 2
    if mask_bits[1]:
        a[5, 4] = 3
    if mask_bits[2]:
        a[2, 0] = 4
    if mask_bits[3]:
        a[3, 6] = 5
    src = mk(a)
    b = ref_bounds(~np.isnan(a))
    same_window(trim(src), src, b, 'trim', f'trim-borders {mask_bits}')
    z = np.where(np.isnan(a), 0, a * 2).astype('i8')
    zs = mk(z, 'zones')
    ids = [3, 4, 6, 8, 10]
    b = ref_bounds(crop_mask(z, ids))
    same_window(crop(zs, src, ids), src, b, 'crop', f'crop-borders {mask_bits}')

# ---------------------------------------------------------------- crop
crop_cases = 0
for shape in shapes:
    for zdt in ('i8', 'i4', 'f8', 'f4'):
        for vdt in ('f8', 'i4'):
            for rep in range(4):
                z = rng.integers(0, 6, shape)
                z = np.where(rng.random(shape) < 0.5, 0, z).astype(zdt)
                if zdt[0] == 'f':
                    z[rng.random(shape) < 0.1] = np.nan
                v = (rng.random(shape) * 100).astype(vdt)
                if vdt[0] == 'f':
                    v[rng.random(shape) < 0.2] = np.nan
                zs, vs = mk(z, 'zones'), mk(v, 'vals')
                if zdt[0] == 'f':
                    idsets = [[1.0], (2.0, 3.0), [5.0, 1.0, 4.0], (77.0,), [nan], (nan, 2.0),
                              [0.0]]
                else:
                    idsets = [[1], (2, 3), [5, 1, 4], (77,), [0], (1.0, 2.0), [nan]]
                for ids in idsets:
                    b = ref_bounds(crop_mask(z, ids))
                    got = tuple(int(k) for k in _crop(z, ids))
                    check(got == b, f'_crop {shape} {zdt} {ids}: {got} != {b}')
                    out = crop(zs, vs, ids, name='cc')
                    same_window(out, vs, b, 'cc', f'crop {shape} {zdt}/{vdt} {ids}')
                    out = crop(zones=zs, values=vs, zones_ids=ids)
                    check(out.name == 'crop', 'crop default name')
                    crop_cases += 1

# ------------------------------------------------ recorded examples (unmodified tree)
a = np.array([[nan, nan, nan, nan],
              [nan, 4., 0., nan],
              [nan, 0., 0., 1.],
              [nan, nan, nan, nan],
              [0., nan, nan, nan]])
check(tuple(_trim(a, (nan,))) == (1, 4, 0, 3), 'rec1')
check(tuple(_trim(a, (nan, 0.))) == (1, 2, 1, 3), 'rec2')
check(tuple(_trim(a, [4., 1., nan, 0.])) == (4, 0, 3, 0), 'rec3')
check(tuple(_crop(a, (0.,))) == (1, 4, 0, 2), 'rec4')
check(tuple(_crop(a, [1., 4.])) == (1, 2, 1, 3), 'rec5')
check(tuple(_crop(a, [5.])) == (4, 0, 3, 0), 'rec6')
check(tuple(_crop(a, [nan])) == (4, 0, 3, 0), 'rec7')
check(trim(mk(a), [4., 1., nan, 0.]).shape == (0, 0), 'rec8')
one = np.array([[nan, 2., nan, 3., nan]])
check(trim(mk(one)).shape == (1, 3), 'rec9')
check(trim(mk(np.full((1, 4), nan))).shape == (1, 0), 'rec10')
check(trim(mk(np.full((4, 1), nan))).shape == (0, 1), 'rec11')

# ------------------------------------------------ unsupported inputs fail the same way
def exc_name(f):
    try:
        f()
    except Exception as e:  # noqa
        return type(e).__name__
    return 'OK'


d = mk(a).copy(data=da.from_array(a, chunks=(2, 3)))
check(exc_name(lambda: trim(d)) == 'TypingError', 'dask trim')
check(exc_name(lambda: crop(d, d, [1.])) == 'TypingError', 'dask crop zones')
# numpy zones + dask values is supported (lazy slice)
out = crop(mk(a), d, [1., 4.])
check(isinstance(out.data, da.Array), 'crop dask values stays lazy')
same_window(out.compute(), mk(a), (1, 2, 1, 3), 'crop', 'crop dask values')
check(exc_name(lambda: trim(mk(a), (nan, 0))) == 'TypingError', 'hetero tuple')
check(exc_name(lambda: trim(mk(a), [nan, 0])) == 'TypeError', 'hetero list')
check(exc_name(lambda: trim(mk(a), [])) == 'ValueError', 'empty list')
check(exc_name(lambda: crop(mk(a), mk(a), [])) == 'ValueError', 'empty list crop')
check(exc_name(lambda: crop(mk(a), mk(a), (nan, 0))) == 'TypingError', 'hetero tuple crop')

print('xrspatial from', xrspatial.__file__)
print(f'trim cases: {trim_cases}, crop cases: {crop_cases}, failures: {len(FAIL)}')
for m in FAIL[:20]:
    print('FAIL', m)
sys.exit(1 if FAIL else 0)
