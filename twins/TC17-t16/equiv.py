"""Differential test for the xrspatial.local operators (property C17).

Runs every local operator on a family of seeded datasets (2..6 layers,
ties, NaN, +-inf, -0.0, int / float / mixed dtypes, odd shapes, numpy- and
dask-backed, data_vars subsets / orders, every ref_var choice) and checks

  1. the values against an oracle written independently with vectorised
     numpy (values, NaN positions, combine ids and key), and
  2. the exact bits (dtype, shape, bytes, attrs) against a digest recorded
     from the unmodified tree (EXPECTED_DIGEST below).

Exit status 0 when everything is identical, 1 otherwise.
`python equiv.py --record` prints the digest of the tree it runs on.
"""
import hashlib
import itertools
import sys

import dask.array as da
import numpy as np
import xarray as xr

import xrspatial
from xrspatial import local as L

EXPECTED_DIGEST = "bf41f232d94e0d801f977ebcf159024b1546f6bc32f93abbc84a6f336fb6820e"

FAILURES = []
_H = hashlib.sha256()


def fail(msg):
    FAILURES.append(msg)
    if len(FAILURES) <= 20:
        print("FAIL:", msg)


def feed(*parts):
    for p in parts:
        _H.update(repr(p).encode())
        _H.update(b"|")


def feed_result(tag, res):
    if not isinstance(res, xr.DataArray):
        fail(f"{tag}: result is {type(res)}")
        return
    data = res.data
    if not isinstance(data, np.ndarray):
        fail(f"{tag}: data is {type(data)}")
        return
    feed(tag, str(data.dtype), data.shape, res.dims, res.name,
         sorted(res.coords), res.attrs)
    _H.update(np.ascontiguousarray(data).tobytes())


# ---------------------------------------------------------------- inputs

def make_layers(rng, n, shape, kind):
    """n layers of the given shape; small value range to force ties."""
    layers = []
    for i in range(n):
        if kind == 'f64':
            a = rng.integers(-2, 4, size=shape).astype(np.float64)
        elif kind == 'f64frac':
            a = np.round(rng.normal(size=shape), 1)
        elif kind == 'f32':
            a = (rng.integers(-2, 4, size=shape) / 3).astype(np.float32)
        elif kind == 'i32':
            a = rng.integers(-3, 3, size=shape).astype(np.int32)
        elif kind == 'i64':
            a = rng.integers(0, 3, size=shape).astype(np.int64)
        elif kind == 'u8':
            a = rng.integers(0, 4, size=shape).astype(np.uint8)
        elif kind == 'mixed':
            if i % 3 == 0:
                a = rng.integers(-2, 3, size=shape).astype(np.int16)
            elif i % 3 == 1:
                a = rng.integers(-2, 3, size=shape).astype(np.float64)
            else:
                a = rng.integers(-2, 3, size=shape).astype(np.float32)
        elif kind == 'special':
            a = rng.choice(
                np.array([0.0, -0.0, 1.0, np.inf, -np.inf, 2.5, np.nan]),
                size=shape)
        else:
            raise AssertionError(kind)
        if a.dtype.kind == 'f' and kind != 'special':
            m = rng.random(shape) < 0.15
            a = a.copy()
            a[m] = np.nan
        layers.append(a)
    return layers


def make_dataset(layers, ref, backend):
    names = [f"v{i}" for i in range(len(layers))]
    dv = {}
    for nm, a in zip(names + ['ref'], layers + [ref]):
        if backend == 'dask':
            chunks = (max(1, a.shape[0] // 2), max(1, a.shape[1] // 2))
            a = da.from_array(a, chunks=chunks)
        dv[nm] = (('y', 'x'), a)
    return xr.Dataset(dv), names


# ---------------------------------------------------------------- oracle

def stack(ds, names):
    return np.stack([np.asarray(ds[n].data).astype(np.float64)
                     for n in names])


def same(tag, got, want, tol=0.0):
    got = np.asarray(got, dtype=np.float64)
    if got.shape != want.shape:
        fail(f"{tag}: shape {got.shape} != {want.shape}")
        return
    gn, wn = np.isnan(got), np.isnan(want)
    if not np.array_equal(gn, wn):
        fail(f"{tag}: NaN positions differ")
        return
    g, w = got[~gn], want[~wn]
    if tol:
        fin = np.isfinite(w)
        ok = (np.array_equal(g[~fin], w[~fin]) and
              np.allclose(g[fin], w[fin], rtol=tol, atol=tol))
    else:
        ok = np.array_equal(g, w)
    if not ok:
        fail(f"{tag}: values differ\n got={got.tolist()}\nwant={want.tolist()}")


def oracle_cell_stats(S, func):
    with np.errstate(all='ignore'):
        import warnings
        with warnings.catch_warnings():
            warnings.simplefilter('ignore')
            return getattr(np, func)(S, axis=0)


def oracle_freq(S, R, op):
    cmp = {'lesser': S < R, 'equal': S == R, 'greater': S > R}[op]
    out = cmp.sum(axis=0).astype(np.float64)
    out[np.isnan(S).any(axis=0)] = np.nan
    return out


def oracle_position(S, lowest):
    nanm = np.isnan(S).any(axis=0)
    T = np.where(nanm[None], 0.0, S)
    idx = (np.argmin(T, axis=0) if lowest else np.argmax(T, axis=0)) + 1
    out = idx.astype(np.float64)
    out[nanm] = np.nan
    return out


def oracle_rank(S, R):
    n = S.shape[0]
    nanm = np.isnan(S).any(axis=0)
    T = np.sort(np.where(nanm[None], 0.0, S), axis=0)
    k = R.astype(np.int64) - 1
    bad = nanm | (k >= n)
    kk = np.where(bad, 0, k)
    out = np.take_along_axis(T, kk[None], axis=0)[0].astype(np.float64)
    out[bad] = np.nan
    return out


def check_combine(tag, res, S):
    got = np.asarray(res.data, dtype=np.float64)
    key = res.attrs.get('key')
    if set(res.attrs) != {'key'} or not isinstance(key, dict):
        fail(f"{tag}: attrs {res.attrs}")
        return
    n, h, w = S.shape
    if got.shape != (h, w):
        fail(f"{tag}: shape")
        return
    seen = {}
    nxt = 1
    for y in range(h):
        for x in range(w):
            t = tuple(S[:, y, x].tolist())
            if any(v != v for v in t):
                if not np.isnan(got[y, x]):
                    fail(f"{tag}: NaN cell got {got[y, x]}")
                continue
            if t not in seen:
                seen[t] = nxt
                nxt += 1
            if got[y, x] != seen[t]:
                fail(f"{tag}: id at {(y, x)} {got[y, x]} != {seen[t]}")
                return
    want_key = {v: k for k, v in seen.items()}
    if list(key.keys()) != list(want_key.keys()):
        fail(f"{tag}: key ids {list(key)}")
        return
    for i in want_key:
        if len(key[i]) != n or tuple(float(v) for v in key[i]) != want_key[i]:
            fail(f"{tag}: key[{i}] = {key[i]} != {want_key[i]}")
            return


# ---------------------------------------------------------------- driver

STATS = ['max', 'mean', 'median', 'min', 'std', 'sum']


def run_case(tag, ds, names, subsets):
    import warnings
    warnings.simplefilter('ignore')
    for dv in subsets:
        use = list(dv) if dv is not None else names + ['ref']
        t = f"{tag}/{dv}"
        S = stack(ds, use)
        for func in STATS:
            r = L.cell_stats(ds, None if dv is None else list(dv), func)
            feed_result(f"{t}/cell_stats/{func}", r)
            same(f"{t}/cell_stats/{func}", r.data, oracle_cell_stats(S, func),
                 tol=1e-12 if func in ('mean', 'std', 'sum') else 0.0)
        r = L.cell_stats(ds, data_vars=None if dv is None else list(dv))
        feed_result(f"{t}/cell_stats/default", r)
        same(f"{t}/cell_stats/default", r.data, oracle_cell_stats(S, 'sum'),
             tol=1e-12)

        r = L.combine(ds, None if dv is None else list(dv))
        feed_result(f"{t}/combine", r)
        check_combine(f"{t}/combine", r, S)

        r = L.lowest_position(ds, None if dv is None else list(dv))
        feed_result(f"{t}/lowest", r)
        same(f"{t}/lowest", r.data, oracle_position(S, True))
        r = L.highest_position(ds, data_vars=None if dv is None else list(dv))
        feed_result(f"{t}/highest", r)
        same(f"{t}/highest", r.data, oracle_position(S, False))

    # operators with a reference layer
    for dv in subsets:
        if dv is None:
            use = names
        else:
            use = list(dv)
        t = f"{tag}/ref/{dv}"
        S = stack(ds, use)
        R = np.asarray(ds['ref'].data).astype(np.float64)
        arg = None if dv is None else list(dv)
        fl = L.lesser_frequency(ds, 'ref', arg)
        fe = L.equal_frequency(ds, 'ref', data_vars=arg)
        fg = L.greater_frequency(ds, ref_var='ref', data_vars=arg)
        for nm, r, op in (('lesser', fl, 'lesser'), ('equal', fe, 'equal'),
                          ('greater', fg, 'greater')):
            feed_result(f"{t}/{nm}", r)
            same(f"{t}/{nm}", r.data, oracle_freq(S, R[None], op))
        tot = (np.asarray(fl.data, float) + np.asarray(fe.data, float)
               + np.asarray(fg.data, float))
        ok = np.isnan(tot) | (tot == len(use))
        if not ok.all():
            fail(f"{t}: frequencies do not sum to the layer count")
        r = L.rank(ds, 'ref', arg)
        feed_result(f"{t}/rank", r)
        same(f"{t}/rank", r.data, oracle_rank(S, R))
        try:
            r = L.popularity(ds, 'ref', arg)
            feed_result(f"{t}/popularity", r)
        except Exception as e:   # recorded only
            feed(f"{t}/popularity", type(e).__name__, str(e))


def ref_as_data_layer(tag, ds, names):
    """a data layer used as the reference (ref_var choice)."""
    for rv in names[:2]:
        others = [n for n in names if n != rv]
        if not others:
            continue
        S = stack(ds, others)
        R = np.asarray(ds[rv].data).astype(np.float64)
        sub = ds[names]     # no 'ref' variable: data_vars=None path
        for arg, dsx in ((others, ds), (None, sub)):
            t = f"{tag}/refvar={rv}/{arg}"
            if len(others) < 2:
                # a single data layer is outside the property (2..6
                # layers); the library raises - record how.
                for f in (L.lesser_frequency, L.equal_frequency,
                          L.greater_frequency, L.rank):
                    try:
                        feed_result(f"{t}/{f.__name__}", f(dsx, rv, arg))
                    except Exception as e:
                        feed(f"{t}/{f.__name__}", type(e).__name__, str(e))
                continue
            fl = L.lesser_frequency(dsx, rv, arg)
            fe = L.equal_frequency(dsx, rv, arg)
            fg = L.greater_frequency(dsx, rv, arg)
            for nm, r in (('lesser', fl), ('equal', fe), ('greater', fg)):
                feed_result(f"{t}/{nm}", r)
                same(f"{t}/{nm}", r.data, oracle_freq(S, R[None], nm))


def error_paths():
    a = np.arange(6.).reshape(2, 3)
    ds = xr.Dataset({'a': (('y', 'x'), a), 'b': (('y', 'x'), a + 1),
                     'r': (('y', 'x'), np.ones((2, 3), int))})
    noref = [L.cell_stats, L.combine, L.lowest_position, L.highest_position]
    withref = [L.lesser_frequency, L.equal_frequency, L.greater_frequency,
               L.rank, L.popularity]
    calls = []
    for f in noref:
        calls += [
            (f, (a,), {}), (f, (ds['a'],), {}), (f, (ds, 'a'), {}),
            (f, (ds, ('a', 'b')), {}), (f, (ds, ['a', 1]), {}),
            (f, (ds, ['a', 'zz']), {}), (f, (ds, []), {}),
        ]
    calls += [(L.cell_stats, (ds, ['a', 'b'], 'mode'), {}),
              (L.cell_stats, (ds,), {'func': None})]
    for f in withref:
        calls += [
            (f, (a, 'r'), {}), (f, (ds, 1), {}), (f, (ds, None), {}),
            (f, (ds, 'zz'), {}), (f, (ds, 'y'), {}), (f, (ds, 'r', 'a'), {}),
            (f, (ds, 'r', ['a', 2.0]), {}), (f, (ds, 'r', ['a', 'zz']), {}),
            (f, (ds, 'r', ['a', 'r']), {}), (f, (ds, 'r', []), {}),
            (f, (ds, 'r', ('a',)), {}),
        ]
    for i, (f, args, kw) in enumerate(calls):
        tag = f"err{i}/{f.__name__}"
        try:
            r = f(*args, **kw)
        except Exception as e:
            feed(tag, type(e).__name__, str(e))
            if not isinstance(e, (TypeError, ValueError)):
                fail(f"{tag}: unexpected {type(e).__name__}: {e}")
        else:
            feed_result(tag, r)
    # input must not be modified / data_vars list must not be modified
    dv = ['b', 'a']
    before = ds.copy(deep=True)
    for f in noref:
        f(ds, dv)
    for f in withref:
        f(ds, 'r', dv)
        f(ds, 'r')
    if dv != ['b', 'a'] or not ds.identical(before):
        fail("inputs modified")
    feed(list(ds.data_vars))


def main():
    if not xrspatial.__file__.startswith('/tmp/t5/TC17/'):
        print("wrong library:", xrspatial.__file__)
        return 2
    rng = np.random.default_rng(20170)
    shapes = [(1, 1), (1, 7), (5, 1), (3, 4), (6, 5)]
    kinds = ['f64', 'f64frac', 'f32', 'i32', 'i64', 'u8', 'mixed', 'special']
    case = 0
    for kind in kinds:
        for shape in shapes:
            n = 2 + case % 5                       # 2..6 layers
            layers = make_layers(rng, n, shape, kind)
            hi = n + 1 if case % 4 == 0 else n     # sometimes one past n
            ref = rng.integers(1, hi + 1, size=shape)
            ref = ref.astype([np.int64, np.int32, np.uint8][case % 3])
            backend = 'dask' if (case % 3 == 1 and shape != (6, 5)) \
                else 'numpy'
            ds, names = make_dataset(layers, ref, backend)
            subsets = [None, tuple(names), tuple(reversed(names))]
            if n >= 3:
                subsets.append((names[2], names[0]))
                perms = list(itertools.permutations(names, n - 1))
                subsets.append(perms[int(rng.integers(len(perms)))])
            tag = f"c{case}/{kind}/{shape}/{backend}"
            run_case(tag, ds, names, subsets)
            ref_as_data_layer(tag, ds, names)
            case += 1
    error_paths()

    digest = _H.hexdigest()
    if '--record' in sys.argv:
        print(digest)
        return 0
    if digest != EXPECTED_DIGEST:
        fail(f"digest {digest} != recorded {EXPECTED_DIGEST}")
    if FAILURES:
        print(f"{len(FAILURES)} failure(s)")
        return 1
    print(f"OK: {case} datasets, digest {digest[:16]}... matches")
    return 0


if __name__ == '__main__':
    sys.exit(main())
