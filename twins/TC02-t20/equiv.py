"""Differential test for property C02 (zonal stats summarise exactly the valid
cells of each zone).

Two independent checks are made on the library that is importable from the
current working tree:

1. ORACLE: every result (numpy DataFrame, numpy xarray.DataArray, dask
   DataFrame) is compared with a brute-force per-zone computation written
   here without any library helper.
2. RECORDED: a sha256 digest over the raw bytes / dtypes / column names of
   every result is compared with the digest recorded from the unmodified
   tree, so the outputs must be bit-identical (values, dtypes, NaNs, row
   order, exception types).

Exit code 0 if everything is identical, 1 otherwise.
Run `equiv.py --record` on the unmodified tree to print the digest.
"""
import hashlib
import sys
import warnings

import dask.array as da
import numpy as np
import pandas as pd
import xarray as xr

import xrspatial
from xrspatial import zonal_stats as stats
from xrspatial import zonal_crosstab as crosstab

warnings.filterwarnings('ignore')

EXPECTED_DIGEST = "625124298931150fcd7354a39c4e2a450a9f2110de56baf39cd5528666ec7798"

ALL_STATS = ['mean', 'max', 'min', 'sum', 'std', 'var', 'count']
ORACLE_FUNCS = dict(
    mean=np.mean, max=np.max, min=np.min, sum=np.sum, std=np.std, var=np.var,
    count=len,
)

failures = []
digest = hashlib.sha256()


def feed(tag, obj):
    """Add a result (or the exception it raised) to the running digest."""
    digest.update(tag.encode())
    if isinstance(obj, Exception):
        digest.update(('EXC:' + type(obj).__name__).encode())
    elif isinstance(obj, pd.DataFrame):
        digest.update(repr(list(obj.columns)).encode())
        digest.update(repr(list(obj.index)).encode())
        for c in obj.columns:
            col = obj[c].to_numpy()
            digest.update(str(col.dtype).encode())
            digest.update(np.ascontiguousarray(col).tobytes())
    elif isinstance(obj, xr.DataArray):
        digest.update(repr(obj.dims).encode())
        digest.update(repr(list(obj.coords['stats'].values)).encode())
        digest.update(repr(sorted(obj.attrs.items())).encode())
        digest.update(str(obj.dtype).encode() + repr(obj.shape).encode())
        digest.update(np.ascontiguousarray(obj.values).tobytes())
    else:
        raise TypeError(type(obj))


def same(a, b):
    a = np.asarray(a, dtype=np.float64)
    b = np.asarray(b, dtype=np.float64)
    return a.shape == b.shape and np.allclose(a, b, rtol=2e-5, atol=2e-5, equal_nan=True)


def oracle_table(zones, values, zone_ids, funcs, nodata):
    """Brute force: {zone id -> {stat -> value}} in ascending id order."""
    present = sorted(set(float(z) for z in zones.ravel() if np.isfinite(z)))
    if zone_ids is not None:
        wanted = set(float(z) for z in zone_ids)
        present = [z for z in present if z in wanted]
    table = []
    zf = zones.ravel()
    vf = values.ravel()
    for z in present:
        cells = []
        for k in range(zf.shape[0]):
            if not np.isfinite(zf[k]) or float(zf[k]) != z:
                continue
            v = vf[k]
            if not np.isfinite(v):
                continue
            if nodata is not None and v == nodata:
                continue
            cells.append(v)
        cells = np.array(cells, dtype=np.float64)  # bit-identity is covered by the digest
        row = {}
        for name, f in funcs.items():
            row[name] = float(f(cells)) if len(cells) else np.nan
        table.append((z, row))
    return table


def check_df(tag, df, zones, values, zone_ids, funcs, nodata):
    table = oracle_table(zones, values, zone_ids, funcs, nodata)
    if list(df.columns) != ['zone'] + list(funcs):
        failures.append((tag, 'columns', list(df.columns)))
        return
    if not same(df['zone'].to_numpy(), [z for z, _ in table]):
        failures.append((tag, 'zones', df['zone'].tolist()))
        return
    for name in funcs:
        if not same(df[name].to_numpy(), [row[name] for _, row in table]):
            failures.append((tag, name, df[name].tolist(), [row[name] for _, row in table]))


def check_xr(tag, arr, zones, values, zone_ids, funcs, nodata):
    table = oracle_table(zones, values, zone_ids, funcs, nodata)
    if arr.shape != (len(funcs),) + values.shape:
        failures.append((tag, 'shape', arr.shape))
        return
    for si, name in enumerate(funcs):
        expected = np.full(values.shape, np.nan)
        for z, row in table:
            expected[np.isfinite(zones) & (zones == z)] = row[name]
        if not same(arr.values[si], expected):
            failures.append((tag, 'xr-' + name))


def make_cases():
    rng = np.random.RandomState(20260)
    cases = []
    shapes = [(1, 1), (1, 7), (5, 3), (6, 8), (13, 11)]
    zone_kinds = ['int', 'negint', 'frac', 'fracnan']
    value_dtypes = [np.int32, np.int64, np.float32, np.float64]
    k = 0
    for shape in shapes:
        for zk in zone_kinds:
            vdt = value_dtypes[k % 4]
            k += 1
            n = shape[0] * shape[1]
            if zk == 'int':
                zones = rng.choice([0, 1, 2, 5, 9], size=n).astype(np.int64)
            elif zk == 'negint':
                zones = rng.choice([-7, -1, 0, 3, 40], size=n).astype(np.int32)
            elif zk == 'frac':
                zones = rng.choice([-2.5, -0.5, 0.0, 0.25, 3.0, 11.0], size=n).astype(np.float64)
            else:
                zones = rng.choice([-2.5, 0.0, 0.25, 3.0, 8.5], size=n).astype(np.float32)
                if n > 1:
                    bad = rng.rand(n) < 0.25
                    zones[bad] = rng.choice([np.nan, np.inf, -np.inf], size=int(bad.sum()))
            zones = zones.reshape(shape)
            if np.issubdtype(vdt, np.integer):
                values = rng.randint(-4, 9, size=n).astype(vdt)
            else:
                values = np.round(rng.randn(n) * 5, 1).astype(vdt)
                values[rng.rand(n) < 0.15] = 3.0
                values[rng.rand(n) < 0.15] = np.nan
                values[rng.rand(n) < 0.08] = np.inf
                values[rng.rand(n) < 0.05] = -np.inf
            values = values.reshape(shape)
            cases.append((f'{shape}-{zk}-{np.dtype(vdt).name}', zones, values))
    # a zone made only of invalid cells, and an all-NaN zones raster
    zones = np.array([[1., 1., 2.], [2., 3., 3.]])
    values = np.array([[np.nan, np.inf, 3.], [3., 4., 5.]])
    cases.append(('emptyzone', zones, values))
    cases.append(('allnanzones', np.full((3, 4), np.nan), np.arange(12.).reshape(3, 4)))
    return cases


def zone_id_variants(zones, rng):
    present = np.unique(zones[np.isfinite(zones)])
    out = [None]
    if len(present):
        pick = list(rng.permutation(present)[: max(1, len(present) // 2)])
        out.append([float(p) for p in pick] + [1234.0])     # any order + absent id
        out.append([int(present[-1])] if float(present[-1]).is_integer() else [float(present[-1])])
        out.append(list(present[::-1]))                     # numpy scalars, descending
    out.append([777])                                       # nothing present
    out.append([])
    return out


CUSTOM = {
    'double_sum': lambda v: v.sum() * 2,
    'range': lambda v: v.max() - v.min(),
    'n': lambda v: v.size,
    'first_sorted': lambda v: np.sort(v)[0],
}
CUSTOM_ORACLE = {
    'double_sum': lambda v: np.sum(v) * 2,
    'range': lambda v: np.max(v) - np.min(v),
    'n': len,
    'first_sorted': lambda v: sorted(v)[0],
}
STAT_SUBSETS = [ALL_STATS, ['count'], ['max', 'mean'], ['var', 'min', 'sum'], ['std']]


def run(tag, fn):
    try:
        res = fn()
    except Exception as e:  # recorded: the refactoring must raise the same type
        feed(tag, e)
        return None
    return res


def main():
    rng = np.random.RandomState(7)
    cases = make_cases()
    for ci, (name, zones, values) in enumerate(cases):
        zda = xr.DataArray(zones, dims=('y', 'x'))
        vda = xr.DataArray(values, dims=('y', 'x'), attrs={'res': 1, 'name': name},
                           coords={'y': np.arange(zones.shape[0])[::-1] * 2.0,
                                   'x': np.arange(zones.shape[1]) + 0.5})
        nodatas = [None, 3, 0, -1.5]
        for zi, zone_ids in enumerate(zone_id_variants(zones, rng)):
            nodata = nodatas[(ci + zi) % 4]
            subset = STAT_SUBSETS[(ci + zi) % len(STAT_SUBSETS)]
            funcs = {s: ORACLE_FUNCS[s] for s in subset}
            tag = f'{name}|ids{zi}|nd{nodata}|{",".join(subset)}'

            # numpy, DataFrame
            df = run(tag + '|np-df', lambda: stats(zda, vda, zone_ids=zone_ids, stats_funcs=subset,
                                                  nodata_values=nodata))
            if df is not None:
                feed(tag + '|np-df', df)
                check_df(tag + '|np-df', df, zones, values, zone_ids, funcs, nodata)

            # numpy, xarray.DataArray
            arr = run(tag + '|np-xr', lambda: stats(zda, vda, zone_ids=zone_ids, stats_funcs=subset,
                                                   nodata_values=nodata,
                                                   return_type='xarray.DataArray'))
            if arr is not None:
                feed(tag + '|np-xr', arr)
                check_xr(tag + '|np-xr', arr, zones, values, zone_ids, funcs, nodata)
                if arr.attrs != vda.attrs or arr.dims != ('stats', 'y', 'x'):
                    failures.append((tag, 'xr-meta'))

            # numpy, user reducers (both return types)
            df = run(tag + '|np-custom', lambda: stats(zda, vda, zone_ids=zone_ids,
                                                      stats_funcs=CUSTOM, nodata_values=nodata))
            if df is not None:
                feed(tag + '|np-custom', df)
                check_df(tag + '|np-custom', df, zones, values, zone_ids, CUSTOM_ORACLE, nodata)
            arr = run(tag + '|np-custom-xr', lambda: stats(zda, vda, zone_ids=zone_ids,
                                                          stats_funcs=CUSTOM, nodata_values=nodata,
                                                          return_type='xarray.DataArray'))
            if arr is not None:
                feed(tag + '|np-custom-xr', arr)
                check_xr(tag + '|np-custom-xr', arr, zones, values, zone_ids, CUSTOM_ORACLE,
                         nodata)

            # dask (kept to a subset of the zone_ids variants: row selection computes eagerly)
            if zi in (0, 1) and ci % 2 == 0:
                chunks = (max(1, zones.shape[0] // 2), max(1, zones.shape[1] // 3))
                zdd = xr.DataArray(da.from_array(zones, chunks=chunks), dims=('y', 'x'))
                vdd = xr.DataArray(da.from_array(values, chunks=chunks), dims=('y', 'x'))

                def dask_call():
                    r = stats(zdd, vdd, zone_ids=zone_ids, stats_funcs=subset,
                              nodata_values=nodata)
                    if isinstance(r, pd.DataFrame):
                        raise AssertionError('dask result is not lazy')
                    return r.compute()
                ddf = run(tag + '|dask', dask_call)
                if ddf is not None:
                    feed(tag + '|dask', ddf)
                    check_df(tag + '|dask', ddf, zones, values, zone_ids, funcs, nodata)

        # crosstab shares the sort/stride helpers with stats
        if np.isfinite(zones).any():
            ct = run(name + '|crosstab', lambda: crosstab(zda, vda, nodata_values=3))
            if ct is not None:
                feed(name + '|crosstab', ct)
            ct = run(name + '|crosstab-pct', lambda: crosstab(zda, vda, agg='percentage'))
            if ct is not None:
                feed(name + '|crosstab-pct', ct)

    got = digest.hexdigest()
    if '--record' in sys.argv:
        print(got)
        for f in failures[:10]:
            print('ORACLE FAILURE', f)
        return 1 if failures else 0
    ok = True
    if failures:
        ok = False
        print(f'{len(failures)} oracle mismatches, first:', failures[:5])
    if got != EXPECTED_DIGEST:
        ok = False
        print('digest differs from the one recorded on the unmodified tree:', got)
    print('OK' if ok else 'FAIL', '-', xrspatial.__file__)
    return 0 if ok else 1


if __name__ == '__main__':
    sys.exit(main())
