"""Mechanical behaviour-preserving variant of /repo: a local that is assigned once from a pure expression and read exactly
once, in the very next statement of the same block, is substituted into that statement and its assignment removed
(`t = a * b; out[i] = t + c` -> `out[i] = a * b + c`).  Evaluation order within the next statement is kept only when the
read is the first thing that statement evaluates that could matter: restricted to expressions made of names, constants,
attribute reads, subscript reads and arithmetic / comparisons (no calls), so order is immaterial.
usage: inlinelocals.py <dst>"""
import ast, copy, os, shutil, sys

SRC = os.environ.get('XRSA_REPO', '/repo')
dst = sys.argv[1]
if os.path.exists(dst):
    shutil.rmtree(dst)
shutil.copytree(os.path.join(SRC, 'xrspatial'), os.path.join(dst, 'xrspatial'), ignore=shutil.ignore_patterns('__pycache__'))
count = [0]


def simple(e):
    for x in ast.walk(e):
        if not isinstance(x, (ast.Name, ast.Constant, ast.Attribute, ast.Subscript, ast.BinOp, ast.UnaryOp, ast.Compare, ast.BoolOp, ast.Tuple,
                              ast.Load, ast.operator, ast.unaryop, ast.cmpop, ast.boolop, ast.Slice)):
            return False
    return True


class Sub(ast.NodeTransformer):
    def __init__(self, name, value):
        self.name, self.value, self.n = name, value, 0

    def visit_Name(self, n):
        if n.id == self.name and isinstance(n.ctx, ast.Load):
            self.n += 1
            return ast.copy_location(copy.deepcopy(self.value), n)
        return n


def uses(fnode, name):
    return sum(1 for x in ast.walk(fnode) if isinstance(x, ast.Name) and x.id == name)


def block(stmts, fnode):
    for s in stmts:
        for fld in ('body', 'orelse', 'finalbody'):
            sub = getattr(s, fld, None)
            if isinstance(sub, list) and sub and isinstance(sub[0], ast.stmt) and not isinstance(s, (ast.FunctionDef, ast.ClassDef)):
                setattr(s, fld, block(sub, fnode))
    out = []
    i = 0
    while i < len(stmts):
        s = stmts[i]
        nxt = stmts[i + 1] if i + 1 < len(stmts) else None
        if nxt is not None and isinstance(s, ast.Assign) and len(s.targets) == 1 and isinstance(s.targets[0], ast.Name) and simple(s.value) \
                and not isinstance(s.value, (ast.Constant, ast.Tuple)) and isinstance(nxt, (ast.Assign, ast.Return, ast.Expr, ast.AugAssign)):
            nm = s.targets[0].id
            # one definition, one read, both here; the read is in a simple statement (not a loop / if header)
            reads_next = sum(1 for x in ast.walk(nxt) if isinstance(x, ast.Name) and x.id == nm and isinstance(x.ctx, ast.Load))
            writes_next = sum(1 for x in ast.walk(nxt) if isinstance(x, ast.Name) and x.id == nm and isinstance(x.ctx, ast.Store))
            in_lambda = any(isinstance(x, (ast.Lambda, ast.ListComp, ast.GeneratorExp, ast.DictComp, ast.SetComp)) for x in ast.walk(nxt))
            if uses(fnode, nm) == 2 and reads_next == 1 and writes_next == 0 and not in_lambda:
                stmts[i + 1] = Sub(nm, s.value).visit(nxt)
                count[0] += 1
                i += 1
                continue
        out.append(s)
        i += 1
    return out


class T(ast.NodeTransformer):
    def visit_FunctionDef(self, n):
        self.generic_visit(n)
        n.body = block(n.body, n)
        return n


for root, dirs, files in os.walk(os.path.join(dst, 'xrspatial')):
    if os.sep + 'tests' in root:
        continue
    for fn_ in files:
        if fn_.endswith('.py'):
            p = os.path.join(root, fn_)
            tree = T().visit(ast.parse(open(p).read()))
            ast.fix_missing_locations(tree)
            open(p, 'w').write(ast.unparse(tree) + '\n')
print('inlined %d single-use locals' % count[0])
