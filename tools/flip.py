"""Mechanical behaviour-preserving variant of /repo: every two-branch `if c: A else: B` (not part of an elif chain) becomes
`if not c: B else: A`, and every single comparison `a < b` / `a <= b` / `a > b` / `a >= b` is written from the other side.
usage: flip.py <dst>"""
import ast, os, shutil, sys

SRC = os.environ.get('XRSA_REPO', '/repo')
dst = sys.argv[1]
if os.path.exists(dst):
    shutil.rmtree(dst)
shutil.copytree(os.path.join(SRC, 'xrspatial'), os.path.join(dst, 'xrspatial'), ignore=shutil.ignore_patterns('__pycache__'))
FLIP = {ast.Lt: ast.Gt, ast.Gt: ast.Lt, ast.LtE: ast.GtE, ast.GtE: ast.LtE}
n_if = n_cmp = 0


class T(ast.NodeTransformer):
    def visit_If(self, n):
        global n_if
        self.generic_visit(n)
        if n.orelse and not (len(n.orelse) == 1 and isinstance(n.orelse[0], ast.If)) and n.body:
            n.test = ast.UnaryOp(op=ast.Not(), operand=n.test)
            n.body, n.orelse = n.orelse, n.body
            n_if += 1
        return n

    def visit_Compare(self, n):
        global n_cmp
        self.generic_visit(n)
        if len(n.ops) == 1 and type(n.ops[0]) in FLIP:
            n.left, n.comparators = n.comparators[0], [n.left]
            n.ops = [FLIP[type(n.ops[0])]()]
            n_cmp += 1
        return n


for root, dirs, files in os.walk(os.path.join(dst, 'xrspatial')):
    if os.sep + 'tests' in root:
        continue
    for fn_ in files:
        if fn_.endswith('.py'):
            p = os.path.join(root, fn_)
            tree = T().visit(ast.parse(open(p).read()))
            ast.fix_missing_locations(tree)
            open(p, 'w').write(ast.unparse(tree) + '\n')
print('flipped %d if/else, %d comparisons' % (n_if, n_cmp))
