#!/bin/bash
# usage: mkvariant.sh <dir with patch.diff> <dst>: scratch copy of /repo's package with the patch applied (for debugging with XRSA_REPO=<dst>)
d="$1"; dst="$2"
rm -rf "$dst"; mkdir -p "$dst"
cp -r /repo/xrspatial "$dst/xrspatial"
find "$dst" -name __pycache__ -prune -exec rm -rf {} +
patch -p1 -s -d "$dst" -i "$d/patch.diff"
