#!/bin/bash
# usage: seedcheck.sh <patch.diff> <Cxx> : apply a seeded patch to /repo, run the quick check, undo the patch
set -u
patch="$1"; prop="$2"
cd /repo || exit 3
if ! git diff --quiet; then echo "/repo has uncommitted changes"; exit 3; fi
git apply "$patch" || { echo "patch does not apply"; exit 3; }
cd /verif && XRSA_EVIDENCE_DIR=/tmp/seedcheck-evidence /venv/bin/python -m xrsa.check "$prop" | grep -v "^  per rule" | cut -c1-260
rc=${PIPESTATUS[0]}
cd /repo && git checkout -- . 
rm -rf /tmp/seedcheck-evidence
echo "exit=$rc"
