"""Mechanical behaviour-preserving variant of /repo for robustness testing of the checkers: every local variable of every
function (not parameters, not names shared with nested scopes, not globals) gets a suffix, and every file is re-emitted by
ast.unparse (comments and layout lost, line numbers shifted).  usage: alpharename.py <dst> [suffix]"""
import ast, os, shutil, sys

SRC = os.environ.get('XRSA_REPO', '/repo')
dst = sys.argv[1]
suffix = sys.argv[2] if len(sys.argv) > 2 else '_q'


def own_nodes(fn):
    """nodes of fn's own scope: nested function / lambda / class bodies excluded (comprehensions included)"""
    out = []
    stack = list(fn.body) if not isinstance(fn, ast.Lambda) else [fn.body]
    while stack:
        n = stack.pop()
        out.append(n)
        for c in ast.iter_child_nodes(n):
            if isinstance(c, (ast.FunctionDef, ast.AsyncFunctionDef, ast.Lambda, ast.ClassDef)):
                out.append(c)      # the def itself (its name binding) belongs to this scope, its body does not
                # decorators and defaults are evaluated in this scope
                for d in getattr(c, 'decorator_list', []):
                    stack.append(d)
                continue
            stack.append(c)
    return out


def nested_scopes(fn):
    out = []
    for n in ast.walk(fn):
        if n is not fn and isinstance(n, (ast.FunctionDef, ast.AsyncFunctionDef, ast.Lambda, ast.ClassDef)):
            out.append(n)
    return out


def rename_function(fn):
    params = {a.arg for a in fn.args.args + fn.args.kwonlyargs + fn.args.posonlyargs}
    if fn.args.vararg:
        params.add(fn.args.vararg.arg)
    if fn.args.kwarg:
        params.add(fn.args.kwarg.arg)
    own = own_nodes(fn)
    stored = {n.id for n in own if isinstance(n, ast.Name) and isinstance(n.ctx, (ast.Store, ast.Del))}
    declared = set()
    for n in own:
        if isinstance(n, (ast.Global, ast.Nonlocal)):
            declared |= set(n.names)
    used_nested = set()
    for s in nested_scopes(fn):
        for n in ast.walk(s):
            if isinstance(n, ast.Name):
                used_nested.add(n.id)
            elif isinstance(n, (ast.Global, ast.Nonlocal)):
                used_nested |= set(n.names)
    # names bound by nested defs / imports / except handlers / with-as stay
    bound_other = set()
    for n in own:
        if isinstance(n, (ast.FunctionDef, ast.AsyncFunctionDef, ast.ClassDef)):
            bound_other.add(n.name)
        elif isinstance(n, (ast.Import, ast.ImportFrom)):
            for a in n.names:
                bound_other.add((a.asname or a.name).split('.')[0])
        elif isinstance(n, ast.ExceptHandler) and n.name:
            bound_other.add(n.name)
    cand = stored - params - declared - used_nested - bound_other
    cand = {c for c in cand if not c.startswith('__')}
    if not cand:
        return 0
    for n in own:
        if isinstance(n, ast.Name) and n.id in cand:
            n.id = n.id + suffix
    return len(cand)


total = 0
if os.path.exists(dst):
    shutil.rmtree(dst)
shutil.copytree(os.path.join(SRC, 'xrspatial'), os.path.join(dst, 'xrspatial'), ignore=shutil.ignore_patterns('__pycache__'))
for root, dirs, files in os.walk(os.path.join(dst, 'xrspatial')):
    if os.sep + 'tests' in root:
        continue
    for fn_ in files:
        if not fn_.endswith('.py'):
            continue
        p = os.path.join(root, fn_)
        src = open(p).read()
        tree = ast.parse(src)
        for n in ast.walk(tree):
            if isinstance(n, (ast.FunctionDef, ast.AsyncFunctionDef)):
                total += rename_function(n)
        open(p, 'w').write(ast.unparse(tree) + '\n')
print('renamed %d locals' % total)
