"""Mechanical behaviour-preserving variant of /repo: every `for i in range(...)` loop (1-3 arguments, a constant step) whose
variable is not used outside the loop, that has no `else` and no `continue` of its own, becomes the counted `while` it
abbreviates (`i = a; while i < b: BODY; i += c`).  Tests normal form N3 on every kernel.  usage: whileloops.py <dst>"""
import ast, os, shutil, sys

SRC = os.environ.get('XRSA_REPO', '/repo')
dst = sys.argv[1]
count = 0


def own_level(body):
    out, stack = [], list(body)
    while stack:
        n = stack.pop()
        out.append(n)
        if isinstance(n, (ast.For, ast.While, ast.FunctionDef, ast.AsyncFunctionDef, ast.Lambda, ast.ClassDef)):
            continue
        stack.extend(ast.iter_child_nodes(n))
    return out


def convert(fn):
    global count
    names_outside = {}

    def loads_outside(loop, name):
        inside = {id(x) for x in ast.walk(loop)}
        return any(isinstance(x, ast.Name) and x.id == name and id(x) not in inside for x in ast.walk(fn))

    def rewrite(stmts):
        global count
        k = 0
        while k < len(stmts):
            s = stmts[k]
            for fld in ('body', 'orelse', 'finalbody'):
                sub = getattr(s, fld, None)
                if isinstance(sub, list) and sub and isinstance(sub[0], ast.stmt):
                    rewrite(sub)
            for h in getattr(s, 'handlers', []) or []:
                rewrite(h.body)
            if isinstance(s, ast.For) and not s.orelse and isinstance(s.target, ast.Name) and isinstance(s.iter, ast.Call) and \
                    isinstance(s.iter.func, ast.Name) and s.iter.func.id == 'range' and 1 <= len(s.iter.args) <= 3 and not s.iter.keywords and \
                    not any(isinstance(x, ast.Continue) for x in own_level(s.body)) and not loads_outside(s, s.target.id) and \
                    not any(isinstance(x, ast.Name) and x.id == s.target.id and isinstance(x.ctx, ast.Store) for b in s.body for x in ast.walk(b)):
                a = s.iter.args
                lo, hi = (ast.Constant(value=0), a[0]) if len(a) == 1 else (a[0], a[1])
                step = 1
                if len(a) == 3:
                    st = a[2]
                    if isinstance(st, ast.UnaryOp) and isinstance(st.op, ast.USub) and isinstance(st.operand, ast.Constant):
                        step = -st.operand.value
                    elif isinstance(st, ast.Constant) and isinstance(st.value, int):
                        step = st.value
                    else:
                        step = None
                # the bound must be a simple expression of names / constants that the body does not assign
                simple = all(isinstance(x, (ast.Name, ast.Constant, ast.BinOp, ast.Add, ast.Sub, ast.Mult, ast.Load, ast.UnaryOp, ast.USub, ast.Call, ast.Attribute, ast.Subscript))
                             for x in ast.walk(hi)) and not any(isinstance(x, ast.Call) and not (isinstance(x.func, ast.Name) and x.func.id == 'len') for x in ast.walk(hi))
                hreads = {x.id for x in ast.walk(hi) if isinstance(x, ast.Name)}
                assigned = {x.id for b in s.body for x in ast.walk(b) if isinstance(x, ast.Name) and isinstance(x.ctx, ast.Store)}
                if step and simple and not (hreads & assigned) and not any(isinstance(x, (ast.Subscript, ast.Attribute)) for x in ast.walk(hi) if isinstance(x, ast.Subscript)):
                    i = s.target.id
                    init = ast.Assign(targets=[ast.Name(id=i, ctx=ast.Store())], value=lo)
                    test = ast.Compare(left=ast.Name(id=i, ctx=ast.Load()), ops=[ast.Lt() if step > 0 else ast.Gt()], comparators=[hi])
                    inc = ast.AugAssign(target=ast.Name(id=i, ctx=ast.Store()), op=ast.Add() if step > 0 else ast.Sub(), value=ast.Constant(value=abs(step)))
                    w = ast.While(test=test, body=list(s.body) + [inc], orelse=[])
                    stmts[k:k + 1] = [ast.copy_location(init, s), ast.copy_location(w, s)]
                    count += 1
                    k += 1
            k += 1
    rewrite(fn.body)


if os.path.exists(dst):
    shutil.rmtree(dst)
shutil.copytree(SRC, dst, ignore=shutil.ignore_patterns('.git', '__pycache__', '*.pyc', '.pytest_cache'))
for root, dirs, files in os.walk(os.path.join(dst, 'xrspatial')):
    if 'tests' in root.split(os.sep) or 'datasets' in root.split(os.sep) or 'gpu_rtx' in root.split(os.sep):
        continue
    for fn in files:
        if not fn.endswith('.py'):
            continue
        p = os.path.join(root, fn)
        tree = ast.parse(open(p).read())
        for node in ast.walk(tree):
            if isinstance(node, (ast.FunctionDef, ast.AsyncFunctionDef)):
                # cuda kernels are left alone
                if any('cuda' in ast.dump(d) for d in node.decorator_list):
                    continue
                convert(node)
        ast.fix_missing_locations(tree)
        open(p, 'w').write(ast.unparse(tree) + '\n')
print('whileloops: %d loops rewritten' % count)
