"""print every obligation of one property's check (debug aid): python tools/obs.py C15 [rule]"""
import os, sys
if os.environ.get('PYTHONHASHSEED') != '0':
    os.environ['PYTHONHASHSEED'] = '0'
    os.execv(sys.executable, [sys.executable] + sys.argv)
sys.path.insert(0, os.path.dirname(os.path.dirname(os.path.abspath(__file__))))
import importlib
from xrsa.program import Program
from xrsa.report import Report
prop = sys.argv[1]
rule = sys.argv[2] if len(sys.argv) > 2 else None
prog = Program(os.environ.get('XRSA_REPO', '/repo'))
rep = Report(prop)
importlib.import_module('xrsa.props.' + prop).check(prog, rep)
for ob in rep.obs:
    if rule is None or ob.rule.startswith(rule):
        print('%-10s %-10s %s:%s  %s\n             -> %s' % (ob.rule, ob.status, ob.module, ob.line, ob.site[:150], ob.why[:400]))
