#!/bin/bash
# usage: twinverify.sh <twin dir> <pytest targets...> : confirm a behaviour-preserving refactoring in a scratch worktree:
# equiv.py passes without and with the patch, and the named tests give the same summary line with it.
d="$1"; shift
wt=$(mktemp -d /tmp/twinverify-XXXX)
git -C /repo worktree add -q --detach "$wt" HEAD || exit 3
cd "$wt"
PYTHONPATH="$wt" /venv/bin/python "$d/equiv.py" >/dev/null 2>&1; a=$?
git apply "$d/patch.diff" || { echo "patch does not apply"; }
PYTHONPATH="$wt" /venv/bin/python "$d/equiv.py" >/dev/null 2>&1; b=$?
t=$(PYTHONPATH="$wt" /venv/bin/python -m pytest -q -p no:cacheprovider "$@" 2>&1 | tail -1)
cd /; git -C /repo worktree remove --force "$wt"; rm -rf "$wt"
echo "$(basename $d) equiv_without_patch_exit=$a equiv_with_patch_exit=$b tests: $t"
