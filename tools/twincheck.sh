#!/bin/bash
# usage: twincheck.sh <dir with patch.diff> <Cxx>: apply a behaviour-preserving patch to /repo, run the check, revert
d="$1"; prop="$2"
cd /repo || exit 3
git diff --quiet || { echo "/repo dirty"; exit 3; }
git apply "$d/patch.diff" || { echo "patch does not apply"; exit 3; }
cd /verif && XRSA_EVIDENCE_DIR=/tmp/twincheck-ev /venv/bin/python -m xrsa.check "$prop" > /tmp/twincheck.out 2>&1
rc=$?
cd /repo && git checkout -- . && git clean -fdq xrspatial
rm -rf /tmp/twincheck-ev
echo "$(basename $d) $prop exit=$rc"
if [ $rc -ne 0 ]; then grep -A3 "VIOLATION\|INCOMPLETE\|ERROR" /tmp/twincheck.out | grep -v "^--" | cut -c1-230 | head -${3:-14}; fi
