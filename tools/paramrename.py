"""Mechanical behaviour-preserving variant of /repo: the parameters of module-level private functions are renamed
(only parameters whose name is never used as a keyword-argument name anywhere in the package, so every call keeps working).
usage: paramrename.py <dst> [suffix]"""
import ast, os, shutil, sys

SRC = os.environ.get('XRSA_REPO', '/repo')
dst = sys.argv[1]
suffix = sys.argv[2] if len(sys.argv) > 2 else '_p'
if os.path.exists(dst):
    shutil.rmtree(dst)
shutil.copytree(os.path.join(SRC, 'xrspatial'), os.path.join(dst, 'xrspatial'), ignore=shutil.ignore_patterns('__pycache__'))
files = []
for root, dirs, fs in os.walk(os.path.join(dst, 'xrspatial')):
    if os.sep + 'tests' in root:
        continue
    files += [os.path.join(root, f) for f in fs if f.endswith('.py')]
trees = {p: ast.parse(open(p).read()) for p in files}
kwnames = set()
for t in trees.values():
    for n in ast.walk(t):
        if isinstance(n, ast.Call):
            kwnames |= {k.arg for k in n.keywords if k.arg}
        if isinstance(n, ast.Dict):
            kwnames |= {k.value for k in n.keys if isinstance(k, ast.Constant) and isinstance(k.value, str)}
total = 0
for p, tree in trees.items():
    for fn in tree.body:
        if not (isinstance(fn, ast.FunctionDef) and fn.name.startswith('_')):
            continue
        deco = ' '.join(ast.unparse(d) for d in fn.decorator_list)
        if 'cuda' in deco or 'gpu' in fn.name:
            continue
        params = [a.arg for a in fn.args.args + fn.args.kwonlyargs]
        nested = [n for n in ast.walk(fn) if n is not fn and isinstance(n, (ast.FunctionDef, ast.Lambda))]
        shadow = set()
        for n in nested:
            shadow |= {a.arg for a in n.args.args + n.args.kwonlyargs}
        for prm in params:
            if prm in kwnames or prm in shadow or prm + suffix in {x.id for x in ast.walk(fn) if isinstance(x, ast.Name)}:
                continue
            for n in ast.walk(fn):
                if isinstance(n, ast.Name) and n.id == prm:
                    n.id = prm + suffix
                elif isinstance(n, ast.arg) and n.arg == prm and n in fn.args.args + fn.args.kwonlyargs:
                    n.arg = prm + suffix
            total += 1
    open(p, 'w').write(ast.unparse(tree) + '\n')
print('renamed %d parameters' % total)
