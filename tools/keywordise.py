"""Mechanical behaviour-preserving variant of /repo: calls of module-level private functions of the same module pass
their arguments by keyword (after the first one, which stays positional) instead of by position.
usage: keywordise.py <dst>"""
import ast, os, shutil, sys

SRC = os.environ.get('XRSA_REPO', '/repo')
dst = sys.argv[1]
if os.path.exists(dst):
    shutil.rmtree(dst)
shutil.copytree(os.path.join(SRC, 'xrspatial'), os.path.join(dst, 'xrspatial'), ignore=shutil.ignore_patterns('__pycache__'))
total = 0
for root, dirs, files in os.walk(os.path.join(dst, 'xrspatial')):
    if os.sep + 'tests' in root:
        continue
    for fn_ in files:
        if not fn_.endswith('.py'):
            continue
        p = os.path.join(root, fn_)
        tree = ast.parse(open(p).read())
        defs = {}
        for n in tree.body:
            if isinstance(n, ast.FunctionDef) and n.name.startswith('_') and not n.args.vararg and not n.args.kwarg and \
                    not n.args.posonlyargs:
                deco = ' '.join(ast.unparse(d) for d in n.decorator_list)
                if 'cuda' in deco or 'delayed' in deco or 'gpu' in n.name or 'cuda' in n.name:
                    continue
                defs[n.name] = [a.arg for a in n.args.args]
        # names rebound anywhere in the module (assignments, parameters, nested defs) are not safe to resolve by name
        rebound = set()
        for n in ast.walk(tree):
            if isinstance(n, ast.Name) and isinstance(n.ctx, ast.Store):
                rebound.add(n.id)
            elif isinstance(n, ast.arg):
                rebound.add(n.arg)
            elif isinstance(n, ast.FunctionDef) and n not in tree.body:
                rebound.add(n.name)
        for n in ast.walk(tree):
            if isinstance(n, ast.Call) and isinstance(n.func, ast.Name) and n.func.id in defs and n.func.id not in rebound and \
                    not any(isinstance(a, ast.Starred) for a in n.args) and not any(k.arg is None for k in n.keywords):
                params = defs[n.func.id]
                if len(n.args) > len(params) or len(n.args) < 2:
                    continue
                keep = n.args[:1]
                newkw = [ast.keyword(arg=params[i], value=a) for i, a in enumerate(n.args) if i >= 1]
                n.args = keep
                n.keywords = newkw + n.keywords
                total += 1
        open(p, 'w').write(ast.unparse(tree) + '\n')
print('keywordised %d calls' % total)
