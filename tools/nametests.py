"""Mechanical behaviour-preserving variant of /repo: inside every function, the test of every `if` statement that is not
already a plain name becomes a local boolean assigned just before it (`if a < b and c:` -> `_t7 = a < b and c; if _t7:`).
The test is evaluated at the same point, once, with the same short-circuiting; an `elif` becomes `else:` + the pair.
Tests with `is` / `is not` are left alone (numba prunes branches on the literal `x is None` pattern).
usage: nametests.py <dst>"""
import ast, os, shutil, sys

SRC = os.environ.get('XRSA_REPO', '/repo')
dst = sys.argv[1]
if os.path.exists(dst):
    shutil.rmtree(dst)
shutil.copytree(os.path.join(SRC, 'xrspatial'), os.path.join(dst, 'xrspatial'), ignore=shutil.ignore_patterns('__pycache__'))
count = [0]


def eligible(t):
    if isinstance(t, (ast.Name, ast.Constant)):
        return False
    for x in ast.walk(t):
        if isinstance(x, (ast.NamedExpr, ast.Await, ast.Yield, ast.YieldFrom, ast.Lambda)):
            return False
        if isinstance(x, ast.Compare) and any(isinstance(o, (ast.Is, ast.IsNot)) for o in x.ops):
            return False
        if isinstance(x, ast.Call) and isinstance(x.func, ast.Name) and x.func.id == 'isinstance':
            return False
    return True


def block(stmts):
    out = []
    for s in stmts:
        for fld in ('body', 'orelse', 'finalbody'):
            sub = getattr(s, fld, None)
            if isinstance(sub, list) and sub and isinstance(sub[0], ast.stmt) and not isinstance(s, (ast.FunctionDef, ast.ClassDef)):
                setattr(s, fld, block(sub))
        if isinstance(s, ast.Try):
            for h in s.handlers:
                h.body = block(h.body)
        if isinstance(s, ast.If) and eligible(s.test):
            count[0] += 1
            nm = '_t%d' % count[0]
            out.append(ast.Assign(targets=[ast.Name(id=nm, ctx=ast.Store())], value=s.test))
            s.test = ast.Name(id=nm, ctx=ast.Load())
        out.append(s)
    return out


class T(ast.NodeTransformer):
    def visit_FunctionDef(self, n):
        self.generic_visit(n)
        n.body = block(n.body)
        return n


for root, dirs, files in os.walk(os.path.join(dst, 'xrspatial')):
    if os.sep + 'tests' in root:
        continue
    for fn_ in files:
        if fn_.endswith('.py'):
            p = os.path.join(root, fn_)
            tree = T().visit(ast.parse(open(p).read()))
            ast.fix_missing_locations(tree)
            open(p, 'w').write(ast.unparse(tree) + '\n')
print('named %d tests' % count[0])
