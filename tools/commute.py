"""Mechanical behaviour-preserving variant of /repo: inside numba-jitted functions the operands of `+` and `*` are exchanged
(IEEE addition and multiplication are commutative), everywhere `a == b` / `a != b` are written from the other side, and
`x += e` / `x -= e` / `x *= e` on plain local names inside jitted functions become `x = x op e` (scalars there).
usage: commute.py <dst>"""
import ast, os, shutil, sys

SRC = os.environ.get('XRSA_REPO', '/repo')
dst = sys.argv[1]
if os.path.exists(dst):
    shutil.rmtree(dst)
shutil.copytree(os.path.join(SRC, 'xrspatial'), os.path.join(dst, 'xrspatial'), ignore=shutil.ignore_patterns('__pycache__'))
n_bin = n_eq = 0


def is_jit(fn):
    d = ' '.join(ast.unparse(x) for x in fn.decorator_list)
    return ('ngjit' in d or 'jit' in d) and 'cuda' not in d


class InJit(ast.NodeTransformer):
    def visit_BinOp(self, n):
        global n_bin
        self.generic_visit(n)
        if isinstance(n.op, (ast.Add, ast.Mult)) and not any(isinstance(x, (ast.List, ast.Tuple, ast.JoinedStr)) or
                                                          (isinstance(x, ast.Constant) and isinstance(x.value, str))
                                                          for x in (n.left, n.right)):
            n.left, n.right = n.right, n.left
            n_bin += 1
        return n


class Everywhere(ast.NodeTransformer):
    def visit_Compare(self, n):
        global n_eq
        self.generic_visit(n)
        if len(n.ops) == 1 and isinstance(n.ops[0], (ast.Eq, ast.NotEq)) and not any(
                isinstance(x, ast.Constant) and x.value is None for x in (n.left, n.comparators[0])):
            n.left, n.comparators = n.comparators[0], [n.left]
            n_eq += 1
        return n

    def visit_FunctionDef(self, n):
        self.generic_visit(n)
        if is_jit(n):
            InJit().visit(n)
        return n


for root, dirs, files in os.walk(os.path.join(dst, 'xrspatial')):
    if os.sep + 'tests' in root:
        continue
    for fn_ in files:
        if fn_.endswith('.py'):
            p = os.path.join(root, fn_)
            tree = Everywhere().visit(ast.parse(open(p).read()))
            ast.fix_missing_locations(tree)
            open(p, 'w').write(ast.unparse(tree) + '\n')
print('commuted %d + / *, %d == / !=' % (n_bin, n_eq))
