"""Run every property's quick check against every patch under a directory (seeded/ or twin dirs), in scratch copies.
usage: python tools/crosscheck.py <dir-with-subdirs-containing-patch.diff> [name filters]   (XRSA_PROPS=C05,C07 restricts the checks run)"""
import os, shutil, subprocess, sys, tempfile, glob, json
from concurrent.futures import ThreadPoolExecutor
VERIF = os.path.dirname(os.path.dirname(os.path.abspath(__file__)))
PROPS = [p for p in ['C%02d' % i for i in range(1, 20)] if not os.environ.get('XRSA_PROPS') or p in os.environ['XRSA_PROPS'].split(',')]

def run(args):
    d, prop, root = args
    name = os.path.basename(d)
    dst = os.path.join(root, name + '-' + prop)
    os.makedirs(dst)
    shutil.copytree('/repo/xrspatial', os.path.join(dst, 'xrspatial'), ignore=shutil.ignore_patterns('__pycache__', '*.pyc', 'datasets'))
    r = subprocess.run(['git', 'apply', '--unsafe-paths', '--directory=' + dst, os.path.join(d, 'patch.diff')], cwd='/', capture_output=True, text=True)
    if r.returncode != 0:
        r = subprocess.run(['patch', '-p1', '-s', '-d', dst, '-i', os.path.join(d, 'patch.diff')], capture_output=True, text=True)
        if r.returncode != 0:
            shutil.rmtree(dst); return name, prop, 'APPLY-FAIL', ''
    env = dict(os.environ, XRSA_REPO=dst, XRSA_EVIDENCE_DIR=os.path.join(dst, 'ev'), PYTHONPATH=VERIF)
    r = subprocess.run([sys.executable, '-m', 'xrsa.check', prop], cwd=VERIF, env=env, capture_output=True, text=True)
    out = r.stdout
    shutil.rmtree(dst, ignore_errors=True)
    rules = sorted({ln.split('rule=')[1].split()[0] for ln in out.splitlines() if 'rule=' in ln and ' in ' in ln})
    inc = [ln[:150] for ln in out.splitlines() if ln.startswith('ANALYSIS')][:2]
    return name, prop, r.returncode, (rules if r.returncode == 1 else inc)

def main():
    base = sys.argv[1]
    dirs = sorted(d for d in glob.glob(os.path.join(base, '*')) if os.path.exists(os.path.join(d, 'patch.diff')))
    if len(sys.argv) > 2:
        dirs = [d for d in dirs if any(s in os.path.basename(d) for s in sys.argv[2:])]
    root = tempfile.mkdtemp(prefix='xrsa-cross-')
    jobs = [(d, p, root) for d in dirs for p in PROPS]
    res = {}
    with ThreadPoolExecutor(16) as ex:
        for name, prop, rc, info in ex.map(run, jobs):
            res.setdefault(name, {})[prop] = (rc, info)
    shutil.rmtree(root, ignore_errors=True)
    for name in sorted(res):
        bad = {p: v for p, v in res[name].items() if v[0] != 0}
        print(name, ' '.join('%s=%s%s' % (p, v[0], v[1]) for p, v in sorted(bad.items())) or 'all silent')

if __name__ == '__main__':
    main()
