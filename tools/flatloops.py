"""Mechanical behaviour-preserving variant of /repo: every perfectly nested pair `for y in range(R): for x in range(C): BODY`
(both from 0, step 1, R and C plain names or constants that BODY does not assign, no `break` of the inner loop, no `else`,
the two variables not used outside) becomes one loop over a flat cell index, `for k in range(R * C): y = k // C; x = k % C;
BODY`.  Tests normal form N4 on every kernel.  usage: flatloops.py <dst>"""
import ast, os, shutil, sys

SRC = os.environ.get('XRSA_REPO', '/repo')
dst = sys.argv[1]
count = 0


def own_level(body):
    out, stack = [], list(body)
    while stack:
        n = stack.pop()
        out.append(n)
        if isinstance(n, (ast.For, ast.While, ast.FunctionDef, ast.AsyncFunctionDef, ast.Lambda, ast.ClassDef)):
            continue
        stack.extend(ast.iter_child_nodes(n))
    return out


def zero_range(it):
    """the extent E when `it` is range(E) / range(0, E) with E a name or an int constant"""
    if not (isinstance(it, ast.Call) and isinstance(it.func, ast.Name) and it.func.id == 'range' and not it.keywords):
        return None
    a = it.args
    if len(a) == 2 and isinstance(a[0], ast.Constant) and a[0].value == 0:
        a = a[1:]
    if len(a) == 1 and isinstance(a[0], (ast.Name, ast.Constant)):
        return a[0]
    return None


def convert(fn):
    global count
    taken = {x.id for x in ast.walk(fn) if isinstance(x, ast.Name)} | {a.arg for a in fn.args.args}

    def loads_outside(loop, name):
        inside = {id(x) for x in ast.walk(loop)}
        return any(isinstance(x, ast.Name) and x.id == name and id(x) not in inside for x in ast.walk(fn))

    def rewrite(stmts):
        global count
        for k, s in enumerate(stmts):
            for fld in ('body', 'orelse', 'finalbody'):
                sub = getattr(s, fld, None)
                if isinstance(sub, list) and sub and isinstance(sub[0], ast.stmt):
                    rewrite(sub)
            if not (isinstance(s, ast.For) and not s.orelse and isinstance(s.target, ast.Name) and len(s.body) == 1 and isinstance(s.body[0], ast.For)):
                continue
            inner = s.body[0]
            R, C = zero_range(s.iter), zero_range(inner.iter)
            if R is None or C is None or inner.orelse or not isinstance(inner.target, ast.Name) or inner.target.id == s.target.id:
                continue
            y, x = s.target.id, inner.target.id
            body = inner.body
            allin = [n for b in body for n in ast.walk(b)]
            if any(isinstance(n, ast.Break) for n in own_level(body)):
                continue
            ext = {n.id for e in (R, C) for n in ast.walk(e) if isinstance(n, ast.Name)}
            if any(isinstance(n, ast.Name) and n.id in ext | {y, x} and isinstance(n.ctx, ast.Store) for n in allin):
                continue
            if loads_outside(s, y) or loads_outside(s, x):
                continue
            kname = '_cell'
            while kname in taken:
                kname += '_'
            taken.add(kname)
            prod = ast.BinOp(left=R, op=ast.Mult(), right=C)
            new = ast.For(target=ast.Name(id=kname, ctx=ast.Store()),
                          iter=ast.Call(func=ast.Name(id='range', ctx=ast.Load()), args=[prod], keywords=[]),
                          body=[ast.Assign(targets=[ast.Name(id=y, ctx=ast.Store())], value=ast.BinOp(left=ast.Name(id=kname, ctx=ast.Load()), op=ast.FloorDiv(), right=C)),
                                ast.Assign(targets=[ast.Name(id=x, ctx=ast.Store())], value=ast.BinOp(left=ast.Name(id=kname, ctx=ast.Load()), op=ast.Mod(), right=C))] + list(body),
                          orelse=[], type_comment=None)
            stmts[k] = ast.copy_location(new, s)
            count += 1
    rewrite(fn.body)


if os.path.exists(dst):
    shutil.rmtree(dst)
shutil.copytree(SRC, dst, ignore=shutil.ignore_patterns('.git', '__pycache__', '*.pyc', '.pytest_cache'))
for root, dirs, files in os.walk(os.path.join(dst, 'xrspatial')):
    if 'tests' in root.split(os.sep) or 'datasets' in root.split(os.sep) or 'gpu_rtx' in root.split(os.sep):
        continue
    for fn in files:
        if not fn.endswith('.py'):
            continue
        p = os.path.join(root, fn)
        tree = ast.parse(open(p).read())
        for node in ast.walk(tree):
            if isinstance(node, (ast.FunctionDef, ast.AsyncFunctionDef)):
                if any('cuda' in ast.dump(d) for d in node.decorator_list):
                    continue
                convert(node)
        ast.fix_missing_locations(tree)
        open(p, 'w').write(ast.unparse(tree) + '\n')
print('flatloops: %d loop nests rewritten' % count)
