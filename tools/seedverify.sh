#!/bin/bash
# usage: seedverify.sh <seed dir> <pytest targets...> : confirm a seeded change in a scratch worktree:
# demo passes without the patch, fails with it, and the named tests pass with it.
d="$1"; shift
wt=$(mktemp -d /tmp/seedverify-XXXX)
git -C /repo worktree add -q --detach "$wt" HEAD || exit 3
cd "$wt"
PYTHONPATH="$wt" /venv/bin/python "$d/demo.py" >/dev/null 2>&1; a=$?
git apply "$d/patch.diff" || { echo "patch does not apply"; }
PYTHONPATH="$wt" /venv/bin/python "$d/demo.py" >/dev/null 2>&1; b=$?
t=$(PYTHONPATH="$wt" /venv/bin/python -m pytest -q -p no:cacheprovider "$@" 2>&1 | tail -1)
cd /; git -C /repo worktree remove --force "$wt"
echo "demo_without_patch_exit=$a demo_with_patch_exit=$b tests: $t"
