"""C16 - regions labels are exactly the connected components of equal value.

Premises of the paper argument (notes/engine_sketches.md), decided on the labelling kernel reached from zonal.regions.
All of R1-R3 are decided on the kernel's abstract interpretation (stores, loop-carried updates, break paths), not on
its text, by exact evaluation over finite decision tables:
R1 both passes visit every cell; the neighbour windows are the von Neumann / Moore offsets clamped to the cell's OWN
axis extent, value window and label window use the same offset per slot, both passes use the same tables;
R2 pass 1: NaN cells copied through; a cell takes the label of the first labelled (> 0) matching neighbour, else a fresh
id from a counter that starts at 1 and advances exactly when used;
R3 pass 2: for every matching neighbour (no early exit) with a label different from the running one, the larger label
is replaced by the smaller over the WHOLE raster and the running label becomes the smaller;
Q1 the running label counter is stored only in arrays of a fixed wide dtype; Q2 value matching is exact equality on
the integer-typed path (an equivalence relation), tolerance arithmetic only on the float path.
"""
import ast
from fractions import Fraction

from ..astutil import calls, const, kw, parent_map, short
from ..kai import cmp_cond, cond_repr, flatten_and, interpret
from ..kutil import CannotEvaluate, eval_cond_full, evaluate, guard_atoms, returned_arrays, show
from ..program import AnalysisIncomplete, Func, norm
from ..sym import App, Rat, Sym, subst, walk_atoms

MOORE = {(-1, -1), (0, -1), (1, -1), (-1, 0), (1, 0), (-1, 1), (0, 1), (1, 1)}
NEUMANN = {(0, -1), (-1, 0), (1, 0), (0, 1)}
WIDE_OK = ('np.float64', 'np.int64', 'np.uint64', 'float', 'numpy.float64', 'numpy.int64', "'f8'", "'i8'")
OWN = Fraction(999983)       # stands for the value of the centre cell (whatever it is)
NONE = App('none', [])
from ..kutil import NONE_VALUE as NONE_NUM      # noqa: E402


def F(x):
    return Fraction(x)


def _atoms(*things):
    s = set()
    for t in things:
        if isinstance(t, Rat):
            walk_atoms(t, s)
        elif isinstance(t, tuple):
            guard_atoms([t], s) if False else s.update(guard_atoms([t]))
    return s


def _all_true(guards, env):
    return all(eval_cond_full(g, env) for g in guards)


def _is_full_range(L, hi_atom, also=()):
    his = [Rat.atom(hi_atom)] + [Rat.atom(a) for a in also]
    return L.kind in ('range', 'prange') and L.lo == Rat.const(0) and L.hi in his and L.step == Rat.const(1)


class Ctx:
    pass


class BadSweep(Exception):
    pass


def check(prog, rep):
    m = prog.module('zonal')
    pub = m.funcs.get('regions')
    if pub is None:
        raise AnalysisIncomplete('zonal.regions not found')
    # the labelling kernel call, as wrapper terms (through helpers, positional or keyword arguments)
    from ..wterm import WT
    wt = WT(prog)
    wret = wt.run(pub)
    kcs = [x for x in wt.calls if isinstance(x.callee, Func) and x.callee.jit is not None]
    if len(kcs) == 2 and kcs[0].callee is kcs[1].callee and kcs[0].bound and set(kcs[0].bound) == set(kcs[1].bound):
        # the kernel called once per case with a constant flag (`k(data, n, True)` for integer rasters, `k(data, n, False)`
        # otherwise) is one call whose flag is the case condition
        from ..wterm import key as _tk, neg as _neg
        a_, b_ = kcs
        diff = [p_ for p_ in a_.bound if _tk(a_.bound[p_]) != _tk(b_.bound[p_])]
        ga = [g_ for g_ in a_.guards if _tk(g_) not in {_tk(x_) for x_ in b_.guards}]
        gb = [g_ for g_ in b_.guards if _tk(g_) not in {_tk(x_) for x_ in a_.guards}]
        if len(diff) == 1 and len(ga) == 1 and len(gb) == 1 and _tk(_neg(ga[0])) == _tk(gb[0]) and \
                {a_.bound[diff[0]], b_.bound[diff[0]]} == {('const', True), ('const', False)}:
            cond_ = ga[0] if a_.bound[diff[0]] == ('const', True) else gb[0]
            a_.bound = dict(a_.bound)
            a_.bound[diff[0]] = cond_
            kcs = [a_]
    if len(kcs) != 1:
        raise AnalysisIncomplete('regions: labelling kernel call not found (%d jitted callees)' % len(kcs))
    kc = kcs[0]
    call, f = kc.node, kc.callee
    entry = 'regions'
    # neighbour offsets held in module-level constant tables and walked by a loop (N6, tableview.py) are read as the
    # statements they abbreviate: one window store per slot
    from ..tableview import unroll_constant_tables
    f = unroll_constant_tables(prog, f)
    try:
        # a relabelling loop moved into a helper, or the two passes split into two kernels, read as written in place
        k = interpret(prog, f, strict=False, inline_procedures=True, inline_all=lambda g_: g_.jit is not None and prog.same_unit(f.module, g_.module))
    except AnalysisIncomplete as e:
        # labels written through `x = out.ravel()` / `out.reshape(-1)`: a view only when `out` is C-contiguous.  An array
        # allocated like the input (zeros_like / empty_like ...) follows the input's layout: for a column-major raster the
        # flat alias is a copy and every store through it is lost.
        from ..sharedrules import flat_alias_of_like
        for x, alias, base, node, like in flat_alias_of_like(f, prog):
            rep.add('Q3', f, 'regions', '%s = %s; %s[..] = ...' % (alias, norm(node.value), alias), x.lineno, False,
                    'labels are written through a flattened alias of `%s`, which is allocated like the input raster (%s): for a '
                    'column-major raster the alias is a copy and the relabelling is lost' % (base, norm(like) if like is not None else 'flatten() always copies'))
            return
        raise e
    outs = returned_arrays(k)
    if len(outs) != 1:
        raise AnalysisIncomplete('regions kernel: expected exactly one returned label array')
    c = Ctx()
    c.rep, c.f, c.entry, c.k = rep, f, entry, k
    c.out = outs[0]
    # parameter roles from what the wrapper passes: the raster's data, and the caller's neighbourhood size
    datap = [p for p, t in kc.bound.items() if t == ('data', ('param', pub.params[0]))]
    npar = [p for p, t in kc.bound.items() if t[0] == 'param' and t[1] != pub.params[0]]
    if not datap:
        # the kernel does not get the raster as given: is what it gets the raster pushed through a value-changing function?
        from ..wterm import show as _tshow, walk as _twalk
        CHANGERS = ('nan_to_num', 'clip', 'round', 'around', 'rint', 'abs', 'absolute', 'trunc', 'floor', 'ceil', 'fillna')
        rd_ = ('data', ('param', pub.params[0]))
        for p_, t_ in kc.bound.items():
            hits = [x for x in _twalk(t_) if isinstance(x, tuple) and len(x) >= 3 and x[0] == 'call' and
                    str(x[1] if not isinstance(x[1], tuple) else x[1][-1]).split('.')[-1] in CHANGERS and
                    any(y == rd_ for y in _twalk(x))]
            if hits:
                rep.add('Q2', pub, entry, 'labelling kernel receives %s' % _tshow(t_, 100), call.lineno, False,
                        'the cells are compared as they are: the kernel must get the raster\'s own values, not %s of them (NaN cells '
                        'turned into numbers join the regions of that number; rounded values merge distinct ones)' % _tshow(hits[0][1], 40))
                return
    if len(datap) == 1 and not npar:
        # the neighbourhood the kernel gets is not the caller's parameter itself: a value chosen by a condition on the raster
        # (`4 if min(raster.shape) < 3 else neighborhood`) overrides an explicit, valid request
        from ..wterm import show as _tshow2, walk as _twalk2
        others = [p_ for p_ in pub.params[1:] if p_ != 'name']
        for p_, t_ in kc.bound.items():
            if p_ in datap or not isinstance(t_, tuple) or not t_ or t_[0] != 'phi':
                continue
            arms = []

            def leaves_(x):
                if isinstance(x, tuple) and x and x[0] == 'phi':
                    leaves_(x[2]); leaves_(x[3])
                else:
                    arms.append(x)
            leaves_(t_)
            if any(a_ == ('param', q_) for a_ in arms for q_ in others) and any(isinstance(a_, tuple) and a_[0] == 'const' for a_ in arms):
                rep.add('R1', pub, entry, 'labelling kernel parameter %s <- %s' % (p_, _tshow2(t_, 140)), call.lineno, False,
                        'the kernel must be run with the neighbourhood the caller asked for (4 or 8): on some rasters this replaces it '
                        'by a constant - cells that touch only diagonally are then never joined although 8 was requested')
                return
    if len(datap) != 1 or len(npar) != 1:
        raise AnalysisIncomplete('regions: kernel arguments not understood (data %s, neighbourhood %s)' % (datap, npar))
    c.data, c.nparam = datap[0], npar[0]
    c.wt, c.kc, c.wret, c.nbh = wt, kc, wret, kc.bound[npar[0]][1]
    c.rows, c.cols = App('shape', [c.data, 0]), App('shape', [c.data, 1])
    tops = []
    for s in k.stores:
        if s.arr is c.out and s.loops and not any(s.loops[0] is t for t in tops):
            tops.append(s.loops[0])
    if len(tops) != 2:
        raise AnalysisIncomplete('regions kernel: expected two raster passes writing the label array, found %d' % len(tops))
    c.passes = []
    for pi, Ly in enumerate(tops):
        inner = []
        for s in k.stores:
            if s.loops and s.loops[0] is Ly and len(s.loops) > 1 and not any(s.loops[1] is t for t in inner):
                inner.append(s.loops[1])
        ok = _is_full_range(Ly, c.rows) and len(inner) == 1 and _is_full_range(inner[0], c.cols)
        rep.add('R1-order', f, entry, 'pass %d: %s / %s' % (pi + 1, norm(Ly.node.iter), norm(inner[0].node.iter) if inner else '?'),
                Ly.node.lineno, ok, 'both passes must visit every cell: rows 0..shape[0] in the outer loop, columns '
                '0..shape[1] in the single inner loop')
        if not ok:
            return
        c.passes.append((Ly, inner[0]))
    tables = [window_tables(c, pi) for pi in range(2)]
    for conn in (8, 4):
        t1, t2 = tables[0].get(conn), tables[1].get(conn)
        rep.add('R1', f, entry, '%d-connectivity: pass 2 uses the tables of pass 1' % conn, f.node.lineno,
                None if t1 is None and t2 is None else (t1 is not None and t1 == t2), 'both passes must read the same neighbour set')
    c.labelwin = {t.get('labelwin') for t in tables}
    c.valuewin = {t.get('valuewin') for t in tables}
    check_pass1(c)
    check_pass2(c)
    check_dtypes(prog, rep, f, pub, call, entry, c)
    # n validated: the public function raises exactly for sizes other than 4 and 8
    from ..wterm import eval_cond
    res = {}
    for v in (4, 8, 6, 0):
        hit = False
        for guards, node in wt.raises:
            vals = []
            for g in guards:
                try:
                    vals.append(eval_cond(g, {c.nbh: v}))
                except (ValueError, KeyError):
                    continue
            if vals and all(vals) and ("('param', '%s')" % c.nbh) in repr(guards[-1]):
                hit = True
        res[v] = hit
    rep.add('R1', pub, entry, 'neighborhood validated to be 4 or 8', pub.node.lineno, res == {4: False, 8: False, 6: True, 0: True},
            'other neighbourhood sizes would silently use the 4-table with a wrong window length; raises for %s' % sorted(v for v, h in res.items() if h))
    rep.floor('R1', 10)
    rep.floor('R2', 4)
    rep.floor('R3', 3)
    rep.floor('Q1', 2)
    rep.floor('Q2', 2)


def window_tables(c, pi):
    """{conn: {slot: (dy, dx)}} of pass pi, decided by evaluating every window store's source index at the corners,
    edges and interior of two rasters (11x13 and 13x11): it must be the cell index plus a constant offset clamped to
    the cell's own axis extent."""
    rep, f, entry = c.rep, c.f, c.entry
    Ly, Lx = c.passes[pi]
    ysym, xsym, nsym = Sym(Ly.var), Sym(Lx.var), Sym(c.nparam)
    res = {}
    wins = {}
    for s in c.k.stores:
        if s.arr is c.out or len(s.loops) != 2 or s.loops[0] is not Ly or len(s.idx) != 1 or \
                not isinstance(s.idx[0], Rat) or not s.idx[0].is_const():
            continue
        at = list(s.value.atoms()) if isinstance(s.value, Rat) else []
        if len(at) != 1 or not isinstance(at[0], App) or at[0].name not in ('read', 'cell?') or \
                s.value != Rat.atom(at[0]) or at[0].args[0] not in (c.data, c.out.name):
            continue
        srcname = at[0].args[0]
        slot = int(s.idx[0].const_value())
        nguards = [g for g in s.guards if guard_atoms([g]) and guard_atoms([g]) <= {nsym}]
        try:
            conns = [cn for cn in (8, 4) if _all_true(nguards, {nsym: F(cn)})]
            off = None
            bad = None
            for R, C in ((11, 13), (13, 11)):
                for yp in (0, 5, R - 1):
                    for xp in (0, 6, C - 1):
                        env = {ysym: F(yp), xsym: F(xp), c.rows: F(R), c.cols: F(C)}
                        iy, ix = evaluate(at[0].args[1], env), evaluate(at[0].args[2], env)
                        if off is None:
                            off = None if (yp, xp) != (5, 6) else (iy - 5, ix - 6)
                        if (yp, xp) == (5, 6) and off is None:
                            off = (iy - 5, ix - 6)
                for yp in (0, 5, R - 1):
                    for xp in (0, 6, C - 1):
                        env = {ysym: F(yp), xsym: F(xp), c.rows: F(R), c.cols: F(C)}
                        iy, ix = evaluate(at[0].args[1], env), evaluate(at[0].args[2], env)
                        wy, wx = min(max(yp + off[0], 0), R - 1), min(max(xp + off[1], 0), C - 1)
                        if (iy, ix) != (wy, wx) and bad is None:
                            bad = 'at cell (%d, %d) of a %dx%d raster it reads (%s, %s), not (%s, %s)' % (yp, xp, R, C, iy, ix, wy, wx)
        except CannotEvaluate as e:
            rep.add('R1', f, entry, norm(s.node), s.node.lineno, None, 'window index not evaluable: %s' % e)
            continue
        if bad:
            rep.add('R1', f, entry, norm(s.node), s.node.lineno, False,
                    'neighbour index must be the cell index plus a constant, clamped to its OWN axis extent: ' + bad)
            continue
        for cn in conns:
            wins.setdefault((cn, s.arr.name, srcname), {}).setdefault(slot, set()).add((int(off[0]), int(off[1])))
    for conn, want in ((8, MOORE), (4, NEUMANN)):
        src = [(w, v) for (cn, w, a), v in wins.items() if cn == conn and a == c.data]
        lab = [(w, v) for (cn, w, a), v in wins.items() if cn == conn and a == c.out.name]
        line = Ly.node.lineno
        if len(src) != 1 or len(lab) != 1:
            rep.add('R1', f, entry, 'pass %d, %d-connectivity windows' % (pi + 1, conn), line, None if not src and not lab else False,
                    'expected one value window (from %s) and one label window (from %s), found %d and %d' % (
                        c.data, c.out.name, len(src), len(lab)))
            continue
        (sw, s0), (lw, l0) = src[0], lab[0]
        single = all(len(v) == 1 for v in s0.values()) and all(len(v) == 1 for v in l0.values())
        offs = [next(iter(v)) for v in s0.values()]
        full = single and set(offs) == want and len(offs) == len(want) and sorted(s0) == list(range(len(want)))
        rep.add('R1', f, entry, 'pass %d, %d-connectivity: value window %s' % (pi + 1, conn, sorted(offs)), line, full,
                'the %d-neighbourhood must be exactly the %s offsets, one per slot 0..%d' % (
                    conn, 'Moore' if conn == 8 else 'von Neumann', conn - 1))
        rep.add('R1', f, entry, 'pass %d, %d-connectivity: label window uses the same offsets' % (pi + 1, conn), line,
                single and s0 == l0, 'slot k of the label window must look at the same neighbour as slot k of the value '
                'window: value %s label %s' % (sorted((kk, sorted(v)) for kk, v in s0.items()),
                                               sorted((kk, sorted(v)) for kk, v in l0.items())))
        if full and s0 == l0:
            res[conn] = {kk: next(iter(v)) for kk, v in s0.items()}
            res['labelwin'] = lw
            res['valuewin'] = sw
    return res


def _classify(c, atoms, Ly, Lx, allow_phi_of=()):
    """sort the atoms a pass's decisions depend on into roles; unknown ones are returned under 'other'"""
    ysym, xsym = Sym(Ly.var), Sym(Lx.var)
    centre = App('read', [c.data, Rat.atom(ysym), Rat.atom(xsym)])
    roles = {'nan': [], 'count': [], 'label': [], 'is': [], 'own': [], 'phi': [], 'loopout': [], 'other': [], 'outcell': [], 'value': []}
    phis = set()
    for L in allow_phi_of:
        for v in getattr(L, 'phi', {}).values():
            if isinstance(v, Rat):
                phis |= set(v.atoms())
    lo_names = set()
    for a in atoms:
        if isinstance(a, App) and a.name == 'loopout' and isinstance(a.args[0], Rat):
            lo_names |= set(a.args[0].atoms())
    for a in atoms:
        if a in lo_names or (isinstance(a, App) and a.name in ('ite', 'max', 'min')):
            continue        # the variable name inside loopout(name, loop); ite / max / min are structure (their parts are visited)
        if a == centre:
            roles['own'].append(a)
        elif isinstance(a, App) and a.name == 'isnan' and a.args[0] == Rat.atom(centre):
            roles['nan'].append(a)
        elif isinstance(a, App) and (a.name == 'count' or a.name.startswith('reduce:any') or a.name.startswith('reduce:sum')):
            roles['count'].append(a)        # number of matches / "some neighbour matches"
        elif isinstance(a, App) and a.name in ('bool', 'method:any', 'reduce:any') and \
                any(isinstance(x, App) and x.name == 'arr' and x.args and x.args[0] in c.valuewin for x in walk_atoms(a)):
            roles['count'].append(a)        # `mask.any()`: some neighbour matches
        elif isinstance(a, App) and a.name == 'cell?' and a.args[0] in c.valuewin:
            roles.setdefault('value', []).append(a)     # the value window read at the visited slot (mask form of the visit)
        elif isinstance(a, App) and a.name == 'cell?' and a.args[0] in c.labelwin and isinstance(a.args[1], Rat) and \
                len(a.args[1].atoms()) == 1 and isinstance(next(iter(a.args[1].atoms())), Sym) and '@' in next(iter(a.args[1].atoms())).name:
            roles['label'].append(a)        # label window read at the slot of a loop over all slots
        elif isinstance(a, App) and a.name == 'cell?' and a.args[0] in c.labelwin and isinstance(a.args[1], Rat) and \
                len(a.args[1].atoms()) == 1 and getattr(next(iter(a.args[1].atoms())), 'name', '') == 'match':
            roles['label'].append(a)
        elif isinstance(a, App) and a.name in ('cell?', 'read') and a.args[0] == c.out.name:
            roles['outcell'].append(a)
        elif isinstance(a, App) and a.name == 'is' and a.args[1] == Rat.atom(NONE):
            roles['is'].append(a)
        elif isinstance(a, App) and a.name == 'loopout':
            roles['loopout'].append(a)
        elif a in phis:
            roles['phi'].append(a)
        elif a == NONE or (isinstance(a, App) and a.name in ('match', 'read', 'arr', 'abs')) or \
                (isinstance(a, Sym) and a.name in (Ly.var, Lx.var) + tuple(c.f.params)):
            pass        # parts of the matching predicate / indices inside the atoms above
        elif isinstance(a, Sym) and '@' in a.name:
            pass        # loop variables of inner loops
        else:
            roles['other'].append(a)
    return roles


def _match_ok(c, label_atom, L, conds=()):
    """How the neighbour loop L visits the window slots, and the matching predicate P (over whole window arrays).
    match form: the label is read at slot match(P, j), L running over all count(P) matches.
    mask form: the label is read at slot j, L running over ALL slots, the uses guarded by P at j (`conds`: the conditions
    on the paths of the loop; those that read the value window at j make up P(j))."""
    idx = next(iter(label_atom.args[1].atoms()))
    if isinstance(idx, App) and idx.name == 'match':
        P, j = idx.args
        return label_atom.args[1] == Rat.atom(idx) and j == Rat.sym(L.var) and L.kind == 'range' and L.lo == Rat.const(0) and \
            L.hi == Rat.atom(App('count', [P])) and L.step == Rat.const(1), P
    # mask form
    j = Rat.sym(L.var)
    full = L.kind == 'range' and L.lo == Rat.const(0) and L.step == Rat.const(1) and label_atom.args[1] == j and \
        (L.hi == Rat.sym(c.nparam) or any(L.hi == Rat.atom(App('shape', [w, 0])) for w in list(c.valuewin) + list(c.labelwin) if w))
    parts = []
    for g in conds:
        for x in (flatten_and([g]) if g[0] == 'and' else [g]):
            ats = guard_atoms([x])
            if any(isinstance(a, App) and a.name == 'cell?' and a.args[0] in c.valuewin for a in ats) and x not in parts:
                parts.append(x)
    if not parts:
        return False, ('const', True)

    def deindex(a):
        if isinstance(a, App) and a.name == 'cell?' and a.args[0] in c.valuewin and a.args[1] == j:
            return Rat.atom(App('arr', [a.args[0]]))
        return None

    def dx(cnd):
        if cnd[0] == 'cmp':
            return cmp_cond(cnd[1], subst(cnd[3] if len(cnd) > 3 else cnd[2], deindex), Rat.const(0))
        if cnd[0] in ('and', 'or'):
            return (cnd[0],) + tuple(dx(y) for y in cnd[1:])
        if cnd[0] == 'not':
            return ('not', dx(cnd[1]))
        if cnd[0] == 'truth' and isinstance(cnd[1], Rat):
            return ('truth', subst(cnd[1], deindex))
        return cnd
    # orientation: a condition met on the path that skips the slot is the negation of the matching predicate
    oriented = []
    for x in parts:
        px = dx(x)
        env = {}
        for a in guard_atoms([px]):
            if isinstance(a, App) and a.name == 'arr':
                env[a] = F(5)
            elif isinstance(a, App) and a.name in ('read', 'cell?') and a.args[0] == c.data:
                env[a] = F(5)
            elif isinstance(a, Sym) and a.name in c.f.params + c.f.kwonly:
                env[a] = F(1)
        try:
            if not eval_cond_full(px, env):
                px = ('not', px)
        except CannotEvaluate:
            pass
        if px not in oriented:
            oriented.append(px)
    P = oriented[0] if len(oriented) == 1 else ('and',) + tuple(oriented)
    return bool(full), P


def _slot_envs(c, roles, flags=()):
    """environments in which the visited slot matches / does not match the cell (mask form: the value window is read at
    the slot; match form: only matches are visited, so there is nothing to bind and no non-matching visit)"""
    vals = roles.get('value', [])
    if not vals:
        return [('', True, {})]
    out = []
    for fl in (1, 0):
        for match in (True, False):
            env = {a: (OWN if match else OWN * 3 + 11) for a in vals}
            for x in roles['own']:
                env[x] = OWN
            for p in c.f.params + c.f.kwonly:
                if p not in (c.data, c.nparam):
                    env[Sym(p)] = F(fl)
            out.append(('%s, %s slot' % ('exact path' if fl else 'tolerance path', 'matching' if match else 'non-matching'), match, env))
    return out


def check_pass1(c):
    rep, f, entry, k = c.rep, c.f, c.entry, c.k
    Ly, Lx = c.passes[0]
    line = Ly.node.lineno
    ycell = (Rat.sym(Ly.var), Rat.sym(Lx.var))
    stores = [s for s in k.stores if s.arr is c.out and s.loops and s.loops[0] is Ly]
    foreign = [s for s in stores if tuple(s.idx) != ycell]
    rep.add('R2', f, entry, 'pass 1 writes only the visited cell (%d stores)' % len(stores), line, not foreign,
            'pass 1 may label only the cell it visits' + (': ' + norm(foreign[0].node) if foreign else ''))
    if foreign:
        return
    # the label counter: the loop-carried scalar of the cell loop that is stored into the label array
    cnt = [n for n, (symv, post) in getattr(Lx, 'carried', {}).items()
           if any(isinstance(s.value, Rat) and s.value == symv for s in stores)]
    if len(cnt) != 1:
        rep.add('R2', f, entry, 'label counter', line, None, 'no unique loop-carried counter stored as a fresh label')
        return
    uid = cnt[0]
    usym, upost = Lx.carried[uid]
    uatom = next(iter(usym.atoms()))
    init = Ly.pre.get(uid)
    ok = isinstance(init, Rat) and init == Rat.const(1)
    rep.add('R2', f, entry, '%s starts at %r' % (uid, init), f.node.lineno, ok, 'labels are positive: ids start at 1 '
            '(0 means unlabelled)')
    cont = Lx.pre.get(uid) == Ly.phi.get(uid) and Ly.carried.get(uid, (None, None))[1] == \
        Rat.atom(App('loopout', [Rat.sym(uid), Rat.sym(Lx.var)]))
    rep.add('R2', f, entry, '%s is carried from row to row unchanged' % uid, line, bool(cont),
            'the counter must not be reset or changed between rows: labels of different regions would collide')
    atoms = set()
    for s in stores:
        atoms |= guard_atoms(s.guards[Lx.gdepth:]) | (walk_atoms(s.value) if isinstance(s.value, Rat) else set())
    atoms |= walk_atoms(upost)
    roles = _classify(c, atoms, Ly, Lx, (Lx,))
    extra = [a for a in roles['phi'] if a != uatom] + roles['other'] + roles['label'] + roles['outcell']
    if extra or len(roles['loopout']) > 1 or len(roles['nan']) > 1 or len([a for a in roles['count'] if a.name == 'count']) > 1:
        rep.add('R2', f, entry, 'pass 1 decision structure', line, None,
                'depends on quantities the rule does not model: %s' % show(extra or roles['loopout'] or roles['count'], 200))
        return
    found = roles['loopout'][0] if roles['loopout'] else None
    # search loop: found label is None or the label (> 0) of a matching neighbour
    if found is None:
        rep.add('R2', f, entry, 'label of an already-labelled matching neighbour', line, False,
                'pass 1 never copies a neighbour\'s label: every cell would start a region of its own and only pass 2 '
                'could join them (labels of a component must be seeded from labelled neighbours)')
        return
    sname = found.args[0]
    Ls = [L for L in k.loops if Rat.sym(L.var) == found.args[1]]
    Ls = Ls[0] if Ls else None
    check_search(c, Ls, next(iter(sname.atoms())).name if isinstance(sname, Rat) else str(sname))

    def run(state):
        env = {uatom: F(41)}
        for a in roles['nan']:
            env[a] = F(1 if state['nan'] else 0)
        for a in roles['count']:
            env[a] = F(state['count'])
        for a in roles['own']:
            env[a] = OWN
        for a in roles['is']:
            if a.args[0] == Rat.atom(found):
                env[a] = F(1 if state['found'] is None else 0)
        if state['found'] is not None:
            env[found] = F(state['found'])
        elif getattr(c, 'sentinel', None) is not None:
            env[found] = F(c.sentinel)
        vals = []
        for s in stores:
            if _all_true(s.guards[Lx.gdepth:], env):
                v = s.value
                if isinstance(v, Rat) and v == Rat.sym('nan'):
                    vals.append(OWN)
                else:
                    vals.append(evaluate(v, env))
        return vals, evaluate(upost, env)

    table = [
        ('NaN cell', {'nan': True, 'count': 0, 'found': None}, OWN, 41, 'a NaN cell stays NaN and takes no label'),
        ('NaN cell (stale neighbour state)', {'nan': True, 'count': 2, 'found': 7}, OWN, 41, 'a NaN cell stays NaN and takes no label'),
        ('no matching neighbour', {'nan': False, 'count': 0, 'found': None}, 41, 42,
         'a cell without a matching neighbour takes a fresh id and the counter advances'),
        ('matching neighbours, none labelled yet', {'nan': False, 'count': 2, 'found': None}, 41, 42,
         'a cell whose matching neighbours are all unlabelled takes a fresh id and the counter advances'),
        ('a labelled matching neighbour (label 7)', {'nan': False, 'count': 2, 'found': 7}, 7, 41,
         'a cell with a labelled matching neighbour copies that label and the counter stays'),
    ]
    for title, state, wantv, wantu, why in table:
        try:
            vals, u = run(state)
        except CannotEvaluate as e:
            rep.add('R2', f, entry, 'pass 1, ' + title, line, None, 'not evaluable: %s' % e)
            continue
        ok = len(vals) >= 1 and vals[-1] == wantv and (u > 41 if wantu > 41 else u == 41)
        got = 'stores %s, counter 41 -> %s' % (['own value' if v == OWN else str(v) for v in vals], u)
        rep.add('R2', f, entry, 'pass 1, %s: %s' % (title, got), line, ok, why + ' (expected label %s, counter -> %s)' % (
            'own value' if wantv == OWN else wantv, wantu))


def check_search(c, L, name):
    """the search loop leaves `name` None when no matching neighbour is labelled, else the label (> 0) of one"""
    rep, f, entry = c.rep, c.f, c.entry
    if L is None or name not in getattr(L, 'phi', {}) or name not in getattr(L, 'carried', {}):
        rep.add('R2', f, entry, 'search for a labelled matching neighbour', f.node.lineno, None, 'search loop not recognised')
        return
    line = L.node.lineno
    pre = L.pre.get(name)
    # "nothing found" is None, or a constant that cannot be a label (labels are positive)
    sent = None
    if isinstance(pre, Rat) and pre != Rat.atom(NONE) and pre.is_const() and pre.const_value() <= 0:
        sent = pre.const_value()
    c.sentinel = sent
    rep.add('R2', f, entry, '%s is %s before the search' % (name, 'None' if sent is None else sent), line,
            pre == Rat.atom(NONE) or sent is not None,
            'the found label must start as "nothing found" (None, or a constant that is no label) for every cell: a stale '
            'label of the previous cell would be copied')
    phi, post = L.carried[name]
    patom = next(iter(phi.atoms()))
    atoms = walk_atoms(post)
    paths = [(g, envb.get(name)) for g, envb, nb in L.breaks]
    for g, v in paths:
        atoms |= guard_atoms(g)
        if isinstance(v, Rat):
            atoms |= walk_atoms(v)
    labels = [a for a in atoms if isinstance(a, App) and a.name == 'cell?' and a.args[0] in c.labelwin]
    if len(labels) != 1:
        rep.add('R2', f, entry, 'search loop reads the label window', line, None if labels or not any(c.labelwin) else False,
                'the search must look at the labels of the matching neighbours (found %d label reads)' % len(labels))
        return
    A = labels[0]
    allconds = [g_ for g, v in paths for g_ in g]
    pa = next(iter(post.atoms())) if isinstance(post, Rat) and len(post.atoms()) == 1 else None

    def ite_conds(r, out):
        for a in walk_atoms(r):
            if isinstance(a, App) and a.name == 'ite':
                out.append(a.args[0])
        return out
    if not any(isinstance(a, App) and a.name == 'cell?' and a.args[0] in c.valuewin for g_ in allconds for a in guard_atoms([g_])):
        allconds += ite_conds(post, []) if isinstance(post, Rat) else []      # no break path: the test lives in the update
    okm, P = _match_ok(c, A, L, allconds)
    rep.add('R2', f, entry, 'labels looked up at the slots of ALL matching neighbours', line, okm,
            'the label window must be read at the slot of every matching neighbour (match positions, or every slot under the '
            'matching test)')
    c.predicates = getattr(c, 'predicates', []) + [(P, L.node.lineno)]
    isn = [a for a in atoms if isinstance(a, App) and a.name == 'is' and a.args[0] == phi]
    Ly1, Lx1 = c.passes[0]
    sroles = _classify(c, atoms, Ly1, Lx1, (L, Lx1))
    cases = []
    for stitle, smatch, senv in _slot_envs(c, sroles):
        for title, prior, lab in (('unlabelled neighbour, nothing found yet', None, 0), ('unlabelled neighbour, label 7 found before', 7, 0),
                                  ('neighbour labelled 3, nothing found yet', None, 3), ('neighbour labelled 3, label 7 found before', 7, 3)):
            cases.append(((stitle + ': ' if stitle else '') + title, prior, lab, smatch, senv))
    for title, prior, lab, smatch, senv in cases:
        env = {A: F(lab)}
        env.update(senv)
        for a in isn:
            env[a] = F(1 if prior is None else 0)
        if prior is not None:
            env[patom] = F(prior)
        elif sent is not None:
            env[patom] = F(sent)
        else:
            from ..kutil import NONE_VALUE
            env[patom] = NONE_VALUE          # "nothing found yet" carried as None
        try:
            taken = [(g, v) for g, v in paths if _all_true(g, env)]
            if taken:
                v = taken[0][1]
                res = None if v == Rat.atom(NONE) or (prior is None and sent is None and v == phi) else evaluate(v, env)
                left = True
            else:
                left = False
                res = None if (prior is None and post == phi) else evaluate(post, env)
            if sent is not None and res == sent:
                res = None
            if sent is None and prior is None and res is not None:
                from ..kutil import NONE_VALUE
                if res == NONE_VALUE:
                    res = None
        except CannotEvaluate as e:
            rep.add('R2', f, entry, 'search step, ' + title, line, None, 'not evaluable: %s' % e)
            continue
        # once a label has been found the search may stop anywhere - the first labelled match wins - as long as the found label
        # is what it leaves with (`while j < n and found is None`: the exit is taken at the head of the next step)
        if not smatch:
            ok = (not left or prior is not None) and res == prior
            why = 'a neighbour that does not match the cell takes no part: its label must be ignored'
        elif lab == 0:
            ok = (not left or prior is not None) and res == prior
            why = 'an unlabelled (0) neighbour must be passed over: stopping or taking its 0 leaves the cell unlabelled / ' \
                  'misses labelled neighbours further on'
        else:
            ok = res == lab or (prior is not None and res == prior)
            why = 'a labelled neighbour\'s label must be taken (or an earlier found one kept)'
        rep.add('R2', f, entry, 'search step, %s: %s -> %s%s' % (title, prior, res, ', loop left' if left else ''), line, ok, why)


def check_pass2(c):
    rep, f, entry, k = c.rep, c.f, c.entry, c.k
    Ly, Lx = c.passes[1]
    line = Ly.node.lineno
    stores = [s for s in k.stores if s.arr is c.out and s.loops and s.loops[0] is Ly]
    # replacement stores: whole-raster loops nested in the neighbour loop
    repl = []
    bad = []
    for s in stores:
        # the label array has the raster's shape (allocated like it): its own extents are the same ranges
        orows = [App('shape', [c.out.name, 0])] if getattr(c.out, 'like', None) is not None or True else []
        ocols = [App('shape', [c.out.name, 1])]
        if len(s.loops) >= 5 and _is_full_range(s.loops[-2], c.rows, orows) and _is_full_range(s.loops[-1], c.cols, ocols) and \
                tuple(s.idx) == (Rat.sym(s.loops[-2].var), Rat.sym(s.loops[-1].var)):
            repl.append(s)
        else:
            bad.append(s)
    for s in bad:
        rep.add('R3', f, entry, norm(s.node), s.node.lineno, False,
                'pass 2 may change labels only by replacing one label by another over the WHOLE raster (rows 0..shape[0] x '
                'columns 0..shape[1]); a partial sweep or a direct store leaves cells of a component with different labels')
    if not repl:
        rep.add('R3', f, entry, 'pass 2 merge', line, False, 'no whole-raster relabelling found: labels of one component '
                'started from different seeds are never joined')
        return
    Ls = {id(s.loops[2]): s.loops[2] for s in repl}
    if len(Ls) != 1 or any(len(s.loops) != 5 for s in repl):
        rep.add('R3', f, entry, 'pass 2 merge loop', line, None, 'relabelling is not nested directly in one neighbour loop')
        return
    L = next(iter(Ls.values()))
    brk = [n for n in ast.walk(L.node) if isinstance(n, (ast.Break, ast.Return))]
    rep.add('R3', f, entry, 'merge loop has no early exit', L.node.lineno, not brk,
            'every matching neighbour must be examined and every relabelling sweep completed: an early exit leaves labels '
            'of one component unmerged')
    atoms = set()
    for s in repl:
        atoms |= guard_atoms(s.guards[Lx.gdepth:]) | walk_atoms(s.value)
    run = [n for n, (symv, post) in getattr(L, 'carried', {}).items() if next(iter(symv.atoms())) in atoms]
    if len(run) != 1:
        rep.add('R3', f, entry, 'running label of the merge loop', L.node.lineno, None, 'no unique loop-carried running label')
        return
    name = run[0]
    phi, post = L.carried[name]
    M = next(iter(phi.atoms()))
    atoms |= walk_atoms(post)
    roles = _classify(c, atoms, Ly, Lx, (L,))
    extra = [a for a in roles['phi'] if a != M] + roles['other'] + roles['loopout']
    if extra or len(roles['label']) != 1:
        rep.add('R3', f, entry, 'pass 2 decision structure', L.node.lineno, None if extra or roles['label'] else False,
                'depends on quantities the rule does not model: %s / label reads %d' % (show(extra, 200), len(roles['label'])))
        return
    A = roles['label'][0]
    allconds = [g_ for s in repl for g_ in s.guards[Lx.gdepth:]]
    okm, P = _match_ok(c, A, L, allconds)
    rep.add('R3', f, entry, 'labels looked up at the slots of ALL matching neighbours', L.node.lineno, okm,
            'the label window must be read at match slot j for j over every match (all of them take part in the merge)')
    c.predicates = getattr(c, 'predicates', []) + [(P, L.node.lineno)]
    rep.add('R3', f, entry, 'running label %s is None before the merge loop' % name, L.node.lineno,
            L.pre.get(name) == Rat.atom(NONE), 'the running label must not be carried over from the previous cell: labels of '
            'unrelated regions would be merged')

    def sweep(s, env):
        """(from label, to label) of a replacement store active under env, or None"""
        cellg = [g for g in s.guards[Lx.gdepth:] if any(a in roles['outcell'] for a in guard_atoms([g]))]
        rest = [g for g in s.guards[Lx.gdepth:] if g not in cellg]
        if not _all_true(rest, env):
            return None
        if len(cellg) == 1 and cellg[0][0] == 'cmp' and cellg[0][1] != '==':
            raise BadSweep('the swept cells are selected by `%s`, not by equality with one label' % cond_repr(cellg[0]))
        if not cellg:
            raise BadSweep('every cell of the raster is overwritten')
        if len(cellg) != 1 or cellg[0][0] != 'cmp':
            raise CannotEvaluate('cell test is not a single comparison')
        cells = [a for a in guard_atoms(cellg) if a in roles['outcell']]
        own = App('cell?', [c.out.name, Rat.sym(s.loops[-2].var), Rat.sym(s.loops[-1].var)])
        if len(cells) != 1 or tuple(cells[0].args[:3]) != tuple(own.args):
            raise CannotEvaluate('cell test does not read the swept cell')
        d = cellg[0][3]
        v0 = evaluate(d, {**env, cells[0]: F(0)})
        v1 = evaluate(d, {**env, cells[0]: F(1)})
        v2 = evaluate(d, {**env, cells[0]: F(2)})
        if v1 - v0 == 0 or v2 - v1 != v1 - v0:
            raise CannotEvaluate('cell test not linear in the cell')
        frm = -v0 / (v1 - v0)
        return frm, evaluate(s.value, env)

    table = [('first matching neighbour (label 3)', None, 3, None, 3),
             ('same label (4, 4)', 4, 4, None, 4),
             ('running label larger (5 > 3)', 5, 3, (5, 3), 3),
             ('running label smaller (3 < 5)', 3, 5, (5, 3), 3)]
    cases = []
    for stitle, smatch, senv in _slot_envs(c, roles):
        for title, m, a, want, wantm in table:
            if smatch:
                cases.append(((stitle + ': ' if stitle else '') + title, m, a, want, wantm, senv))
            else:
                cases.append((stitle + ': ' + title, m, a, None, m, senv))      # a non-matching slot changes nothing
    for title, m, a, want, wantm, senv in cases:
        env = {A: F(a)}
        env.update(senv)
        for x in roles['nan']:
            env[x] = F(0)
        for x in roles['count']:
            env[x] = F(2)
        for x in roles['own']:
            env[x] = OWN
        for x in roles['is']:
            if x.args[0] == phi:
                env[x] = F(1 if m is None else 0)
        if m is not None:
            env[M] = F(m)
        else:
            env[M] = NONE_NUM
        try:
            acts = [r for r in (sweep(s, env) for s in repl) if r is not None and r[0] != r[1]]
            newm = evaluate(post, env)
        except BadSweep as e:
            rep.add('R3', f, entry, 'merge step, ' + title, L.node.lineno, False,
                    'a relabelling sweep must replace exactly the cells that hold one label: %s' % e)
            continue
        except CannotEvaluate as e:
            rep.add('R3', f, entry, 'merge step, ' + title, L.node.lineno, None, 'not evaluable: %s' % e)
            continue
        # which of the two labels survives is immaterial for the partition; the running label must be the survivor
        if want is None and wantm is None:
            ok = acts == [] and (newm is None or newm == NONE_NUM)
        elif want is None:
            ok = acts == [] and newm == wantm
        else:
            ok = len(acts) == 1 and set(acts[0]) == set(want) and newm == acts[0][1]
        rep.add('R3', f, entry, 'merge step, %s: sweeps %s, running label -> %s' % (
            title, ['%s->%s' % r for r in acts], newm), L.node.lineno, ok,
            'for two distinct labels among matching neighbours one must be replaced by the other over the whole raster, '
            'whichever was seen first, and the running label becomes the surviving one (expected %s)' % (
                'no sweep, running -> %s' % wantm if want is None else 'one sweep between %s and %s, running -> survivor' % want))


def alloc_info(f, name):
    vals = [v for v in f.local_assigns().get(name, []) if isinstance(v, ast.AST)]
    if len(vals) != 1 or not isinstance(vals[0], ast.Call):
        return None, None
    c = vals[0]
    dt = kw(c, 'dtype')
    if dt is None and short(c) in ('zeros', 'empty', 'ones') and len(c.args) > 1:
        dt = c.args[1]
    return c, (norm(dt) if dt is not None else None)


def _inline_locals(fn, e, depth=4):
    """expression with single-assignment locals of fn replaced by their definitions (bounded)"""
    las = fn.local_assigns()

    class Sub(ast.NodeTransformer):
        def visit_Name(self, n):
            vals = [v for v in las.get(n.id, []) if isinstance(v, ast.AST)]
            if isinstance(n.ctx, ast.Load) and n.id not in fn.params and len(vals) == 1 and len(las.get(n.id, [])) == 1:
                return vals[0]
            return n
    import copy
    e = copy.deepcopy(e)
    for _ in range(depth):
        e = Sub().visit(e)
    return e


def check_dtypes(prog, rep, f, pub, call, entry, c):
    data, out = c.data, c.out.name
    # Q1: arrays receiving the counter (out) and arrays receiving elements of out (label window)
    targets = {out} | {w for w in c.labelwin if w}
    for name in sorted(targets):
        cl, dt = alloc_info(f, name)
        if cl is None and name in c.k.arrays and getattr(c.k.arrays[name], 'alloc_node', None) is not None:
            # allocated in a phase that was executed in place: the interpreter's allocation record
            a_ = c.k.arrays[name]
            cl = a_.alloc_node
            dt = a_.dtype if isinstance(a_.dtype, str) else None
        if cl is None:
            rep.add('Q1', f, entry, 'allocation of %s' % name, f.node.lineno, None, 'single allocation not found')
            continue
        # `dtype=<other>.dtype` of another local array of the kernel: that array's own dtype (the interpreter resolves it)
        if dt is not None and dt.endswith('.dtype') and name in c.k.arrays and isinstance(c.k.arrays[name].dtype, str) and \
                not c.k.arrays[name].dtype.endswith('.dtype'):
            dt = c.k.arrays[name].dtype
        if dt is not None and dt.isidentifier():
            # the dtype held in a module-level constant (`_LABEL_DTYPE = np.float64`): decided by its value
            r_ = prog.resolve_name(f, f.module, dt)
            if isinstance(r_, tuple) and r_ and r_[0] == 'modvalue' and isinstance(r_[3], ast.AST):
                dt = norm(r_[3])
                if dt.startswith(('np.dtype(', 'numpy.dtype(')) and dt.endswith(')'):
                    dt = dt[dt.index('(') + 1:-1]
        like = short(cl).endswith('_like')
        ok = dt in WIDE_OK if not (like and dt is None) else False
        if dt is not None and ('%s.dtype' % data) in dt:
            ok = False
        if dt is None and not like:
            ok = True      # numpy default float64
        rep.add('Q1', f, entry, '%s = %s' % (name, norm(cl)), cl.lineno, ok,
                'the array receives the running region counter: it must have a fixed wide dtype (float64 / int64), never '
                'the input raster\'s own dtype - a uint8 raster with more than 255 regions would wrap labels (and reuse 0)')
    # Q1 (wrapper): the label image may only be cast to a fixed wide dtype afterwards
    from ..wterm import key as tkey, walk as twalk
    for t in twalk(c.wret) if c.wret is not None else []:
        if isinstance(t, tuple) and t and t[0] == 'cast' and any(tkey(x) == tkey(c.kc.result) for x in twalk(t[1])):
            dt = t[2][1] if t[2][0] in ('global', 'const') else None
            rep.add('Q1', pub, entry, 'labels.astype(%s)' % (dt,), call.lineno, dt in WIDE_OK or repr(dt) in WIDE_OK,
                    'the label image counts regions: it may only be converted to a fixed wide dtype, never back to the input '
                    'raster\'s dtype (int8 holds 127 labels, uint8 255)')
    # Q2: the matching predicates P(window value w, cell value v) collected from both passes
    flags = set()
    preds = getattr(c, 'predicates', [])
    for P, line in preds:
        atoms = guard_atoms([P])
        ws = [a for a in atoms if isinstance(a, App) and a.name == 'arr']
        vs = [a for a in atoms if isinstance(a, App) and a.name == 'read']
        fl = [a for a in atoms if isinstance(a, Sym) and a.name in f.params + f.kwonly]
        # numeric parameters of the kernel (tolerances handed down by the wrapper) take the value the wrapper gives them for a
        # plain call: a constant, or the default of the public parameter they come from
        nums = {}
        for a in list(fl):
            got_ = c.kc.bound.get(a.name)
            while isinstance(got_, tuple) and len(got_) >= 3 and got_[0] == 'call' and got_[1] in ('builtins.float', ('global', 'float'), 'numpy.float64') and \
                    len(got_[2]) == 1:
                got_ = got_[2][0]           # float(x) of a number is that number
            val_ = None
            if isinstance(got_, tuple) and got_[:1] == ('const',) and isinstance(got_[1], (int, float)) and not isinstance(got_[1], bool):
                val_ = got_[1]
            elif isinstance(got_, tuple) and got_[:1] == ('param',) and got_[1] in pub.defaults():
                dv_ = const(pub.defaults()[got_[1]])
                if isinstance(dv_, (int, float)) and not isinstance(dv_, bool):
                    val_ = dv_
            if val_ is not None:
                nums[a] = F(str(val_)) if isinstance(val_, float) else F(val_)
                fl.remove(a)
        centres = [App('read', [data, Rat.sym(Ly.var), Rat.sym(Lx.var)]) for Ly, Lx in c.passes]
        shape_ok = len(ws) == 1 and ws[0].args[0] in c.valuewin and len(vs) == 1 and vs[0] in centres and len(fl) <= 1 and \
            not [a for a in atoms if isinstance(a, Sym) and a not in fl and a not in nums and '@' not in a.name]
        if not shape_ok:
            rep.add('Q2', f, entry, 'matching predicate at line %d' % line, line, None,
                    'not a predicate of (value window, centre cell, dtype flag): %s' % show(P, 200))
            continue
        w, v = ws[0], vs[0]

        def holds(wv, vv, flag):
            env = {w: F(wv), v: F(vv)}
            env.update(nums)
            if fl:
                env[fl[0]] = F(flag)
            return eval_cond_full(P, env)
        exact_pairs = [(5, 5, True), (0, 0, True), (-128, -128, True), (100000, 100001, False), (100001, 100000, False),
                       (-128, 127, False), (0, 1, False), (1, 0, False), (10**9, 10**9 + 1, False), (255, 0, False)]
        try:
            for flag in ((1, 0) if fl else (None,)):
                if flag in (1, None):
                    wrong = [(a, b) for a, b, want in exact_pairs if holds(a, b, flag) != want]
                    rep.add('Q2', f, entry, 'matching on the integer path%s (line %d)' % (' (%s true)' % fl[0].name if fl else '', line),
                            line, not wrong, 'matching must be an equivalence relation on the raster values: tolerance '
                            'arithmetic in the raster\'s own dtype merges 100000 with 100001 (rtol) and overflows for int8 '
                            '-128 / unsigned differences; integer rasters need exact == (wrong for pairs %s)' % wrong[:4])
                else:
                    wrong = [(a, b) for a, b, want in ((5, 5, True), (0, 0, True), (1, 2, False), (2, 1, False), (-3, 3, False), (-1, -1, True),
                                                  (-250, -250, True), (-1, -2, False))
                             if holds(a, b, flag) != want]
                    rep.add('Q2', f, entry, 'matching on the float path (%s false) (line %d)' % (fl[0].name, line), line,
                            not wrong, 'a value must match itself and clearly different values must not match (wrong for %s)' % wrong)
        except CannotEvaluate as e:
            rep.add('Q2', f, entry, 'matching predicate at line %d' % line, line, None, 'not evaluable: %s' % e)
            continue
        flags |= {a.name for a in fl}
    if len(preds) > 1:
        ren = {}
        for Ly, Lx in c.passes:
            ren[Sym(Ly.var)] = Rat.sym('Y')
            ren[Sym(Lx.var)] = Rat.sym('X')
        for wname in c.valuewin:
            if wname:
                ren[App('arr', [wname])] = Rat.sym('VALUE_WINDOW')       # each pass may fill a window array of its own

        def canon(P):
            """order-free form of the predicate with both passes' loop variables renamed to (Y, X)"""
            if isinstance(P, tuple) and P and P[0] in ('and', 'or'):
                return (P[0], frozenset(canon(x) for x in P[1:]))
            if isinstance(P, tuple) and P and P[0] == 'not':
                return ('not', canon(P[1]))
            if isinstance(P, tuple) and P and P[0] == 'cmp':
                return ('cmp', P[1], subst(P[3] if len(P) > 3 else P[2], lambda a: ren.get(a)).canon_key())
            if isinstance(P, tuple) and P and P[0] == 'truth':
                return ('truth', subst(P[1], lambda a: ren.get(a)).canon_key() if isinstance(P[1], Rat) else repr(P[1]))
            return P
        rep.add('Q2', f, entry, 'both passes use the same matching predicate', f.node.lineno,
                len({canon(P) for P, _ in preds}) == 1, 'pass 1 and pass 2 must agree on which neighbours match')
    # the flag is computed from the raster's dtype in the wrapper
    for fl in sorted(flags):
        got = c.kc.bound.get(fl)
        env = {'raster': ('param', pub.params[0])}
        wants = [c.wt.expr(t_, env, pub) for t_ in ('bool(np.issubdtype(raster.data.dtype, np.integer))',
                                                     'np.issubdtype(raster.data.dtype, np.integer)',
                                                     'bool(np.issubdtype(raster.dtype, np.integer))',
                                                     'np.issubdtype(raster.dtype, np.integer)')]
        ok = got is not None and any(tkey(got) == tkey(x) for x in wants)
        rep.add('Q2', pub, entry, '%s = %s' % (fl, tkey(got)[:120] if got is not None else None), call.lineno, ok,
                'the exact-matching flag must be true exactly for integer-typed rasters (np.issubdtype(raster dtype, np.integer))')


def cond_key_text(P):
    return repr(P)
