"""C16 - regions labels are exactly the connected components of equal value.

Premises of the paper argument (notes/engine_sketches.md), decided on the labelling kernel reached from zonal.regions:
R1 neighbour tables are the von Neumann / Moore offsets, value window and label window use the same offset per slot,
both passes use the same tables, clamps are axis-correct; R2 pass 1: first labelled matching neighbour else a fresh
positive id, NaN cells copied through and skipped; R3 pass 2: every pair of distinct labels among matching neighbours
is merged globally in either order, no early exit; Q1 the running label counter is stored only in arrays of a fixed
wide dtype; Q2 value matching is exact equality on the integer-typed path (an equivalence relation), tolerance
arithmetic only on the float path; the wrapper keeps coords/dims/attrs.
"""
import ast

from ..astutil import calls, const, kw, parent_map, short
from ..program import AnalysisIncomplete, Func, norm

MOORE = {(-1, -1), (0, -1), (1, -1), (-1, 0), (1, 0), (-1, 1), (0, 1), (1, 1)}
NEUMANN = {(0, -1), (-1, 0), (1, 0), (0, 1)}
WIDE = ('np.float64', 'np.int64', 'np.uint64', 'float', 'numpy.float64', 'numpy.int64', "'f8'", "'i8'", 'np.uint32',
        'np.int32')
WIDE_OK = ('np.float64', 'np.int64', 'np.uint64', 'float', 'numpy.float64', 'numpy.int64', "'f8'", "'i8'")


def parse_index(e, var, ext):
    """`max(v - 1, 0)` -> (-1, 'clamped') ; `min(v + 1, ext - 1)` -> (+1, 'clamped'); `v` -> (0, 'plain')"""
    t = norm(e).replace(' ', '')
    if t == var:
        return 0, 'plain'
    if t in ('max(%s-1,0)' % var, 'max(0,%s-1)' % var):
        return -1, 'clamped'
    if t in ('min(%s+1,%s-1)' % (var, ext), 'min(%s-1,%s+1)' % (ext, var)):
        return 1, 'clamped'
    if t == '%s-1' % var:
        return -1, 'unclamped'
    if t == '%s+1' % var:
        return 1, 'unclamped'
    return None, t


def window_tables(f, stmts, data, out, yv, xv, rows, cols):
    """{window name: {slot: (dy, dx)}} from `W[k] = A[iy, ix]` stores in stmts"""
    tabs = {}
    bad = []
    for s in stmts:
        for n in ast.walk(s):
            if isinstance(n, ast.Assign) and isinstance(n.targets[0], ast.Subscript) and isinstance(n.value, ast.Subscript) \
                    and isinstance(n.targets[0].value, ast.Name) and isinstance(n.value.value, ast.Name) and \
                    n.value.value.id in (data, out) and isinstance(n.value.slice, ast.Tuple) and len(n.value.slice.elts) == 2:
                k = const(n.targets[0].slice)
                iy, ix = n.value.slice.elts
                dy, ky = parse_index(iy, yv, rows)
                dx, kx = parse_index(ix, xv, cols)
                w = n.targets[0].value.id
                if dy is None or dx is None or 'unclamped' in (ky, kx):
                    bad.append((n, 'index (%s, %s)' % (ky if dy is None else dy, kx if dx is None else dx)))
                    continue
                tabs.setdefault((w, n.value.value.id), {})[k] = (dy, dx)
    return tabs, bad


def check(prog, rep):
    m = prog.module('zonal')
    pub = m.funcs.get('regions')
    if pub is None:
        raise AnalysisIncomplete('zonal.regions not found')
    kcall = None
    for n in pub.own_nodes():
        if isinstance(n, ast.Call):
            t = prog.resolve_callable(pub, m, n.func)
            if isinstance(t, Func) and t.jit is not None:
                kcall = (n, t)
    if kcall is None:
        raise AnalysisIncomplete('regions: labelling kernel call not found')
    call, f = kcall
    entry = 'regions'
    data = f.params[0]
    # rows, cols = data.shape
    rows = cols = None
    for s in f.node.body:
        if isinstance(s, ast.Assign) and isinstance(s.targets[0], ast.Tuple) and norm(s.value) == '%s.shape' % data:
            rows, cols = [e.id for e in s.targets[0].elts]
    rets = [n for n in f.own_nodes() if isinstance(n, ast.Return)]
    out = norm(rets[-1].value) if rets else None
    passes = [s for s in f.node.body if isinstance(s, ast.For)]
    if rows is None or out is None or len(passes) != 2:
        raise AnalysisIncomplete('regions kernel: expected `rows, cols = data.shape`, two raster passes and a returned array')
    tables = []
    for pi, lp in enumerate(passes):
        inner = [s for s in lp.body if isinstance(s, ast.For)]
        ok = norm(lp.iter).replace(' ', '') in ('range(0,%s)' % rows, 'range(%s)' % rows) and len(inner) == 1 and \
            norm(inner[0].iter).replace(' ', '') in ('range(0,%s)' % cols, 'range(%s)' % cols)
        rep.add('R1-order', f, entry, 'pass %d: for %s in %s / for %s in %s' % (
            pi + 1, norm(lp.target), norm(lp.iter), norm(inner[0].target) if inner else '?', norm(inner[0].iter) if inner else '?'),
            lp.lineno, ok, 'both passes must visit every cell in raster order')
        if not ok:
            continue
        yv, xv = lp.target.id, inner[0].target.id
        body = inner[0].body
        conn = [s for s in body if isinstance(s, ast.If) and norm(s.test).replace(' ', '') in ('n==8', '8==n')]
        if len(conn) != 1:
            rep.add('R1', f, entry, 'pass %d: `if n == 8` window selection' % (pi + 1), lp.lineno, None, 'not found')
            continue
        t8, bad8 = window_tables(f, conn[0].body, data, out, yv, xv, rows, cols)
        t4, bad4 = window_tables(f, conn[0].orelse, data, out, yv, xv, rows, cols)
        for n, why in bad8 + bad4:
            rep.add('R1', f, entry, norm(n), n.lineno, False,
                    'neighbour index must be the cell index +-1 clamped to its OWN axis extent: ' + why)
        for label, tabs, want in (('8', t8, MOORE), ('4', t4, NEUMANN)):
            src = [v for (w, a), v in tabs.items() if a == data]
            lab = [v for (w, a), v in tabs.items() if a == out]
            ok = len(src) == 1 and len(lab) == 1
            if ok:
                s0, l0 = src[0], lab[0]
                same = s0 == l0
                full = set(s0.values()) == want and len(s0) == len(want) and sorted(s0) == list(range(len(want)))
                rep.add('R1', f, entry, 'pass %d, %s-connectivity: value window %s' % (pi + 1, label, sorted(s0.values())),
                        conn[0].lineno, full,
                        'the %s-neighbourhood must be exactly the %s offsets, one per slot' % (label, 'Moore' if label == '8' else 'von Neumann'))
                rep.add('R1', f, entry, 'pass %d, %s-connectivity: label window uses the same offsets' % (pi + 1, label),
                        conn[0].lineno, same, 'slot k of the label window must look at the same neighbour as slot k of '
                        'the value window: value %s label %s' % (sorted(s0.items()), sorted(l0.items())))
                tables.append((pi, label, s0))
            else:
                rep.add('R1', f, entry, 'pass %d, %s-connectivity windows' % (pi + 1, label), conn[0].lineno, False,
                        'expected one value window (from %s) and one label window (from %s)' % (data, out))
    for label in ('8', '4'):
        ts = [t for pi, lb, t in tables if lb == label]
        rep.add('R1', f, entry, '%s-connectivity: pass 2 uses the tables of pass 1' % label, f.node.lineno,
                len(ts) == 2 and ts[0] == ts[1], 'both passes must read the same neighbour set')
    check_pass1(rep, f, entry, passes[0], data, out)
    check_pass2(rep, f, entry, passes[1], data, out, rows, cols)
    check_dtypes(prog, rep, f, pub, call, entry, data, out)
    # n validated
    ok = any(isinstance(s, ast.If) and 'not in (4, 8)' in norm(s.test) and any(isinstance(x, ast.Raise) for x in s.body)
             for s in pub.own_nodes())
    rep.add('R1', pub, entry, 'neighborhood validated to be 4 or 8', pub.node.lineno, ok,
            'other neighbourhood sizes would silently use the 4-table with a wrong window length')
    rep.floor('R1', 10)
    rep.floor('R2', 4)
    rep.floor('R3', 3)
    rep.floor('Q1', 2)
    rep.floor('Q2', 2)


def check_pass1(rep, f, entry, lp, data, out):
    inner = [s for s in lp.body if isinstance(s, ast.For)][0]
    yv, xv = lp.target.id, inner.target.id
    body = inner.body
    # NaN copy-through
    nanif = [s for s in body if isinstance(s, ast.If) and norm(s.test).replace(' ', '') in ('np.isnan(val)',)]
    ok = len(nanif) == 1 and any(norm(x).replace(' ', '') == '%s[%s,%s]=val' % (out, yv, xv) for x in nanif[0].body) and \
        isinstance(nanif[0].body[-1], ast.Continue)
    rep.add('R2', f, entry, 'pass 1: NaN cells copied through and skipped', lp.lineno, ok,
            'NaN cells must stay NaN and take no label')
    # uid
    uids = [v for v in f.local_assigns().get('uid', []) if isinstance(v, ast.AST)]
    ok = len(uids) == 1 and const(uids[0]) == 1
    rep.add('R2', f, entry, 'uid = %s' % (norm(uids[0]) if uids else None), f.node.lineno, ok, 'labels are positive: ids start at 1')
    fresh = []
    for n in ast.walk(lp):
        if isinstance(n, ast.Assign) and norm(n).replace(' ', '') == '%s[%s,%s]=uid' % (out, yv, xv):
            fresh.append(n)
    pm = parent_map(lp)
    good = 0
    for n in fresh:
        blk = None
        p = pm.get(n)
        for fld in ('body', 'orelse'):
            b = getattr(p, fld, [])
            if n in b:
                blk = b
        nxt = blk[blk.index(n) + 1] if blk and blk.index(n) + 1 < len(blk) else None
        if nxt is not None and norm(nxt) == 'uid += 1':
            good += 1
    rep.add('R2', f, entry, 'fresh label sites: %d, each followed by uid += 1' % len(fresh), lp.lineno,
            len(fresh) == 2 and good == 2, 'a cell without a labelled matching neighbour takes a fresh id and the '
            'counter advances (both when no neighbour matches and when no matching neighbour is labelled yet)')
    # first labelled matching neighbour
    ok = False
    for n in ast.walk(lp):
        if isinstance(n, ast.If) and norm(n.test).replace(' ', '') in ('area_val>0',):
            ok = any(norm(x) == 'assigned_value = area_val' for x in n.body) and isinstance(n.body[-1], ast.Break)
    rep.add('R2', f, entry, 'label of the first already-labelled matching neighbour', lp.lineno, ok,
            'a cell with a labelled matching neighbour must copy that label (label > 0)')
    ok = any(isinstance(n, ast.Assign) and norm(n).replace(' ', '') == '%s[%s,%s]=assigned_value' % (out, yv, xv) for n in ast.walk(lp))
    rep.add('R2', f, entry, '%s[y, x] = assigned_value' % out, lp.lineno, ok, 'the copied label must be stored at the cell')
    # matches index into the label window
    ok = any(isinstance(n, ast.Assign) and norm(n.value).replace(' ', '') == 'area_window[neighbor_matches[j]]' for n in ast.walk(lp))
    rep.add('R2', f, entry, 'area_val = area_window[neighbor_matches[j]]', lp.lineno, ok,
            'labels are looked up at the slots of the MATCHING neighbours')


def check_pass2(rep, f, entry, lp, data, out, rows, cols):
    inner = [s for s in lp.body if isinstance(s, ast.For)][0]
    body = inner.body
    nanif = [s for s in body if isinstance(s, ast.If) and norm(s.test).replace(' ', '') in ('np.isnan(val)',)]
    ok = len(nanif) == 1 and len(nanif[0].body) == 1 and isinstance(nanif[0].body[0], ast.Continue)
    rep.add('R3', f, entry, 'pass 2: NaN cells skipped', lp.lineno, ok, 'NaN cells take part in no merge')
    merge = [s for s in body if isinstance(s, ast.For) and 'neighbor_matches' in norm(s.iter)]
    if len(merge) != 1:
        rep.add('R3', f, entry, 'pass 2 merge loop', lp.lineno, None, 'loop over the matching neighbours not found')
        return
    ml = merge[0]
    brk = [n for n in ast.walk(ml) if isinstance(n, (ast.Break, ast.Return))]
    # breaks inside the replacement loops would also be wrong
    rep.add('R3', f, entry, 'merge loop has no early exit', ml.lineno, not brk,
            'every matching neighbour must be examined: an early exit leaves labels of one component unmerged')
    # replacement loops: for y1 in range(0, rows): for x1 in range(0, cols): if out[y1,x1] == A: out[y1,x1] = B
    repl = []
    for n in ast.walk(ml):
        if isinstance(n, ast.For) and norm(n.iter).replace(' ', '') in ('range(0,%s)' % rows, 'range(%s)' % rows):
            ins = [s for s in n.body if isinstance(s, ast.For)]
            if len(ins) == 1 and norm(ins[0].iter).replace(' ', '') in ('range(0,%s)' % cols, 'range(%s)' % cols):
                y1, x1 = n.target.id, ins[0].target.id
                ifs = [s for s in ins[0].body if isinstance(s, ast.If)]
                if len(ifs) == 1 and isinstance(ifs[0].test, ast.Compare) and isinstance(ifs[0].test.ops[0], ast.Eq):
                    cell = '%s[%s, %s]' % (out, y1, x1)
                    l, r = norm(ifs[0].test.left), norm(ifs[0].test.comparators[0])
                    frm = r if l == cell else (l if r == cell else None)
                    to = None
                    for a in ifs[0].body:
                        if isinstance(a, ast.Assign) and norm(a.targets[0]) == cell:
                            to = norm(a.value)
                    repl.append((frm, to, n))
    pairs = {(a, b) for a, b, n in repl}
    ok = pairs == {('assigned_values_min', 'area_val'), ('area_val', 'assigned_values_min')}
    rep.add('R3', f, entry, 'global relabelling loops %s' % sorted(pairs), ml.lineno, ok,
            'for two distinct labels among matching neighbours the larger must be replaced by the smaller over the '
            'WHOLE raster, whichever of the two was seen first (two full-raster replacement loops, one per ordering)')
    # direction: replace larger by smaller and keep the minimum
    okdir = False
    for n in ast.walk(ml):
        if isinstance(n, ast.If) and norm(n.test).replace(' ', '') == 'assigned_values_min>area_val':
            thn = [x for a, b, x in repl if x in list(ast.walk(n)) and any(x in list(ast.walk(s)) for s in n.body)]
            els = [x for a, b, x in repl if any(x in list(ast.walk(s)) for s in n.orelse)]
            upd = any(norm(s) == 'assigned_values_min = area_val' for s in n.body)
            a1 = [(a, b) for a, b, x in repl if x in thn]
            a2 = [(a, b) for a, b, x in repl if x in els]
            okdir = a1 == [('assigned_values_min', 'area_val')] and a2 == [('area_val', 'assigned_values_min')] and upd
    rep.add('R3', f, entry, 'merge direction and running minimum', ml.lineno, okdir,
            'when the running label is larger it is replaced by the neighbour\'s label and the running label is updated; '
            'otherwise the neighbour\'s label is replaced by the running one')
    ok = any(isinstance(n, ast.Assign) and norm(n.value).replace(' ', '') == 'area_window[neighbor_matches[j]]' for n in ast.walk(ml))
    rep.add('R3', f, entry, 'area_val = area_window[neighbor_matches[j]]', ml.lineno, ok,
            'labels are looked up at the slots of the matching neighbours')


def alloc_info(f, name):
    vals = [v for v in f.local_assigns().get(name, []) if isinstance(v, ast.AST)]
    if len(vals) != 1 or not isinstance(vals[0], ast.Call):
        return None, None
    c = vals[0]
    dt = kw(c, 'dtype')
    if dt is None and short(c) in ('zeros', 'empty', 'ones') and len(c.args) > 1:
        dt = c.args[1]
    return c, (norm(dt) if dt is not None else None)


def check_dtypes(prog, rep, f, pub, call, entry, data, out):
    # Q1: arrays receiving the counter (out) and arrays receiving elements of out (label window)
    targets = {out}
    for n in f.own_nodes():
        if isinstance(n, ast.Assign) and isinstance(n.targets[0], ast.Subscript) and isinstance(n.value, ast.Subscript) and \
                norm(n.value.value) == out and isinstance(n.targets[0].value, ast.Name):
            targets.add(n.targets[0].value.id)
    for name in sorted(targets):
        c, dt = alloc_info(f, name)
        if c is None:
            rep.add('Q1', f, entry, 'allocation of %s' % name, f.node.lineno, None, 'single allocation not found')
            continue
        like = short(c).endswith('_like')
        ok = dt in WIDE_OK if not (like and dt is None) else False
        if dt is not None and ('%s.dtype' % data) in dt:
            ok = False
        if dt is None and not like:
            ok = True      # numpy default float64
        rep.add('Q1', f, entry, '%s = %s' % (name, norm(c)), c.lineno, ok,
                'the array receives the running region counter: it must have a fixed wide dtype (float64 / int64), never '
                'the input raster\'s own dtype - a uint8 raster with more than 255 regions would wrap labels (and reuse 0)')
    # Q1 (wrapper): the label image may only be cast to a fixed wide dtype afterwards
    res = None
    for n in pub.own_nodes():
        if isinstance(n, ast.Assign) and n.value is call and isinstance(n.targets[0], ast.Name):
            res = n.targets[0].id
    casts = [c for c in calls(pub.node) if short(c) == 'astype' and isinstance(c.func, ast.Attribute) and
             res is not None and norm(c.func.value) == res]
    for c in casts:
        dt = norm(c.args[0]) if c.args else None
        rep.add('Q1', pub, entry, norm(c), c.lineno, dt in WIDE_OK,
                'the label image counts regions: it may only be converted to a fixed wide dtype, never back to the input '
                'raster\'s dtype (int8 holds 127 labels, uint8 255)')
    # Q2: matching
    sites = [n for n in f.own_nodes() if isinstance(n, ast.Assign) and norm(n.targets[0]) == 'is_close']
    pm = parent_map(f.node)
    flags = set()
    for n in sites:
        t = norm(n.value).replace(' ', '')
        exact = t in ('src_window==val', 'val==src_window')
        p = pm.get(n)
        if isinstance(p, ast.If) and isinstance(p.test, ast.Name) and p.test.id in f.params + f.kwonly:
            flags.add(p.test.id)
            inbody = n in p.body
            if exact:
                rep.add('Q2', f, entry, 'if %s: %s' % (p.test.id, norm(n)), n.lineno, inbody,
                        'exact equality must be the branch taken for integer rasters')
            else:
                rep.add('Q2', f, entry, 'else: %s' % norm(n)[:80], n.lineno, not inbody,
                        'tolerance matching may only be used on the non-integer path')
        else:
            rep.add('Q2', f, entry, norm(n)[:120], n.lineno, exact,
                    'matching must be an equivalence relation on the raster values: tolerance arithmetic in the '
                    'raster\'s own dtype merges 100000 with 100001 (rtol) and overflows for int8 -128 / unsigned '
                    'differences; integer rasters need exact ==, tolerance only for floats (selected by a dtype flag)')
    # the flag is computed from the raster's dtype in the wrapper
    for fl in sorted(flags):
        actual = None
        for k in call.keywords:
            if k.arg == fl:
                actual = k.value
        if actual is None and fl in f.params and f.params.index(fl) < len(call.args):
            actual = call.args[f.params.index(fl)]
        src = actual
        if isinstance(src, ast.Name):
            vals = [v for v in pub.local_assigns().get(src.id, []) if isinstance(v, ast.AST)]
            src = vals[0] if len(vals) == 1 else None
        t = norm(src).replace(' ', '') if src is not None else ''
        ok = 'np.issubdtype(' in t and '.dtype,np.integer)' in t and pub.params[0] in t
        rep.add('Q2', pub, entry, '%s = %s' % (fl, norm(src) if src is not None else None), call.lineno, ok,
                'the exact-matching flag must be true exactly for integer-typed rasters (np.issubdtype(raster dtype, np.integer))')
