"""C09 - focal results are statistics of exactly the cells under the kernel.

Decided (Engine A): F1 focal apply: the scratch window receives data[y+dy, x+dx] at [dy+half_rows, dx+half_cols]
(identity orientation), gated by the in-raster test on the right extents and by kernel == 1 at the same index, half
sizes from the matching kernel axis, scratch buffer refilled with NaN inside the per-cell loop before use, reducer
called on the scratch buffer, every cell visited; F2 focal mean: clipped 3x3 slice with axis-correct clamps, nanmean,
excluded values copied through via NaN-aware equality, applied `passes` times to a float copy; F3 convolution:
correlation orientation kernel[w0+ii-i, w1+jj-j]*data[ii,jj] summed over the full window, interior loop bounds,
NaN elsewhere; F4 statistic table -> np.nan<stat>, range = max - min; F5 hotspots: decision table by exhaustive
enumeration of the threshold cells of z, odd in z, z = (kernel mean - global mean) / global std; kernel validation.
"""
import ast
from fractions import Fraction

from ..astutil import calls, const, kw, short
from ..kai import Arr, cmp_cond, cond_key, cond_repr, flatten_and, interpret
from ..kutil import returned_arrays, CannotEvaluate, Spec, evaluate, show, guard_atoms
from ..nanq import is_nan_aware_eq
from ..program import AnalysisIncomplete, Func, norm
from ..sym import App, Rat, Sym, walk_atoms

NAN = Rat.atom(App('nan', []))


def shp(a, i):
    return Rat.atom(App('shape', [a, i]))


def half(a, i):
    return Rat.atom(App('floordiv', [shp(a, i), Rat.const(2)]))


def check_apply(prog, rep, m):
    f = m.funcs.get('_apply_numpy')
    if f is None:
        raise AnalysisIncomplete('focal._apply_numpy not found')
    entry = 'apply'
    data, kernel, func = f.params[:3]
    # the window copy moved into a jitted helper (a phase of the kernel) is read in place
    k = interpret(prog, f, inline_procedures=True, inline_all=lambda g_: g_.jit is not None and prog.same_unit(f.module, g_.module))
    rets = returned_arrays(k)
    out = rets[0] if rets else None
    cell = [s for s in k.stores if s.arr is out and s.idx != 'all']
    if len(cell) != 1:
        red = [s for s in cell if isinstance(s.value, Rat) and any(isinstance(a, App) and a.name == 'call:%s' % func for a in s.value.atoms())]
        if len(red) == 1 and len(cell) > 1 and all(tuple(s.idx) == tuple(red[0].idx) for s in cell) and red[0].guards:
            # the reducer's value is kept on some paths only, another value is stored on the others
            oth = [s for s in cell if s is not red[0]]
            rep.add('F1', f, entry, norm(oth[0].node), oth[0].node.lineno, False,
                    'every cell gets the caller\'s reducer applied to its window, unconditionally (what an empty or all-NaN window '
                    'gives is the reducer\'s business: nansum gives 0, a count gives 0): here %s is stored instead under %s'
                    % (show(oth[0].value, 40), [cond_repr(g)[:60] for g in oth[0].guards][:2]))
            return
        rep.add('F1', f, entry, 'per-cell result store', f.node.lineno, None, 'expected exactly one store into the result')
        return
    cs = cell[0]
    Y, X = cs.idx
    loops = {lp.var: lp for lp in k.loops}
    ly, lx = loops.get(repr(Y)), loops.get(repr(X))
    ok = ly is not None and lx is not None and ly.lo == Rat.const(0) and lx.lo == Rat.const(0) and \
        ly.hi == shp(data, 0) and lx.hi == shp(data, 1)
    rep.add('F1', f, entry, 'cell loops rows [%r,%r) cols [%r,%r)' % (ly.lo if ly else None, ly.hi if ly else None,
                                                                    lx.lo if lx else None, lx.hi if lx else None),
            f.node.lineno, ok, 'every cell of the raster gets a focal value (window clipped at the edge)')
    # result = func(scratch)
    scratch = None
    v = cs.value
    for a in v.atoms():
        if isinstance(a, App) and a.name == 'call:%s' % func and len(a.args) == 1:
            for b in a.args[0].atoms():
                if isinstance(b, App) and b.name == 'arr':
                    scratch = b.args[0]
    rep.add('F1', f, entry, norm(cs.node), cs.node.lineno, scratch is not None and not cs.guards and
            v == Rat.atom(App('call:%s' % func, [Rat.atom(App('arr', [scratch]))])),
            'the result is the caller\'s reducer applied to the window buffer, unconditionally')
    if scratch is None:
        return
    sstores = [s for s in k.stores if s.arr.name == scratch]
    fills = [s for s in sstores if s.idx == 'all']
    wins = [s for s in sstores if s.idx != 'all']
    # scratch reset inside the per-cell loop, before the window stores and before the reducer call
    order = [id(s) for s in k.stores]
    okfill = len(fills) == 1 and fills[0].value == NAN and {l.var for l in fills[0].loops} == {repr(Y), repr(X)} and \
        not fills[0].guards and all(order.index(id(fills[0])) < order.index(id(w)) for w in wins) and \
        order.index(id(fills[0])) < order.index(id(cs))
    rep.add('F1', f, entry, 'window buffer reset: %s' % (norm(fills[0].node) if fills else None),
            fills[0].node.lineno if fills else f.node.lineno, okfill,
            'the window buffer must be refilled with NaN for EVERY cell (inside the per-cell loops, before the window is '
            'copied): a reset hoisted out of the loop leaks the previous cell\'s neighbours into clipped edge windows')
    if len(wins) != 1:
        rep.add('F1', f, entry, 'window copy store', f.node.lineno, False, 'expected exactly one store into the window buffer')
        return
    w = wins[0]
    wl = [l for l in w.loops if l.var not in (repr(Y), repr(X))]
    hr, hc = half(kernel, 0), half(kernel, 1)
    one = Rat.const(1)
    at = _single(w.value)
    if at is None or at.name != 'read' or at.args[0] != data or len(at.args) != 3 or len(w.idx) != 2:
        rep.add('F1', f, entry, norm(w.node), w.node.lineno, False,
                'the window buffer must receive one cell of the raster per position; got %r' % (w.value,))
        return
    a, b = w.idx            # position in the window buffer
    c, d = at.args[1], at.args[2]   # position in the raster
    ok = (c - a) == (Y - hr) and (d - b) == (X - hc)
    rep.add('F1', f, entry, norm(w.node), w.node.lineno, ok,
            'window[i, j] must receive data[y - half_rows + i, x - half_cols + j] (identity orientation: no transpose, no '
            'mirror, each half size from its own kernel axis): got window[%r, %r] <- data[%r, %r]' % (a, b, c, d))
    # the cells copied into the window: raster row c runs over [y - half_rows, y + half_rows] clipped to [0, rows), the same
    # for columns; every bound is either a bound of the window loop (a clipped range) or a guard of the store - the two
    # spellings of one set
    def terms(r, op):
        at_ = _single(r)
        if at_ is not None and at_.name == op:
            out_ = []
            for x_ in at_.args:
                out_ += terms(x_, op)
            return out_
        return [r]

    def span(pos, lvars):
        """(lower bounds, upper bounds) the window loop puts on the position expression pos"""
        vs = [l for l in lvars if Sym(l.var) in pos.atoms()]
        if len(vs) != 1 or vs[0].lo is None or vs[0].hi is None:
            return None
        off = pos - Rat.sym(vs[0].var)
        return [t_ + off for t_ in terms(vs[0].lo, 'max')], [t_ + off for t_ in terms(vs[0].hi, 'min')]
    sc, sd = span(c, wl), span(d, wl)
    gs = flatten_and(w.guards)
    keys = {cond_key(g) for g in gs if g[0] == 'cmp'}
    zero = Rat.const(0)

    def axis_ok(sp, pos, centre, ax):
        """window bounds present, raster bounds present (as loop clip or as guard), nothing else; returns (ok, guards used)"""
        if sp is None:
            return False, set()
        h_ = half(kernel, ax)
        lows, highs = list(sp[0]), list(sp[1])
        win_lo, win_his = centre - h_, (centre + h_ + one, centre - h_ + shp(kernel, ax))
        used = set()
        ok_ = any(x_ == win_lo for x_ in lows) and any(x_ in win_his for x_ in highs)
        glo, ghi = cond_key(cmp_cond('>=', pos, zero)), cond_key(cmp_cond('<', pos, shp(data, ax)))
        if glo in keys:
            used.add(glo)
        elif not any(x_ == zero for x_ in lows):
            ok_ = False
        if ghi in keys:
            used.add(ghi)
        elif not any(x_ == shp(data, ax) for x_ in highs):
            ok_ = False
        # no further bound: a tighter clip would drop neighbours
        ok_ = ok_ and all(x_ == win_lo or x_ == zero for x_ in lows) and all(x_ in win_his or x_ == shp(data, ax) for x_ in highs)
        return ok_, used
    okr, ur = axis_ok(sc, c, Y, 0)
    okc, uc = axis_ok(sd, d, X, 1)
    show_ = lambda sp: sp and ('max%s' % (tuple(map(repr, sp[0])),), 'min%s' % (tuple(map(repr, sp[1])),))     # noqa
    rep.add('F1', f, entry, 'window rows %s cols %s' % (show_(sc), show_(sd)),
            w.node.lineno, len(wl) == 2 and okr and okc,
            'the window loops must visit every kernel position that lies inside the raster: raster rows y - shape[0]//2 .. '
            'y + shape[0]//2 clipped to [0, rows), columns x - shape[1]//2 .. x + shape[1]//2 clipped to [0, cols) - the clip '
            'either as loop bounds or as guards of the copy, each axis against its own extent')
    kgate = cond_key(cmp_cond('==', Rat.atom(App('read', [kernel, a, b])), Rat.const(1)))
    ok = kgate in keys and keys == ur | uc | {kgate} and len([g for g in gs if g[0] != 'cmp']) == 0
    rep.add('F1', f, entry, 'guards of the window copy: %s' % [cond_repr(g)[:60] for g in gs], w.node.lineno, ok,
            'a neighbour is copied iff it lies inside the raster (rows against the row extent, columns against the column '
            'extent) and the kernel is 1 at the SAME window position')


def check_mean(prog, rep, m):
    f = m.funcs.get('_mean_numpy')
    if f is None:
        raise AnalysisIncomplete('focal._mean_numpy not found')
    entry = 'mean'
    data = f.params[0]
    k = interpret(prog, f)
    rets = returned_arrays(k)
    out = rets[0] if rets else None
    stores = [s for s in k.stores if s.arr is out and s.idx != 'all']
    means = [s for s in stores if any(isinstance(a, App) and a.name.startswith('reduce:') for a in s.value.atoms())]
    copies = [s for s in stores if s not in means]
    ok = False
    if len(means) == 1:
        s = means[0]
        Y, X = s.idx
        one, two, zero = Rat.const(1), Rat.const(2), Rat.const(0)
        it = Spec(prog, {}).it
        want_view = App('view', [data, (('slice', _mx(Y - one, zero), _mn(Y + two, shp(data, 0))),
                                        ('slice', _mx(X - one, zero), _mn(X + two, shp(data, 1))))])
        want = Rat.atom(App('reduce:nanmean', [Rat.atom(want_view)]))
        ok = s.value == want
        rep.add('F2', f, entry, norm(s.node), s.node.lineno, ok,
                'the mean must be np.nanmean over data[max(y-1,0):min(y+2,rows), max(x-1,0):min(x+2,cols)] (3x3 window '
                'clipped at the edge, rows clamped with rows, columns with columns); got %s' % show(s.value, 240))
    else:
        rep.add('F2', f, entry, 'nanmean store', f.node.lineno, False, 'expected exactly one windowed-mean store')
    okc = len(copies) == 1 and copies[0].value == Rat.atom(App('read', [data, copies[0].idx[0], copies[0].idx[1]]))
    rep.add('F2', f, entry, norm(copies[0].node) if copies else 'excluded copy-through', 
            copies[0].node.lineno if copies else f.node.lineno, okc, 'excluded cells pass through untouched: out[y,x] = data[y,x]')
    # complementary guards
    if len(means) == 1 and len(copies) == 1:
        g1 = {cond_key(g) for g in means[0].guards}
        g2 = {cond_key(g) for g in copies[0].guards}
        from ..kai import neg_cond
        comp = len(means[0].guards) == 1 and len(copies[0].guards) == 1 and \
            cond_key(neg_cond(means[0].guards[0])) == cond_key(copies[0].guards[0])
        rep.add('F2', f, entry, 'mean / copy-through are complementary', f.node.lineno, comp,
                'each cell takes exactly one of the two branches')
    # the exclusion predicate: the copy-through branch is taken exactly when the cell value equals some element of the
    # exclusion list under NaN-aware equality - decided by evaluating the branch condition (flag loops are unfolded
    # through their break paths; helpers are inlined) on a table of (value, element, isnan(value), isnan(element))
    check_exclusion(prog, rep, f, entry, k, copies[0] if len(copies) == 1 else None, data)
    full = [lp for lp in k.loops if lp.kind in ('range', 'prange')]
    okl = any(lp.lo == Rat.const(0) and lp.hi == shp(data, 0) for lp in full) and any(lp.lo == Rat.const(0) and lp.hi == shp(data, 1) for lp in full)
    rep.add('F2', f, entry, 'all cells visited', f.node.lineno, okl, 'rows 0..rows, cols 0..cols')
    # passes
    pub = m.funcs.get('mean')
    if pub is None:
        raise AnalysisIncomplete('focal.mean not found')
    loops = [n for n in pub.own_nodes() if isinstance(n, ast.For)]
    # `for _ in range(passes): acc = _mean(acc, excludes)`: one loop over the public `passes`, whose only statement feeds
    # the running result back into the mean routine (whatever the local is called)
    ok = False
    acc = None
    if len(loops) == 1 and norm(loops[0].iter).replace(' ', '') == 'range(passes)' and len(loops[0].body) == 1:
        st = loops[0].body[0]
        if isinstance(st, ast.Assign) and isinstance(st.targets[0], ast.Name) and isinstance(st.value, ast.Call):
            t_ = prog.resolve_callable(pub, m, st.value.func)
            from ..backends import reachable as _reach
            b_ = dict(zip(t_.params, st.value.args)) if isinstance(t_, Func) else {}
            b_.update({k_.arg: k_.value for k_ in st.value.keywords if k_.arg})
            a_ = [b_[p_] for p_ in t_.params if p_ in b_] if isinstance(t_, Func) else []
            if isinstance(t_, Func) and (t_ is f or any(g_ is f for g_ in _reach(prog, t_, 3))) and len(a_) == 2 and isinstance(a_[0], ast.Name) and a_[0].id == st.targets[0].id and \
                    norm(a_[1]).replace(' ', '') in ('excludes', 'tuple(excludes)'):
                ok, acc = True, st.targets[0].id
    rep.add('F2', pub, entry, 'for i in range(passes): out = _mean(out, excludes)', pub.node.lineno, ok,
            'the 3x3 mean is applied exactly `passes` times, each pass on the previous result')
    init = [v for v in pub.local_assigns().get(acc, []) if isinstance(v, ast.AST) and 'astype' in norm(v)] if acc else []
    rp = pub.params[0]
    ok = len(init) == 1 and norm(init[0]).replace(' ', '') in tuple('%s.%s.astype(%s)' % (rp, d_, t_) for d_ in ('data', 'values')
                                                                    for t_ in ('float', 'np.float64', 'np.float32'))
    rep.add('F2', pub, entry, 'running result starts as %s' % (norm(init[0]) if init else None), pub.node.lineno, ok,
            'the passes start from a float copy of the input')


def check_exclusion(prog, rep, f, entry, k, copy, data):
    from ..kutil import CannotEvaluate, eval_cond_full, guard_atoms
    from fractions import Fraction as F
    if copy is None or len(copy.idx) != 2:
        rep.add('F2', f, entry, 'excluded test', f.node.lineno, None, 'copy-through store not identified')
        return
    line = copy.node.lineno
    v = App('read', [data, copy.idx[0], copy.idx[1]])
    guards = list(copy.guards)
    atoms = guard_atoms(guards)
    flags = [a for a in atoms if isinstance(a, App) and a.name == 'loopout']
    paths = None
    shown = cond_repr(guards[0])[:160] if guards else 'unconditional'
    if flags:
        # flag form: `flag = False; for e in excludes: if TEST: flag = True; break` - the flag is set on the break paths
        if len(flags) != 1 or len(guards) != 1:
            rep.add('F2', f, entry, 'excluded test: %s' % shown, line, None, 'several flags')
            return
        fl = flags[0]
        L = next((lp for lp in k.loops if Rat.sym(lp.var) == fl.args[1]), None)
        name = next(iter(fl.args[0].atoms())).name if isinstance(fl.args[0], Rat) else None
        if L is None or name is None:
            rep.add('F2', f, entry, 'excluded test: %s' % shown, line, None, 'flag loop not found')
            return
        pre = L.pre.get(name)
        setters = [(g, envb.get(name)) for g, envb, nb in getattr(L, 'breaks', [])]
        unchanged = name in getattr(L, 'carried', {}) and L.carried[name][1] == Rat.atom(App('bool', [('truth', L.carried[name][0])]))
        okflag = pre == ('const', False) and setters and all(val == ('const', True) for g, val in setters) and unchanged
        flag_atom = fl
        if not okflag:
            rep.add('F2', f, entry, 'excluded test: %s' % shown, line, None if okflag else False,
                    'the exclusion flag must start False and be set True exactly on the matching paths '
                    '(start %r, setters %d, unchanged otherwise %s)' % (pre, len(setters), unchanged))
            return
        paths = [g for g, val in setters]
        atoms = set()
        for g in paths:
            atoms |= guard_atoms(g)
        loop_of = L
    else:
        paths = [guards]
        loop_of = None
        flag_atom = None
    es = [a for a in atoms if isinstance(a, App) and a.name == 'elem']
    nv = [a for a in atoms if isinstance(a, App) and a.name == 'isnan' and a.args[0] == Rat.atom(v)]
    ne = [a for a in atoms if isinstance(a, App) and a.name == 'isnan' and es and a.args[0] == Rat.atom(es[0])]
    other = [a for a in atoms if a not in es + nv + ne + [v] and not isinstance(a, Sym) and
             not (isinstance(a, App) and a.name in ('ite', 'bool', 'abs', 'min', 'max'))]
    tolerant = [a for a in other if isinstance(a, App) and a.name.split('.')[-1] in ('isclose', 'allclose')]
    for a in other:
        # a helper of the package that the interpreter left as a call: does it apply a tolerance test to its arguments?
        if isinstance(a, App) and a.name.startswith('call:'):
            h = f.module.funcs.get(a.name[5:].split('.')[-1])
            if h is not None and any(isinstance(c_, ast.Call) and norm(c_.func).split('.')[-1] in ('isclose', 'allclose') and
                                     any(isinstance(x_, ast.Name) and x_.id in h.params for a_ in c_.args for x_ in ast.walk(a_))
                                     for c_ in ast.walk(h.node)):
                tolerant.append(a)
    if tolerant:
        rep.add('F2', f, entry, 'excluded test: %s' % shown, line, False,
                'a cell is excluded exactly when it EQUALS an excluded value (NaN matching NaN): %s accepts every value within a '
                'tolerance, so cells next to an excluded value pass through unsmoothed' % show(tolerant, 80))
        return
    if len(es) != 1 or other:
        rep.add('F2', f, entry, 'excluded test: %s' % shown, line, None if other else False,
                'the cell value must be compared with the elements of the exclusion list (element reads %d, other quantities %s)' % (
                    len(es), show(other, 120)))
        return
    # the elements come from the whole exclusion list
    e = es[0]
    base = e.args[0]
    bname = next(iter(base.atoms())).name if isinstance(base, Rat) and base.atoms() else str(base)
    bound = {f.params[1]}
    for r in getattr(k, 'inlined', []):
        for p, a in zip(r[0].params, r[1]):
            if a == ('param', f.params[1]) or (isinstance(a, Rat) and a == Rat.sym(f.params[1])):
                bound.add(p)
    okbase = bname in bound
    res = []
    try:
        for title, vv, ev, nvv, nev, want in (('equal numbers', 3, 3, 0, 0, True), ('different numbers', 3, 4, 0, 0, False),
                                               ('different numbers (reversed)', 4, 3, 0, 0, False),
                                               ('nearly equal numbers', 3, F(3) + F(1, 10**7), 0, 0, False),
                                               ('large neighbouring numbers', 10**12, 10**12 + 1, 0, 0, False),
                                               ('NaN value, NaN element', 1, 2, 1, 1, True), ('NaN value, number element', 1, 2, 1, 0, False),
                                               ('number value, NaN element', 1, 2, 0, 1, False)):
            env = {v: F(vv), e: F(ev)}
            for a in nv:
                env[a] = F(nvv)
            for a in ne:
                env[a] = F(nev)
            got = any(all(eval_cond_full(g, env) for g in p) for p in paths)
            if flag_atom is not None:
                # how the branch uses the flag
                got = all(eval_cond_full(g, {flag_atom: F(1 if got else 0)}) for g in guards)
            res.append((title, got, want))
    except CannotEvaluate as ex:
        rep.add('F2', f, entry, 'excluded test: %s' % shown, line, None, 'not evaluable: %s' % ex)
        return
    bad = [(t, g) for t, g, w in res if g != w]
    rep.add('F2', f, entry, 'excluded test: %s' % shown, line, not bad and okbase,
            'a cell is passed through exactly when its value equals an element of the exclusion list, NaN matching NaN (the '
            'default list is [NaN]); wrong for %s%s' % (bad, '' if okbase else '; elements are not drawn from the exclusion list'))


def _mx(a, b):
    ka, kb = sorted([a, b], key=lambda r: repr(r.canon_key()))
    return Rat.atom(App('max', [ka, kb]))


def _mn(a, b):
    ka, kb = sorted([a, b], key=lambda r: repr(r.canon_key()))
    return Rat.atom(App('min', [ka, kb]))


def check_convolve(prog, rep):
    m = prog.module('convolution')
    f = m.funcs.get('_convolve_2d_numpy')
    if f is None:
        raise AnalysisIncomplete('_convolve_2d_numpy not found')
    entry = 'convolution_2d'
    data, kernel = f.params[:2]
    k = interpret(prog, f)
    # which parameter is the raster and which the kernel, by use: the per-cell loops are bounded by the raster's own extent
    # (the kernel's extent only enters halved, as the margin)
    ext = set()
    for lp in k.loops:
        if isinstance(lp.hi, Rat):
            for a in lp.hi.atoms():
                if isinstance(a, App) and a.name == 'shape' and a.args[0] in f.params:
                    ext.add(a.args[0])
    if len(ext) == 1 and len(f.params) == 2:
        data = next(iter(ext))
        kernel = [p_ for p_ in f.params if p_ != data][0]
    rets = returned_arrays(k)
    out = rets[0] if rets else None
    rep.add('F3', f, entry, 'output initialised %r' % getattr(out, 'init', None), f.node.lineno,
            getattr(out, 'init', None) == 'nan', 'cells whose window leaves the raster must be NaN: NaN-initialised output')
    cell = [s for s in k.stores if s.arr is out and s.idx != 'all']
    if len(cell) != 1:
        rep.add('F3', f, entry, 'per-cell store', f.node.lineno, False, 'expected exactly one store')
        return
    s = cell[0]
    I, J = s.idx
    w0, w1 = half(kernel, 0), half(kernel, 1)
    loops = {lp.var: lp for lp in k.loops}
    li, lj = loops.get(repr(I)), loops.get(repr(J))
    ok = li is not None and lj is not None and li.lo == w0 and li.hi == shp(data, 0) - w0 and lj.lo == w1 and lj.hi == shp(data, 1) - w1
    rep.add('F3', f, entry, 'interior loops rows [%r,%r) cols [%r,%r)' % (li.lo if li else None, li.hi if li else None,
                                                                         lj.lo if lj else None, lj.hi if lj else None),
            f.node.lineno, ok, 'the convolution is computed exactly where the full window fits: rows w0..n0-w0, cols '
            'w1..n1-w1 with w = kernel.shape // 2 of the matching axis')
    # value = sum_ii sum_jj kernel[w0+ii-i, w1+jj-j] * data[ii, jj]
    v = s.value
    ok = False
    got = show(v, 200)
    at = _single(v)
    if at is not None and at.name == 'sum':
        ii, lo1, hi1, t1 = at.args
        at2 = _single(t1)
        if at2 is not None and at2.name == 'sum':
            jj, lo2, hi2, t2 = at2.args
            one = Rat.const(1)
            # whatever the two summation variables count (absolute rows / columns, or offsets from the centre): the raster cell
            # read is (ii + c0, jj + d0) with c0, d0 free of them, it runs over the window rows / columns, and the kernel entry
            # read with it is the one at the same offset from the kernel's centre
            rd = [a_ for a_ in t2.atoms() if isinstance(a_, App) and a_.name == 'read']
            kr = [a_ for a_ in rd if a_.args[0] == kernel and len(a_.args) == 3]
            dr = [a_ for a_ in rd if a_.args[0] == data and len(a_.args) == 3]
            if len(kr) == 1 and len(dr) == 1 and t2 == Rat.atom(kr[0]) * Rat.atom(dr[0]):
                A, B = kr[0].args[1:]
                C, D = dr[0].args[1:]
                c0, d0 = C - ii, D - jj
                bound = set(ii.atoms()) | set(jj.atoms())
                free = not (set(c0.atoms()) & bound) and not (set(d0.atoms()) & bound)
                la, ha, lb, hb = lo1 + c0, hi1 + c0, lo2 + d0, hi2 + d0
                b_ok = la == _mx(I - w0, Rat.const(0)) and ha == _mn(I + w0 + one, shp(data, 0)) and \
                    lb == _mx(J - w1, Rat.const(0)) and hb == _mn(J + w1 + one, shp(data, 1))
                b_ok = b_ok or (la == I - w0 and ha == I + w0 + one and lb == J - w1 and hb == J + w1 + one)
                ok = free and b_ok and (A - C) == (w0 - I) and (B - D) == (w1 - J)
    rep.add('F3', f, entry, norm(s.node), s.node.lineno, ok and not s.guards,
            'the value must be the sum over the full window of kernel[w0+ii-i, w1+jj-j] * data[ii, jj] (correlation '
            'orientation, no transpose); got %s' % got)


def _single(r):
    if isinstance(r, Rat) and r.d.is_const() and len(r.n.t) == 1:
        (mm, c), = r.n.t.items()
        if len(mm) == 1 and mm[0][1] == 1 and c == r.d.const_value() and isinstance(mm[0][0], App):
            return mm[0][0]
    return None


def check_stats_table(prog, rep, m):
    entry = 'focal_stats'
    f = m.funcs.get('_focal_stats_cpu')
    if f is None:
        raise AnalysisIncomplete('_focal_stats_cpu not found')
    table = None
    for n in f.own_nodes():
        if isinstance(n, ast.Assign) and isinstance(n.value, ast.Dict):
            table = n.value
    if table is None:
        # the table written where it is used (`{...}[stat]`): a dict literal of name -> reducer
        for n in f.own_nodes():
            if isinstance(n, ast.Dict) and n.keys and all(isinstance(k_, ast.Constant) and isinstance(k_.value, str) for k_ in n.keys):
                table = n
    tname_mod = None
    if table is None:
        # the table may be a module-level constant the function subscripts
        for n in f.own_nodes():
            if isinstance(n, ast.Subscript) and isinstance(n.value, ast.Name) and table is None:
                r_ = prog.resolve_name(f, m, n.value.id)
                if isinstance(r_, tuple) and r_ and r_[0] == 'modvalue' and isinstance(r_[3], ast.Dict):
                    table, tname_mod = r_[3], n.value.id
    if table is None:
        rep.add('F4', f, entry, 'statistic table', f.node.lineno, None, 'dict literal not found')
        return
    want_np = {'mean': 'nanmean', 'sum': 'nansum', 'min': 'nanmin', 'max': 'nanmax', 'std': 'nanstd', 'var': 'nanvar'}
    for kx, v in zip(table.keys, table.values):
        key = const(kx)
        g = prog.resolve_callable(f, m, v)
        ok = False
        body = None
        if isinstance(g, Func):
            p = g.params[0]
            try:
                kk = interpret(prog, g)
                val = kk.returns[0][0] if len(kk.returns) == 1 else None
            except AnalysisIncomplete:
                val = None
            body = show(val, 100)
            for arr in (Rat.atom(App('arr', [p])), Rat.sym(p)):
                red = lambda nm: Rat.atom(App('reduce:' + nm, [arr]))   # noqa
                if isinstance(val, Rat):
                    if key in want_np:
                        ok = ok or val == red(want_np[key])
                    elif key == 'range':
                        ok = ok or val == red('nanmax') - red('nanmin')
        rep.add('F4', f, entry, "%r -> %s: %s" % (key, norm(v), body), v.lineno, ok,
                'statistic %r must be the NaN-ignoring NumPy reducer of the same name over the window (range = max - min)' % key)
    # each statistic applied through apply() with the same kernel and raster
    # apply(<raster>, <kernel>, func=<table>[<the statistic of the enclosing loop over the requested names>])
    tname = next((n.targets[0].id for n in f.own_nodes() if isinstance(n, ast.Assign) and n.value is table and isinstance(n.targets[0], ast.Name)), None) or tname_mod
    ok = False
    apf = m.funcs.get('apply')
    # the loop over the requested names: a for statement or a comprehension
    scopes = [(n.target, n.iter, n) for n in f.own_nodes() if isinstance(n, ast.For) and isinstance(n.target, ast.Name)]
    scopes += [(g_.target, g_.iter, n) for n in f.own_nodes() if isinstance(n, (ast.ListComp, ast.GeneratorExp)) for g_ in n.generators
               if isinstance(g_.target, ast.Name)]

    class _L:
        pass
    for tgt_, iter_, node_ in scopes:
        lp_ = _L()
        lp_.target, lp_.iter = tgt_, iter_
        for c in calls(node_):
            if prog.resolve_callable(f, m, c.func) is apf and apf is not None:
                b_ = dict(zip(apf.params, c.args))
                b_.update({k_.arg: k_.value for k_ in c.keywords if k_.arg})
                fa = b_.get('func')
                if len(f.params) >= 2 and norm(b_.get(apf.params[0])) == f.params[0] and norm(b_.get(apf.params[1])) == f.params[1] and \
                        isinstance(fa, ast.Subscript) and ((isinstance(fa.value, ast.Name) and fa.value.id == tname) or fa.value is table) and \
                        norm(fa.slice) == lp_.target.id and isinstance(lp_.iter, ast.Name) and lp_.iter.id in f.params:
                    ok = True
    rep.add('F4', f, entry, 'apply(agg, kernel, func=_function_mapping[stats])', f.node.lineno, ok,
            'each requested statistic is focal apply with the table\'s reducer')
    cc = [c for c in calls(f.node) if short(c) == 'concat']
    ok = len(cc) == 1 and 'stats_funcs' in norm(cc[0]) and "name='stats'" in norm(cc[0])
    rep.add('F4', f, entry, norm(cc[0])[:100] if cc else 'concat', f.node.lineno, ok,
            'results are stacked along `stats` in the order of the requested names')


def check_hotspots(prog, rep, m):
    entry = 'hotspots'
    f = m.funcs.get('_calc_hotspots_numpy')
    if f is None:
        raise AnalysisIncomplete('_calc_hotspots_numpy not found')
    k = interpret(prog, f)
    rets = returned_arrays(k)
    out = rets[0] if rets else None
    cell = [s for s in k.stores if s.arr is out and s.idx != 'all']
    if len(cell) != 1 or cell[0].guards:
        rep.add('F5', f, entry, 'per-cell store', f.node.lineno, False, 'expected one unconditional store per cell')
        return
    s = cell[0]
    zat = None
    for a in walk_atoms(s.value):
        if isinstance(a, App) and a.name == 'read' and a.args[0] == f.params[0] and tuple(a.args[1:]) == tuple(s.idx):
            zat = a
    others = [a for a in walk_atoms(s.value) if isinstance(a, App) and a.name == 'read' and a is not zat and a != zat]
    if zat is None or others:
        rep.add('F5', f, entry, norm(s.node), s.node.lineno, False, 'the class of a cell must depend on its own z-score only')
        return
    ths = [Fraction('1.29'), Fraction('1.65'), Fraction('1.96'), Fraction('2.33'), Fraction('2.58')]
    for a in walk_atoms(s.value):
        pass
    pts = {Fraction(0)}
    allt = sorted(set(ths))
    eps = Fraction(1, 1000)
    for t in allt:
        pts |= {t, t - eps, t + eps}
    pts |= {Fraction(5), Fraction(1, 2)}
    pts = sorted(pts | {-p for p in pts})

    def want(z):
        az = abs(z)
        c = 99 if az > Fraction('2.58') else 95 if az > Fraction('1.96') else 90 if az > Fraction('1.65') else 0
        return c if z > 0 else -c if z < 0 else 0
    bad = []
    n = 0
    try:
        for z in pts:
            got = evaluate(s.value, {zat: z})
            n += 1
            if got != want(z):
                bad.append((str(z), str(got), want(z)))
    except CannotEvaluate as e:
        rep.add('F5', f, entry, norm(s.node), s.node.lineno, None, 'decision table not evaluable: %s' % e)
        return
    rep.add('F5', f, entry, 'decision table over %d points around the thresholds of z (both signs)' % n, s.node.lineno, not bad,
            'hotspots must return 0 for |z| <= 1.65, +-90 up to 1.96, +-95 up to 2.58, +-99 above, with the sign of z '
            '(hence odd in z: negating the raster negates the result); mismatches (z, got, want): %s' % bad[:5],
            facts={'points': n})
    # z = (kernel mean - global mean) / global std on both paths
    for fn, mod in (('_hotspots_numpy', 'np'), ('_hotspots_dask_numpy', 'da')):
        g = m.funcs.get(fn)
        if g is None:
            raise AnalysisIncomplete('%s not found' % fn)
        # on wrapper terms: what reaches the classifying kernel (directly, or as the array whose blocks are mapped) is
        # (convolve_2d(d, k / k.sum()) - nanmean(d)) / nanstd(d) with d the raster's data as float32
        from ..wterm import WT, key as tkey
        cv = prog.module('convolution').funcs.get('convolve_2d')
        kf = m.funcs.get('_calc_hotspots_numpy')
        w = WT(prog, keep=[x_ for x_ in (cv, kf) if x_ is not None])
        w.noserial = True
        w.run(g)
        env_ = {'raster': ('param', g.params[0]), 'kernel': ('param', g.params[1])}
        want = w.expr('(convolve_2d(raster.data.astype(np.float32), kernel / kernel.sum()) - %s.nanmean(raster.data.astype(np.float32))) / '
                      '%s.nanstd(raster.data.astype(np.float32))' % (mod, mod), env_, g)
        zs = [x.args[0] for x in w.calls if x.callee is kf and x.args]
        zs += [x.callee[1] for x in w.calls if isinstance(x.callee, tuple) and x.callee[0] == 'method' and x.callee[2] in ('map_blocks', 'map_overlap')]
        zs += [x.args[1] for x in w.calls if str(x.name).endswith(('map_blocks', 'map_overlap')) and len(x.args) > 1 and not isinstance(x.callee, tuple)]

        def strip_serial(t_):
            if isinstance(t_, tuple):
                if len(t_) == 5 and t_[0] == 'call' and isinstance(t_[4], int):
                    t_ = t_[:4]
                return tuple(strip_serial(x_) for x_ in t_)
            return t_
        def uncast(t_):
            # a cast of the z-scores to the working float type they already have (`z.astype(np.float32, copy=False)`)
            while isinstance(t_, tuple) and len(t_) == 3 and t_[0] == 'cast' and t_[2] in (('global', 'np.float32'), ('const', 'f4'), ('const', 'float32')):
                t_ = t_[1]
            return t_
        ok = any(tkey(strip_serial(uncast(z_))) == tkey(strip_serial(want)) for z_ in zs) if zs else None
        rep.add('F5', g, entry, '%s: z = (convolve(data, kernel/sum) - nanmean(data)) / nanstd(data)' % fn, g.node.lineno, ok,
                'the z-score compares the kernel-weighted neighbourhood mean with the GLOBAL mean and std of the raster')
    # kernel validation
    for fn in ('apply', 'focal_stats'):
        g = m.funcs.get(fn)
        ok = g is not None and any(isinstance(x, ast.Assign) and norm(x).replace(' ', '') == 'kernel=custom_kernel(kernel)' for x in g.own_nodes())
        ck = prog.module('convolution').funcs.get('custom_kernel')
        if not ok and g is not None and ck is not None:
            # on wrapper terms: the caller's kernel goes through custom_kernel, and nothing else receives it unvalidated
            from ..wterm import WT as _WT
            kp = next((p_ for p_ in g.params if 'kernel' in p_), None)
            w_ = _WT(prog, depth=4, keep=[ck])
            try:
                w_.run(g)
                raw = ('param', kp)
                validated = [c_ for c_ in w_.calls if c_.callee is ck and c_.args and c_.args[0] == raw]
                leaked = [c_ for c_ in w_.calls if c_.callee is not ck and (raw in list(c_.args) or raw in list(c_.kwargs.values()))
                          and not (isinstance(c_.callee, tuple) and c_.callee[0] == 'global' and c_.callee[1] in ('isinstance', 'len', 'type'))]
                ok = bool(validated) and not leaked
            except Exception:      # noqa
                ok = None
        rep.add('F6', g or m, fn, 'kernel = custom_kernel(kernel)', g.node.lineno if g else 1, ok,
                'the kernel must be validated (ndarray, odd shape) before use')


def check_dask_halos(prog, rep):
    """the property is backend-neutral: on Dask rasters the window must reach across chunk borders, i.e. the halo of
    every focal op covers its kernel footprint per axis (same rules as C01-H0/H1/H2/H2f, applied to the focal ops)."""
    from . import C01
    from ..sharedrules import FloatProv
    from ..dasksites import sites_in
    C01.FLOATPROV[0] = FloatProv(prog)
    for modname, fname in (('focal', 'mean'), ('focal', 'apply'), ('focal', 'focal_stats'), ('focal', 'hotspots'),
                           ('convolution', 'convolution_2d')):
        pub = prog.module(modname).funcs.get(fname)
        if pub is None:
            raise AnalysisIncomplete('%s.%s not found' % (modname, fname))
        disp = C01.find_dispatch(prog, pub)
        if disp is None:
            raise AnalysisIncomplete('%s: dispatch not found' % fname)
        dfunc, paths = disp
        f_np, _ = C01.path_target(prog, paths['numpy'])
        f_da, _ = C01.path_target(prog, paths['dask'])
        np_funcs = C01.dask_reachable(prog, f_np, 'numpy')
        for g in C01.dask_reachable(prog, f_da, 'dask'):
            if g.jit is not None:
                continue
            from ..dasksites import expanded_sites
            for site in expanded_sites(prog, g):
                if site.kernel() is not None and not C01.is_gpu(site.kernel()) and not C01.is_gpu(site.scope):
                    C01.check_site(prog, rep, '%s[dask]' % fname, site, np_funcs,
                                   C01.SAME if fname != 'hotspots' else C01.PIPE)


def check(prog, rep):
    check_dask_halos(prog, rep)
    m = prog.module('focal')
    check_apply(prog, rep, m)
    check_mean(prog, rep, m)
    check_convolve(prog, rep)
    check_stats_table(prog, rep, m)
    check_hotspots(prog, rep, m)
    from ..sharedrules import check_dispatch_passthrough
    for fn in ('apply', 'hotspots'):
        if m.funcs.get(fn) is not None:
            check_dispatch_passthrough(prog, rep, 'F7-pass', m.funcs[fn])
    cv = prog.module('convolution').funcs.get('convolution_2d')
    if cv is not None:
        check_dispatch_passthrough(prog, rep, 'F7-pass', cv)
    from ..sharedrules import check_values_keep_dtype
    for fn_ in ('mean', 'apply', 'focal_stats', 'hotspots'):
        if m.funcs.get(fn_) is not None:
            check_values_keep_dtype(prog, rep, 'F2-dtype', m.funcs[fn_])
    if cv is not None:
        check_values_keep_dtype(prog, rep, 'F2-dtype', cv)       # the kernel's weights are the caller's, not the raster's dtype
    rep.floor('F2-dtype', 4)
    rep.floor('F7-pass', 5)
    rep.floor('H1', 10)
    rep.floor('F1', 6)
    rep.floor('F2', 6)
    rep.floor('F3', 3)
    rep.floor('F4', 8)
    rep.floor('F5', 3)
