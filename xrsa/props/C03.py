"""C03 - zonal tables do not depend on how Dask rasters are chunked.

Decided: Z6a per-block partial / cross-block combiner pairs are associative merges over axis 0; Z6b derived statistics
formulas and argument binding; Z6c NaN transparency of the additive merges; Z6d no arithmetic in the raster's own
dtype before widening; Z7 zone/category ids are global; Z8 crosstab blocks merged key-wise then normalised; Z9 block
pairing dominated by chunk alignment; Z2 ascending labels on the dask tables; Z1/Z3/Z4/Z4b on the per-block code.
"""
from .. import zonalrules as Z


def check(prog, rep):
    m, pub, fs = Z.zonal_funcs(prog, 'stats')
    m, pubc, fsc = Z.zonal_funcs(prog, 'crosstab')
    allf = list({id(f): f for f in fs + fsc}.values())
    entry = lambda f: 'stats/crosstab[dask]'   # noqa
    from ..sharedrules import check_value_truthiness
    check_value_truthiness(prog, rep, 'Z3-truth', pub, 'stats')
    check_value_truthiness(prog, rep, 'Z3-truth', pubc, 'crosstab')
    rep.floor('Z3-truth', 2)
    Z.check_dask_tables(prog, rep, m, 'stats[dask]')
    Z.check_derived_stats(prog, rep, m, fs, 'stats[dask]')
    Z.check_global_ids(prog, rep, m, 'stats/crosstab[dask]')
    Z.check_crosstab_merge(prog, rep, m, 'crosstab[dask]')
    from ..sharedrules import check_validate_arrays
    check_validate_arrays(prog, rep, 'Z9-helper', 'validate_arrays')
    Z.check_alignment(prog, rep, m, 'stats', 'stats[dask]')
    Z.check_alignment(prog, rep, m, 'crosstab', 'crosstab[dask]')
    dask_side = [f for f in allf if 'dask' in f.qualname or (f.jit is not None and f.jit.kind == 'delayed')]
    Z.check_zone_labels(prog, rep, [f for f in allf if 'dask' in f.qualname or f.name == '_select_ids'], entry)
    Z.check_cursors(rep, dask_side, 'C03', entry, prog=prog)
    Z.check_unique_zones(prog, rep, dask_side, entry)
    Z.check_index_space(prog, rep, allf, entry)
    Z.check_flatten_order(prog, rep, allf, entry)
    Z.check_positional_id_use(prog, rep, allf, entry)
    Z.check_selection(prog, rep, allf, entry, 'zone_ids')
    Z.check_selection(prog, rep, allf, entry, 'cat_ids')
    Z.check_strides(prog, rep, m, 'stats/crosstab[dask]')     # every block is strided against the global ids: the stride routine is part of the dask statement
    rep.floor('Z6a', 10)
    rep.floor('Z6b', 6)
    rep.floor('Z6c', 3)
    rep.floor('Z6d', 1)
    rep.floor('Z7', 2)
    rep.floor('Z8', 3)
    rep.floor('Z9', 2)
    rep.floor('Z9-helper', 2)
    rep.floor('Z2', 2)
