"""C10 - analysis functions never modify their inputs and keep the raster's identity.

Engine D (flow-sensitive may-alias + mutation summaries over the call graph, numpy and dask paths at once):
 P1 no mutator reaches a value that may share memory with (or is) a raster parameter - subscript stores, augmented
    assignment, in-place methods, out= keywords, attribute stores on the input object, through any callee;
    the attribute stores present in the tree are an explicit exception table;
 P2 the array wrapped into the result shares no memory with a raster parameter (trim/crop: documented views);
 P3 the result is built with the input's coords, dims and attrs (attrs deep-copied where edited).
"""
import ast

from ..astutil import short
from ..effects import CONT, MEM, OBJ, CMEM, LSTORE, Effects, is_arraylike
from ..program import AnalysisIncomplete, Ext, Func, Partial, norm

# (module, function): (raster params, category)
STANDARD, OWNSHAPE, VIEW, TABLE, INPLACE = 'standard', 'own-shape', 'view', 'table', 'in-place'
ENTRIES = {
    ('aspect', 'aspect'): (['agg'], STANDARD),
    ('slope', 'slope'): (['agg'], STANDARD),
    ('curvature', 'curvature'): (['agg'], STANDARD),
    ('hillshade', 'hillshade'): (['agg'], STANDARD),
    ('classify', 'binary'): (['agg'], STANDARD),
    ('classify', 'reclassify'): (['agg'], STANDARD),
    ('classify', 'quantile'): (['agg'], STANDARD),
    ('classify', 'natural_breaks'): (['agg'], STANDARD),
    ('classify', 'equal_interval'): (['agg'], STANDARD),
    ('convolution', 'convolution_2d'): (['agg'], STANDARD),
    ('focal', 'mean'): (['agg'], STANDARD),
    ('focal', 'apply'): (['raster'], STANDARD),
    ('focal', 'hotspots'): (['raster'], STANDARD),
    ('focal', 'focal_stats'): (['agg'], OWNSHAPE),
    ('multispectral', 'arvi'): (['nir_agg', 'red_agg', 'blue_agg'], STANDARD),
    ('multispectral', 'evi'): (['nir_agg', 'red_agg', 'blue_agg'], STANDARD),
    ('multispectral', 'gci'): (['nir_agg', 'green_agg'], STANDARD),
    ('multispectral', 'nbr'): (['nir_agg', 'swir2_agg'], STANDARD),
    ('multispectral', 'nbr2'): (['swir1_agg', 'swir2_agg'], STANDARD),
    ('multispectral', 'ndvi'): (['nir_agg', 'red_agg'], STANDARD),
    ('multispectral', 'ndmi'): (['nir_agg', 'swir1_agg'], STANDARD),
    ('multispectral', 'savi'): (['nir_agg', 'red_agg'], STANDARD),
    ('multispectral', 'sipi'): (['nir_agg', 'red_agg', 'blue_agg'], STANDARD),
    ('multispectral', 'ebbi'): (['red_agg', 'swir_agg', 'tir_agg'], STANDARD),
    ('multispectral', 'true_color'): (['r', 'g', 'b'], OWNSHAPE),
    ('pathfinding', 'a_star_search'): (['surface'], STANDARD),
    ('proximity', 'proximity'): (['raster'], STANDARD),
    ('proximity', 'allocation'): (['raster'], STANDARD),
    ('proximity', 'direction'): (['raster'], STANDARD),
    ('viewshed', 'viewshed'): (['raster'], STANDARD),
    ('zonal', 'regions'): (['raster'], STANDARD),
    ('zonal', 'stats'): (['zones', 'values'], TABLE),
    ('zonal', 'crosstab'): (['zones', 'values'], TABLE),
    ('zonal', 'apply'): (['zones', 'values'], INPLACE),
    ('zonal', 'trim'): (['raster'], VIEW),
    ('zonal', 'crop'): (['zones', 'values'], VIEW),
    ('perlin', 'perlin'): (['agg'], OWNSHAPE),
    ('terrain', 'generate_terrain'): (['agg'], OWNSHAPE),
    ('analytics', 'summarize_terrain'): (['terrain'], OWNSHAPE),
    ('experimental.polygonize', 'polygonize'): (['raster', 'mask'], OWNSHAPE),
    ('local', 'cell_stats'): (['raster'], OWNSHAPE),
    ('local', 'combine'): (['raster'], OWNSHAPE),
    ('local', 'lesser_frequency'): (['raster'], OWNSHAPE),
    ('local', 'equal_frequency'): (['raster'], OWNSHAPE),
    ('local', 'greater_frequency'): (['raster'], OWNSHAPE),
    ('local', 'lowest_position'): (['raster'], OWNSHAPE),
    ('local', 'highest_position'): (['raster'], OWNSHAPE),
    ('local', 'popularity'): (['raster'], OWNSHAPE),
    ('local', 'rank'): (['raster'], OWNSHAPE),
}


def origin_event(e):
    while getattr(e, 'origin', None) is not None and e.origin is not e:
        e = e.origin
    return e


def attr_store_exception(entry, ev):
    """the explicit table of attribute stores on inputs (DESIGN C10-P1). Returns reason or None."""
    o = origin_event(ev)
    node = o.node
    if not (isinstance(node, ast.Assign) and isinstance(node.targets[0], ast.Attribute)):
        return None
    t = node.targets[0]
    v = node.value
    obj = norm(t.value)
    # 1. value-preserving rechunk: X.data = X.data.rechunk(...)
    if t.attr == 'data' and isinstance(v, ast.Call) and isinstance(v.func, ast.Attribute) and v.func.attr == 'rechunk' \
            and norm(v.func.value) == obj + '.data':
        return 'value-preserving rechunk of a dask-backed input (allowed idiom)'
    # 2. viewshed widens the dtype without changing a value (documented)
    if entry == ('viewshed', 'viewshed') and t.attr in ('data', 'values') and isinstance(v, ast.Call) and \
            isinstance(v.func, ast.Attribute) and v.func.attr == 'astype' and \
            norm(v.func.value) in (obj + '.data', obj + '.values') and v.args and \
            norm(v.args[0]) in ('np.float64', 'float', "'f8'", "'float64'", 'numpy.float64'):
        return 'viewshed may widen the input dtype without changing a value (documented exception)'
    # 3. cupy -> numpy conversion on the GPU path (unclaimed)
    if entry == ('viewshed', 'viewshed') and 'asnumpy' in norm(v):
        return 'GPU path (not analysed)'
    # 4. zonal.apply updates `values` in place by contract
    if entry == ('zonal', 'apply') and ev.root == ('param', 'values'):
        return 'zonal.apply updates `values` in place by contract'
    return None


def result_constructs(prog, eff, f, bind, depth=0, seen=None):
    """DataArray constructions that produce f's return value: [(call node, scope func, param binding)]
    bind: scope param name -> public param name"""
    seen = seen or set()
    if depth > 4 or id(f) in seen:
        return []
    seen.add(id(f))
    out = []
    rets = [n for n in f.own_nodes() if isinstance(n, ast.Return) and n.value is not None]

    def from_expr(e, d=0):
        res = []
        if d > 3:
            return res
        if isinstance(e, ast.Name):
            for v in f.local_assigns().get(e.id, []):
                if isinstance(v, ast.AST):
                    res += from_expr(v, d + 1)
            return res
        if isinstance(e, ast.Call):
            t = prog.resolve_callable(f, f.module, e.func)
            if isinstance(t, Ext) and t.dotted.split('.')[-1] == 'DataArray':
                return [(e, f, dict(bind))]
            tt = t
            while isinstance(tt, Partial):
                tt = tt.target
            if isinstance(tt, tuple) and tt and tt[0] == 'callresult' and isinstance(tt[1], Func) and not tt[1].is_lambda:
                # the callable comes from a selector (`backend = _select_backend(raster); backend(raster, ..)`): every
                # function the selector may return
                sel = tt[1]
                outs = []
                for r_ in [n for n in sel.own_nodes() if isinstance(n, ast.Return) and n.value is not None]:
                    g_ = prog.resolve_callable(sel, sel.module, r_.value)
                    while isinstance(g_, Partial):
                        g_ = g_.target
                    if isinstance(g_, Func) and 'gpu' not in g_.qualname and 'cupy' not in g_.qualname:
                        b2 = {}
                        for p, a in list(zip(g_.params, e.args)) + [(k.arg, k.value) for k in e.keywords if k.arg]:
                            if isinstance(a, ast.Name) and a.id in bind:
                                b2[p] = bind[a.id]
                        outs += result_constructs(prog, eff, g_, b2, depth + 1, seen)
                if outs:
                    return outs
            if isinstance(tt, Func):
                b2 = {}
                for p, a in list(zip(tt.params, e.args)) + [(k.arg, k.value) for k in e.keywords if k.arg]:
                    if isinstance(a, ast.Name) and a.id in bind:
                        b2[p] = bind[a.id]
                return result_constructs(prog, eff, tt, b2, depth + 1, seen)
            if isinstance(e.func, ast.Attribute) and e.func.attr == 'copy' and any(k.arg == 'data' for k in e.keywords):
                return [(e, f, dict(bind))]
        return res
    for r in rets:
        out += from_expr(r.value)
    return out


def check_P3(prog, rep, eff, key, f, rasters):
    entry = '%s.%s' % key
    primary = rasters[0]
    cons = result_constructs(prog, eff, f, {p: p for p in f.params})
    if not cons:
        rep.add('P3', f, entry, 'result construction', f.node.lineno, None,
                'could not find the DataArray construction of the result (accepted: xr.DataArray(out, coords=X.coords, '
                'dims=X.dims, attrs=X.attrs[, name=]), X.copy(data=out))')
        return
    for call, scope, bind in cons:
        if isinstance(call.func, ast.Attribute) and call.func.attr == 'copy':
            base = norm(call.func.value)
            ok = bind.get(base) in rasters
            rep.add('P3', scope, entry, norm(call)[:160], call.lineno, ok, 'X.copy(data=out) must copy an input raster')
            continue
        kws = {k.arg: k.value for k in call.keywords if k.arg}
        probs = []
        undecided = []
        primary = next((p_ for p_ in f.params if p_ in rasters), None)
        for field in ('coords', 'dims', 'attrs'):
            v = kws.get(field)
            if v is None:
                probs.append('%s= missing' % field)
                continue
            src = attr_source(scope, v, field)
            rb = rebound(scope, src[0], prog) if src is not None and bind.get(src[0]) in rasters else None
            if src is None or bind.get(src[0]) not in rasters:
                probs.append('%s=%s is not the input raster\'s .%s' % (field, norm(v)[:50], field))
            elif rb is not None and rb[0] == 'reordered' and field in ('coords', 'dims'):
                probs.append('`%s` is no longer the raster the caller passed when its .%s is read: it was re-bound by `%s` (a selection / '
                             're-ordering of its cells), so output cell [i, j] does not belong to input cell [i, j]' % (src[0], field, rb[1]))
            elif rb is not None and rb[0] == 'unknown' and field in ('coords', 'dims'):
                undecided.append('`%s` is re-bound by `%s` before its .%s is read' % (src[0], rb[1], field))
            elif src[1] == 'shared-then-edited':
                probs.append('attrs of the input are edited without a deep copy')
            elif primary is not None and bind.get(src[0]) != primary:
                # several rasters go in, one identity comes out: the first raster parameter's, as in every sibling function
                probs.append('%s is taken from `%s`, not from the first raster `%s` whose identity the result keeps' % (
                    field, bind.get(src[0]), primary))
        rep.add('P3', scope, entry, norm(call)[:200], call.lineno, False if probs else (None if undecided else True),
                'the result must carry the input raster\'s coords (whole mapping), dims and attrs: ' + '; '.join(probs + undecided))


REORDER = ('isel', 'sel', 'transpose', 'sortby', 'reindex', 'reindex_like', 'roll', 'shift', 'squeeze', 'expand_dims', 'swap_dims',
           'stack', 'unstack', 'drop_sel', 'drop_isel', 'head', 'tail', 'thin', 'coarsen', 'pad', 'interp', 'interp_like')
KEEPING = ('astype', 'copy', 'chunk', 'persist', 'compute', 'load', 'fillna', 'where', 'clip', 'round', 'rename')


def _returns_own_param(prog, scope, call, name, depth=0):
    """`name = helper(name, ..)` where the package helper hands back, on every path, the very parameter that received `name`
    (a validating helper: checks, then `return raster`)"""
    try:
        t = prog.resolve_callable(scope, scope.module, call.func)
    except Exception:      # noqa
        return False
    if not isinstance(t, Func) or t.is_lambda or depth > 1:
        return False
    par = None
    for p_, a_ in list(zip(t.params, call.args)) + [(k_.arg, k_.value) for k_ in call.keywords if k_.arg]:
        if isinstance(a_, ast.Name) and a_.id == name:
            par = p_
    rets = [r_ for r_ in t.own_nodes() if isinstance(r_, ast.Return)]
    if par is None or not rets or not all(isinstance(r_.value, ast.Name) and r_.value.id == par for r_ in rets):
        return False
    return rebound(t, par, prog, depth + 1) in (None,)


def rebound(scope, name, prog=None, depth=0):
    """None when the raster variable `name` (a parameter) is never assigned in `scope`, or only to something that has the same
    cells in the same places (`x = x.astype(t)`, `x = x.copy()`); ('reordered', text) when some assignment selects or re-orders
    cells (`x = x.isel(y=slice(None, None, -1))`, `x = x.T`, `x = x[::-1]`); ('unknown', text) for any other re-binding."""
    worst = None
    for n in scope.own_nodes():
        tgts = []
        if isinstance(n, ast.Assign):
            tgts = [(t_, n.value) for t_ in n.targets]
        elif isinstance(n, (ast.AnnAssign, ast.AugAssign)) and n.value is not None:
            tgts = [(n.target, n.value)]
        for t_, v_ in tgts:
            if not (isinstance(t_, ast.Name) and t_.id == name):
                continue
            kind = 'unknown'
            if isinstance(v_, ast.Call) and isinstance(v_.func, ast.Attribute) and isinstance(v_.func.value, ast.Name) and v_.func.value.id == name:
                if v_.func.attr in REORDER:
                    kind = 'reordered'
                elif v_.func.attr in KEEPING:
                    kind = 'same'
            elif isinstance(v_, ast.Call) and prog is not None and _returns_own_param(prog, scope, v_, name, depth):
                kind = 'same'
            elif isinstance(v_, ast.Attribute) and isinstance(v_.value, ast.Name) and v_.value.id == name and v_.attr == 'T':
                kind = 'reordered'
            elif isinstance(v_, ast.Subscript) and isinstance(v_.value, ast.Name) and v_.value.id == name:
                kind = 'reordered'
            if kind == 'reordered':
                return ('reordered', norm(n)[:80])
            if kind == 'unknown' and worst is None:
                worst = ('unknown', norm(n)[:80])
    return worst


def attr_source(scope, v, field):
    """expr -> (raster variable name, how) when expr is <name>.<field> or a local (deep) copy of it"""
    if isinstance(v, ast.Attribute) and v.attr == field and isinstance(v.value, ast.Name):
        return v.value.id, 'direct'
    if isinstance(v, ast.Name):
        vals = [x for x in scope.local_assigns().get(v.id, []) if isinstance(x, ast.AST)]
        if len(vals) == 1:
            x = vals[0]
            edited = any(isinstance(n, ast.Assign) and isinstance(n.targets[0], ast.Subscript) and
                         norm(n.targets[0].value) == v.id for n in scope.own_nodes())
            if isinstance(x, ast.Call) and norm(x.func) in ('copy.deepcopy', 'deepcopy') and x.args:
                s = attr_source(scope, x.args[0], field)
                return (s[0], 'deepcopy') if s else None
            if isinstance(x, ast.Call) and norm(x.func) in ('dict', 'copy.copy') and x.args:
                s = attr_source(scope, x.args[0], field)
                return (s[0], 'copy') if s else None
            s = attr_source(scope, x, field)
            if s:
                return (s[0], 'shared-then-edited' if edited else s[1])
    return None


_DASK_FUNCS = {}


def dask_funcs(prog):
    """ids of the functions bound to a dask slot of some backend table (they receive dask arrays)"""
    if id(prog) not in _DASK_FUNCS:
        from ..backends import _backend_paths
        out = set()
        for f in prog.all_funcs():
            if f.is_lambda or f.module.name.startswith('xrspatial.gpu_rtx'):
                continue
            try:
                paths = _backend_paths(prog, f)
            except AnalysisIncomplete:
                continue
            for path in paths:
                g = path.func()
                if path.backend == 'dask' and g is not None:
                    out.add(id(g))
        _DASK_FUNCS[id(prog)] = out
    return _DASK_FUNCS[id(prog)]


def check(prog, rep):
    eff = Effects(prog)
    n = 0
    for key, (rasters, cat) in ENTRIES.items():
        modname, fname = key
        m = prog.modules.get('xrspatial.' + modname)
        f = m.funcs.get(fname) if m else None
        if f is None:
            raise AnalysisIncomplete('public function %s.%s not found' % key)
        missing = [p for p in rasters if p not in f.params]
        if missing:
            raise AnalysisIncomplete('%s.%s: raster parameters %s not found' % (modname, fname, missing))
        entry = '%s.%s' % key
        s = eff.summary(f)
        n += 1
        # ---------------- P1
        for p in rasters:
            evs = [e for e in s.events if e.root == ('param', p) and e.level in (OBJ, MEM)]
            reported = set()
            bad = 0
            for e in evs:
                o = origin_event(e)
                if o.kind.startswith('augmented assignment') and isinstance(o.node, ast.AugAssign) and \
                        isinstance(o.node.target, ast.Name) and o.root[0] == 'param' and \
                        not is_arraylike(prog, o.func, o.root[1]):
                    continue   # `n -= 1` on a scalar parameter rebinds a local, it is not an in-place array update
                exc = attr_store_exception(key, e) if (e.attr_store or key == ('zonal', 'apply')) else None
                sig = (norm(o.node)[:160], e.kind.split(' (')[0][:80])
                if sig in reported:
                    continue
                reported.add(sig)
                if exc:
                    rep.add('P1-table', o.func, entry, '%s: %s' % (p, norm(o.node)[:160]), o.node.lineno, True, exc)
                    continue
                bad += 1
                rep.add('P1', o.func, entry, '%s: %s' % (p, norm(o.node)[:200]), o.node.lineno, False,
                        'input raster `%s` is modified: %s (reached from %s at line %s)'
                        % (p, o.kind[:150], entry, e.node.lineno))
            # stores into a plain `astype` of the raster made by a function that receives dask arrays
            for e in [e_ for e_ in s.events if e_.root == ('param', p) and e_.level == LSTORE]:
                o = origin_event(e)
                if id(o.func) in dask_funcs(prog) and (norm(o.node)[:160], 'lstore') not in reported:
                    reported.add((norm(o.node)[:160], 'lstore'))
                    bad += 1
                    rep.add('P1', o.func, entry, '%s: %s' % (p, norm(o.node)[:200]), o.node.lineno, False,
                            'input raster `%s` is modified on the dask path: `astype` of a dask array that already has the dtype is the '
                            'array itself, and a masked store rewrites that object, which is the caller\'s `.data` (%s, reached from %s '
                            'at line %s); NumPy\'s astype copies, so the numpy twin of this code is harmless' % (p, o.kind[:120], entry, e.node.lineno))
            if not bad:
                rep.add('P1', f, entry, 'input `%s`: no write reaches it' % p, f.node.lineno, True)
        # ---------------- P2
        if cat != VIEW:
            al = sorted({(r[1], lv) for r, lv in s.returns if r[0] == 'param' and r[1] in rasters and lv in (OBJ, MEM, CONT, CMEM)})
            if cat == INPLACE:
                al = [a for a in al if a[0] != 'values']
            rep.add('P2', f, entry, 'result may share memory with %s' % al if al else 'result is fresh',
                    f.node.lineno, not al,
                    'the returned object may share writable memory with the input raster(s) %s: writing to the output '
                    'would change the input' % al)
        else:
            al = {r[1] for r, lv in s.returns if r[0] == 'param'}
            want = {'trim': 'raster', 'crop': 'values'}[fname]
            rep.add('P2', f, entry, 'window of `%s` (documented view)' % want, f.node.lineno, al == {want},
                    'trim/crop must return a window of `%s` only; aliases %s' % (want, sorted(al)))
        # ---------------- P3
        if cat == STANDARD:
            check_P3(prog, rep, eff, key, f, rasters)
    # ---------------- P3-backend: the dask path hands back a lazy array on every path (the output has the input's array backend)
    from ..backends import local_value
    from ..program import Ext, Partial
    NP_MAKERS = {'full', 'zeros', 'ones', 'empty', 'full_like', 'zeros_like', 'ones_like', 'empty_like', 'array', 'asarray', 'asanyarray',
                 'ascontiguousarray', 'copy', 'arange', 'linspace'}
    seen_g = set()
    from ..backends import _backend_paths
    for f in prog.all_funcs():
        if f.is_lambda or f.module.name.startswith('xrspatial.gpu_rtx'):
            continue
        key = (f.module.name.split('.', 1)[-1], f.name)
        try:
            paths = _backend_paths(prog, f)
        except AnalysisIncomplete:
            continue
        for path in paths:
            g = path.func()
            if path.backend != 'dask' or g is None or g.is_lambda or id(g) in seen_g:
                continue
            seen_g.add(id(g))
            bad = []
            for r in [x for x in g.own_nodes() if isinstance(x, ast.Return) and x.value is not None]:
                v = local_value(g, r.value)
                if isinstance(v, ast.Call):
                    t = prog.resolve_callable(g, g.module, v.func)
                    if isinstance(t, Ext) and t.dotted.split('.')[0] == 'numpy' and t.dotted.split('.')[-1] in NP_MAKERS:
                        bad.append((r, 'an array made by %s' % t.dotted))
                    elif isinstance(v.func, ast.Attribute) and v.func.attr == 'compute' and not v.args:
                        bad.append((r, 'a computed (eager) array'))
            for r, why in bad:
                rep.add('P3-backend', g, '%s.%s[dask]' % key, norm(r)[:120], r.lineno, False,
                        'the result of a dask-backed raster is dask-backed on every path: this path returns %s, so the caller gets a '
                        'numpy-backed DataArray for a lazy input' % why)
            if not bad:
                rep.add('P3-backend', g, '%s.%s[dask]' % key, 'every return of %s is lazy' % g.name, g.node.lineno, True)
    rep.coverage_extra['public_entries'] = n
    rep.floor('P1', 60)
    rep.floor('P2', 45)
    rep.floor('P3', 28)
    rep.floor('P1-table', 4)
    rep.floor('P3-backend', 20)
