"""C08 - slope/aspect/curvature/hillshade are local 3x3 formulas with NaN borders.

Decides (Engine A): loop ranges are the interior, output NaN-initialised, single store at [y, x], footprint within
the 3x3 window, the stored expression equals the documented finite-difference formula (exact rational normal
form, constants to 1e-5), compass conversion table of aspect (finite threshold-cell enumeration), cell-size
binding from the wrapper, hillshade's vectorised model.  Does not decide floating-point rounding or hillshade's range.
"""
import ast
import math
from fractions import Fraction

from ..backends import backend_paths, reachable
from ..kai import Arr, TupleV, cond_repr, interpret, flatten_and
from ..kutil import (CannotEvaluate, evaluate, eval_cond_full, returned_arrays, Spec, approx_equal, eval_cond, eval_rat, find_loops_over, guard_atoms, numeric, offsets,
                     reads_in, show)
from ..program import AnalysisIncomplete, Func, norm
from ..sym import App, Rat, Sym, subst, walk_atoms

NAN = Rat.atom(App('nan', []))

SPEC_GRAD = '''
dz_dx = ((data[y - 1, x + 1] + 2 * data[y, x + 1] + data[y + 1, x + 1]) - (data[y - 1, x - 1] + 2 * data[y, x - 1] + data[y + 1, x - 1]))
dz_dy = ((data[y + 1, x - 1] + 2 * data[y + 1, x] + data[y + 1, x + 1]) - (data[y - 1, x - 1] + 2 * data[y - 1, x] + data[y - 1, x + 1]))
'''


def _interpret_kernel(prog, kern):
    """the stencil kernel interpreted, jitted phases of its own module that allocate and hand back arrays executed in place (a
    kernel split into `gradients -> directions` reads like the unsplit one)"""
    def phase(g):
        return g.jit is not None and prog.same_unit(kern.module, g.module) and \
            any(isinstance(n, ast.Call) and isinstance(n.func, ast.Attribute) and n.func.attr in (
                'zeros', 'ones', 'full', 'empty', 'zeros_like', 'ones_like', 'full_like', 'empty_like') for n in g.own_nodes())
    return interpret(prog, kern, inline_all=phase)


def numpy_kernel(prog, public, want_jit=True):
    """the function on the numpy path that contains the per-cell loops (first jitted cpu function reached)"""
    paths = [p for p in backend_paths(prog, public) if p.backend == 'numpy']
    if not paths:
        raise AnalysisIncomplete('%s: no numpy backend path found' % public.qualname)
    f0 = paths[0].func()
    if f0 is None:
        raise AnalysisIncomplete('%s: numpy path unresolved' % public.qualname)
    for g in reachable(prog, f0, 4):
        if g.jit is not None and g.jit.kind == 'cpu':
            return paths[0], f0, g
    return paths[0], f0, None


def stencil_facts(rep, prop, public, kern, k, label):
    """L1: interior loops, NaN init, store at [y,x], footprint <= 3x3.  Returns (yvar, xvar, data arr name, out stores)"""
    mod = kern.module
    entry = '%s[numpy]' % public.name
    # the output array: the one returned
    rets = returned_arrays(k)
    if len(rets) != 1:
        raise AnalysisIncomplete('%s: kernel %s does not return exactly one array' % (label, kern.qualname))
    out = rets[0]
    cell_stores = [s for s in k.stores if s.arr is out and s.idx != 'all']
    init_ok = out.init == 'nan'
    rep.add('L1-init', kern, entry, 'output array %s initialised %r' % (getattr(out, 'var', out.name), out.init),
            kern.node.lineno, init_ok, 'the output must start all-NaN so that border cells and cells the loops '
            'never reach are NaN')
    if not cell_stores:
        raise AnalysisIncomplete('%s: no per-cell store found' % label)
    # data array = the array whose shape bounds the loops
    data = None
    for s in cell_stores:
        for lp in s.loops:
            for a in walk_atoms(lp.hi) if lp.hi is not None else ():
                if isinstance(a, App) and a.name == 'shape':
                    data = a.args[0]
    if data is None:
        raise AnalysisIncomplete('%s: loops are not bounded by an array shape' % label)
    yv = xv = None
    for s in cell_stores:
        if len(s.idx) != 2 or len(s.loops) != 2:
            rep.add('L1-store', kern, entry, norm(s.node), s.node.lineno, False,
                    'per-cell store must be out[y, x] inside exactly two nested loops')
            continue
        byaxis = {}
        for lp in s.loops:
            for a in walk_atoms(lp.hi):
                if isinstance(a, App) and a.name == 'shape' and a.args[0] == data:
                    byaxis[a.args[1]] = lp
        ok = set(byaxis) == {0, 1}
        if ok:
            ly, lx = byaxis[0], byaxis[1]
            one = Rat.const(1)
            # the cell a pass of the loops works on is the one it stores: (row loop variable + const, column loop
            # variable + const) - rows walked as zipped views start their counter at 0 for row 1
            cy, cx = s.idx[0] - Rat.sym(ly.var), s.idx[1] - Rat.sym(lx.var)
            i_ok = cy.is_const() and cx.is_const()
            rep.add('L1-store', kern, entry, norm(s.node), s.node.lineno, i_ok,
                    'the result of a pass of the two loops must be stored at (row variable + const, column variable + const); '
                    'found index (%r, %r)' % s.idx)
            if not i_ok:
                continue
            if yv is not None and (s.idx[0] != yv or s.idx[1] != xv):
                rep.add('L1-store', kern, entry, norm(s.node), s.node.lineno, False,
                        'all per-cell stores of one pass must address the same cell; found (%r, %r) and (%r, %r)' % (yv, xv, s.idx[0], s.idx[1]))
                continue
            yv, xv = s.idx[0], s.idx[1]
            r_ok = (ly.lo + cy == one and lx.lo + cx == one and ly.step == one and lx.step == one and
                    ly.hi + cy == Rat.atom(App('shape', [data, 0])) - one and
                    lx.hi + cx == Rat.atom(App('shape', [data, 1])) - one)
            rep.add('L1-loops', kern, entry, 'rows %s cols %s' % (norm(ly.node.iter), norm(lx.node.iter)),
                    ly.node.lineno, r_ok, 'loops must cover exactly the interior 1..n-2 on both axes '
                    '(border cells NaN, every interior cell computed); found rows [%r,%r) cols [%r,%r)'
                    % (ly.lo + cy, ly.hi + cy, lx.lo + cx, lx.hi + cx))
        else:
            rep.add('L1-loops', kern, entry, norm(s.node), s.node.lineno, False,
                    'could not associate the two loops with the two axes of %s' % data)
    if yv is None:
        raise AnalysisIncomplete('%s: loop variables not identified' % label)
    # footprint
    atoms = set()
    for s in cell_stores:
        atoms |= set(reads_in(s.value))
        atoms |= {a for a in guard_atoms(s.guards) if isinstance(a, App) and a.name == 'read'}
    offs = offsets([a for a in atoms if a.args[0] == data], (yv, xv))
    bad = [o for o in offs if o is None or any(c is None or abs(c) > 1 for c in o)]
    rep.add('L1-footprint', kern, entry, 'reads of %s: %d distinct offsets' % (data, len(offs)),
            kern.node.lineno, not bad and len(offs) > 0,
            'every read must lie in the 3x3 window around (y, x); offending offsets: %s' % bad,
            facts={'offsets': sorted([tuple(int(c) for c in o) for o in offs if o and None not in o])})
    other = [a for a in atoms if a.args[0] != data]
    if other:
        rep.add('L1-footprint', kern, entry, 'reads of other arrays: %s' % sorted({a.args[0] for a in other}),
                kern.node.lineno, False, 'kernel result depends on another array')
    return yv, xv, data, cell_stores


def spec_env(data, yv, xv, extra=()):
    env = {'data': Arr(data, 'param'), 'y': yv, 'x': xv}
    for n in extra:
        if n not in env:
            env[n] = Rat.sym(n)
    return env


def cellsize_binding(prog, rep, public, path, f0, kern, params, expect):
    """S7: the kernel's cell-size parameters are bound to the right component of the raster resolution.

    expect: kernel param -> expression text over cellsize_x / cellsize_y (public-level resolution components)."""
    entry = '%s[numpy]' % public.name
    # resolution unpacking in the public function (read with its small helpers inlined: the cell size may be computed there)
    if getattr(path.scope, 'inlined_from', None) is public:
        public = path.scope
    else:
        from ..inline import inline_view
        public = inline_view(prog, public)
    res = {}
    for n in public.own_nodes():
        if isinstance(n, ast.Assign) and isinstance(n.value, ast.Call):
            t = prog.resolve_callable(public, public.module, n.value.func)
            if isinstance(t, Func) and t.name == 'get_dataarray_resolution':
                tgt = n.targets[0]
                if isinstance(tgt, (ast.Tuple, ast.List)) and len(tgt.elts) == 2:
                    res[tgt.elts[0].id] = Rat.sym('cellsize_x')
                    res[tgt.elts[1].id] = Rat.sym('cellsize_y')
                    rep.add('S7-res', public, entry, norm(n), n.lineno, True,
                            'resolution unpacked as (x, y)', trivial=True)
                elif isinstance(tgt, ast.Name):
                    # kept as one pair: components are read by position (pair[0] = x, pair[1] = y, *pair in that order)
                    from ..kai import TupleV
                    res[tgt.id] = TupleV([Rat.sym('cellsize_x'), Rat.sym('cellsize_y')])
                    rep.add('S7-res', public, entry, norm(n), n.lineno, True, 'resolution kept as the pair (x, y)', trivial=True)
    if not res:
        rep.add('S7-res', public, entry, 'get_dataarray_resolution(..) unpacking', public.node.lineno, None,
                'resolution call not found in %s' % public.qualname)
        return
    # evaluate later simple assignments (cellsize = (cx + cy) / 2)
    sp = Spec(prog, dict(res), public.module)
    for n in public.node.body:
        if isinstance(n, ast.Assign) and len(n.targets) == 1 and isinstance(n.targets[0], (ast.Tuple, ast.List)) and isinstance(n.value, ast.Name) and \
                hasattr(sp.it.env.get(n.value.id), 'items') and len(n.targets[0].elts) == len(sp.it.env[n.value.id].items) and \
                all(isinstance(x_, ast.Name) for x_ in n.targets[0].elts):
            # the pair kept under one name and taken apart afterwards: `res = get_dataarray_resolution(agg); cx, cy = res`
            for x_, v_ in zip(n.targets[0].elts, sp.it.env[n.value.id].items):
                sp.it.env[x_.id] = v_
            continue
        if isinstance(n, ast.Assign) and len(n.targets) == 1 and isinstance(n.targets[0], ast.Name):
            names = {x.id for x in ast.walk(n.value) if isinstance(x, ast.Name)}
            if names and names <= set(sp.it.env):
                try:
                    sp.it.stmt(n)
                except AnalysisIncomplete:
                    pass
        elif isinstance(n, ast.Assign) and len(n.targets) == 1 and isinstance(n.targets[0], (ast.Tuple, ast.List)) and \
                all(isinstance(x_, ast.Name) for x_ in n.targets[0].elts) and any(x_.id in sp.it.env for x_ in n.targets[0].elts) and \
                not (isinstance(n.value, ast.Call) and isinstance(prog.resolve_callable(public, public.module, n.value.func), Func)):
            # the components re-bound together (`cx, cy = abs(cx), abs(cy)`): evaluated, or no longer known
            names = {x.id for x in ast.walk(n.value) if isinstance(x, ast.Name) and x.id not in ('abs', 'float', 'np', 'numpy')}
            done = False
            if names and names <= set(sp.it.env):
                try:
                    sp.it.stmt(n)
                    done = True
                except AnalysisIncomplete:
                    pass
            if not done:
                for x_ in n.targets[0].elts:
                    sp.it.env.pop(x_.id, None)
    # actuals of the dispatch call bound to f0's params, then f0 -> kern call
    bind0 = {}
    actuals = []
    for a in path.args:
        if isinstance(a, ast.Starred) and isinstance(a.value, ast.Name) and hasattr(res.get(a.value.id), 'items'):
            for i_ in range(len(res[a.value.id].items)):
                actuals.append(ast.Subscript(value=a.value, slice=ast.Constant(value=i_), ctx=ast.Load()))
        else:
            actuals.append(a)
    for p, a in zip(f0.params, actuals):
        bind0[p] = a
    for kname, a in path.keywords.items():
        bind0[kname] = a
    vals0 = {}
    for p, a in bind0.items():
        names = {x.id for x in ast.walk(a) if isinstance(x, ast.Name)}
        if names <= set(sp.it.env):
            try:
                vals0[p] = sp.it.ev(a)
            except AnalysisIncomplete:
                pass
    vals = vals0
    if kern is not f0:
        call = None
        kcalls = []
        from ..inline import inline_view as _iv
        f0 = _iv(prog, f0)            # a cell size computed by a small helper is read in place
        for n in f0.own_nodes():
            if isinstance(n, ast.Call) and prog.resolve_callable(f0, f0.module, n.func) is kern:
                call = n
                kcalls.append(n)
        if call is None:
            rep.add('S7-bind', f0, entry, 'call of %s' % kern.name, f0.node.lineno, None, 'kernel call not found')
            return
        # every call of the kernel sees the raster in its own orientation: a transposed view exchanges rows and columns
        # while the cell sizes stay where they are
        for n in kcalls:
            a0 = n.args[0] if n.args else None
            transposed = (isinstance(a0, ast.Attribute) and a0.attr == 'T') or \
                (isinstance(a0, ast.Call) and isinstance(a0.func, ast.Attribute) and a0.func.attr in ('transpose', 'swapaxes'))
            if transposed:
                sizes = [norm(x) for x in n.args[1:3]]
                swapped = len(sizes) == 2 and sizes == [f0.params[2], f0.params[1]] if len(f0.params) > 2 else False
                rep.add('S7-bind', f0, entry, norm(n)[:120], n.lineno, bool(swapped),
                        'the kernel is run on the transposed raster: the x cell size then belongs to the rows and the y cell '
                        'size to the columns, so the two must be exchanged as well (non-square cells)')
        sp2 = Spec(prog, dict(vals0), f0.module)
        vals = {}
        for p, a in list(zip(kern.params, call.args)) + [(k.arg, k.value) for k in call.keywords]:
            names = {x.id for x in ast.walk(a) if isinstance(x, ast.Name)}
            if names <= set(sp2.it.env):
                try:
                    vals[p] = sp2.it.ev(a)
                except AnalysisIncomplete:
                    pass
    want_env = {'cellsize_x': Rat.sym('cellsize_x'), 'cellsize_y': Rat.sym('cellsize_y')}
    if expect is None:
        return vals         # the caller reads the roles off the bound values
    for p, text in expect.items():
        want = Spec(prog, want_env).expr(text)
        got = vals.get(p)
        if isinstance(got, Rat):
            # cell sizes are lengths: the magnitude of a resolution component is that component
            got = subst(got, lambda a: a.args[0] if isinstance(a, App) and a.name in ('abs', 'fabs') and len(a.args) == 1 and
                        isinstance(a.args[0], Rat) and a.args[0] in (Rat.sym('cellsize_x'), Rat.sym('cellsize_y')) else None)
        ok = isinstance(got, Rat) and got == want
        rep.add('S7-bind', kern, entry, 'kernel parameter %s <- %s' % (p, show(got)), path.call.lineno, ok,
                'parameter %s of %s must receive %s of the raster resolution' % (p, kern.qualname, text))


def check_slope(prog, rep):
    pub = prog.public_api().get('slope')
    if pub is None:
        raise AnalysisIncomplete('public slope not found')
    path, f0, kern = numpy_kernel(prog, pub)
    if kern is None:
        raise AnalysisIncomplete('slope: no jitted kernel on numpy path')
    k = _interpret_kernel(prog, kern)
    yv, xv, data, stores = stencil_facts(rep, 'C08', pub, kern, k, 'slope')
    entry = 'slope[numpy]'
    cs = [p for p in kern.params if p != data]
    # which kernel parameter is the x cell size and which the y cell size: by what the public function passes down
    # (names and positions of the kernel's parameters do not matter)
    vals = cellsize_binding(prog, rep, pub, path, f0, kern, kern.params, None) or {}
    px = [p for p, v in vals.items() if isinstance(v, Rat) and v == Rat.sym('cellsize_x') and p in kern.params]
    py = [p for p, v in vals.items() if isinstance(v, Rat) and v == Rat.sym('cellsize_y') and p in kern.params]
    okb = len(px) == 1 and len(py) == 1
    rep.add('S7-bind', kern, entry, 'kernel parameters for the cell sizes: x -> %s, y -> %s' % (px, py), path.call.lineno, okb,
            'one parameter of %s must receive the x cell size and one the y cell size of the raster resolution' % kern.qualname)
    rep.add('S7-bind', kern, entry, 'no other parameter depends on the resolution', path.call.lineno,
            okb and not [p for p, v in vals.items() if p in kern.params and p not in px + py + [data] and isinstance(v, Rat) and
                         (Rat.sym('cellsize_x') in [Rat.atom(a) for a in v.atoms()] or Rat.sym('cellsize_y') in [Rat.atom(a) for a in v.atoms()])], '')
    sp = Spec(prog, spec_env(data, yv, xv, kern.params))
    if okb:
        sp.it.env['cellsize_x'] = Rat.sym(px[0])
        sp.it.env['cellsize_y'] = Rat.sym(py[0])
    sp.run(SPEC_GRAD)
    want = sp.expr('arctan(sqrt((dz_dx / (8 * cellsize_x)) ** 2 + (dz_dy / (8 * cellsize_y)) ** 2)) * (180 / pi)'
                   .replace('pi', 'PI__'))if False else None
    env = dict(sp.it.env)
    env['PI'] = Rat.sym('pi')
    sp.it.env = env
    want = sp.expr('arctan(sqrt((dz_dx / (8 * cellsize_x)) ** 2 + (dz_dy / (8 * cellsize_y)) ** 2)) * (180 / PI)')
    for s in stores:
        ok = approx_equal(s.value, want)
        rep.add('L-formula', kern, entry, norm(s.node), s.node.lineno, ok,
                'stored value must equal arctan(sqrt((dz/dx)^2 + (dz/dy)^2)) in degrees with the Horn 3x3 '
                'gradient, dz/dx over 8*cellsize_x (column differences) and dz/dy over 8*cellsize_y (row '
                'differences); got %s' % show(s.value, 300))
        rep.add('L-unguarded', kern, entry, norm(s.node), s.node.lineno, not s.guards,
                'slope is defined for every interior cell; store is guarded by %s' % [cond_repr(g)[:80] for g in s.guards])
    nan_containment(rep, kern, entry, stores, data)
    return kern


def piecewise_compass(rep, kern, entry, stores, t_atom, K):
    """Engine G: enumerate the cells of the threshold arrangement of t = K*atan2 in (-180, 180]."""
    # thresholds: constants c with guard 'K*A - c'
    def guards_at(tval):
        # assignment: the arctan2 atom = tval / K
        return {t_atom: tval / K}
    thresholds = {Fraction(-180), Fraction(180), Fraction(0), Fraction(90)}
    for s in stores:
        for g in flatten_and(s.guards):
            _collect_thresholds(g, t_atom, K, thresholds)
    pts = sorted(thresholds)
    tests = set(pts)
    for a, b in zip(pts, pts[1:]):
        tests.add(a + (b - a) / 3)
        tests.add(a + 2 * (b - a) / 3)
    tests = sorted(t for t in tests if -180 < t <= 180)
    bad = []
    n = 0
    for t in tests:
        asg = guards_at(t)
        fired = []
        for s in stores:
            conds = [eval_cond(g, asg) for g in s.guards if _mentions(g, t_atom)]
            if any(c is None for c in conds):
                raise AnalysisIncomplete('aspect: compass guard not decidable at t=%s' % t)
            if all(conds):
                fired.append(s)
        # among fired stores: those not belonging to the flat branch
        vals = []
        for s in fired:
            v = eval_rat(numeric(s.value), {t_atom: t / K}) if _mentions_val(s.value, t_atom) else None
            if v is not None:
                vals.append(v)
        want = (90 - t) if t <= 90 else (450 - t)
        n += 1
        if len(vals) != 1 or abs(vals[0] - want) > Fraction(1, 10**4):
            bad.append((str(t), [str(float(v)) for v in vals], str(want)))
    rep.add('L5-compass', kern, entry, 'compass conversion over %d threshold cells of atan2 in (-180,180]' % n,
            kern.node.lineno, not bad,
            'aspect must be (90 - t) mod 360 mapped to [0,360] for t = atan2(dz_dy, -dz_dx) in degrees; '
            'mismatches (t, got, want): %s' % bad[:4], facts={'test_points': n})


def _mentions(c, atom):
    s = guard_atoms([c])
    return atom in s


def _mentions_val(v, atom):
    return atom in walk_atoms(v)


def _collect_thresholds(g, atom, K, out):
    if g[0] == 'cmp':
        d = numeric(g[3])
        if atom in d.atoms() and d.d.is_const():
            co, rest = d.n.coeff_of(atom)
            if co.is_const() and rest.is_const() and co.const_value() != 0:
                # co*A + rest (op) 0  -> A = -rest/co -> t = K*A
                out.add(K * (-rest.const_value() / co.const_value()))
    elif g[0] in ('and', 'or'):
        for x in g[1:]:
            _collect_thresholds(x, atom, K, out)
    elif g[0] == 'not':
        _collect_thresholds(g[1], atom, K, out)


def check_aspect(prog, rep):
    pub = prog.public_api().get('aspect')
    if pub is None:
        raise AnalysisIncomplete('public aspect not found')
    path, f0, kern = numpy_kernel(prog, pub)
    if kern is None:
        raise AnalysisIncomplete('aspect: no jitted kernel on numpy path')
    k = _interpret_kernel(prog, kern)
    yv, xv, data, stores = stencil_facts(rep, 'C08', pub, kern, k, 'aspect')
    entry = 'aspect[numpy]'
    sp = Spec(prog, spec_env(data, yv, xv))
    sp.run(SPEC_GRAD)
    dzdx, dzdy = sp['dz_dx'], sp['dz_dy']
    nan_containment(rep, kern, entry, stores, data)
    flat = [s for s in stores if s.value.is_const()]
    nonflat = [s for s in stores if not s.value.is_const()]
    # flat: guarded by dz_dx == 0 and dz_dy == 0 ; value -1
    from ..kai import cmp_cond, cond_key
    want_flat = {cond_key(cmp_cond('==', dzdx, Rat.const(0))), cond_key(cmp_cond('==', dzdy, Rat.const(0)))}
    ok = len(flat) == 1 and flat[0].value == Rat.const(-1) and \
        {cond_key(g) for g in flatten_and(flat[0].guards)} == want_flat
    # ... decided by evaluation where the stores can be evaluated: for the nine sign patterns of (dz_dx, dz_dy) the store that
    # fires gives -1 exactly on the flat pattern and the compass bearing of atan2(dz_dy, -dz_dx) on the others - special cases
    # (due north / south set exactly) included, whatever the number of constant stores
    ev_ok = _aspect_patterns(kern, k, stores, data, yv, xv)
    if ev_ok is not None:
        ok = ev_ok[0]
    rep.add('L5-flat', kern, entry, norm(flat[0].node) if flat else 'flat-surface store', 
            flat[0].node.lineno if flat else kern.node.lineno, ok, (ev_ok[1] + '; ' if ev_ok is not None and ev_ok[1] else '') +
            'aspect must be -1 exactly when both Horn gradient components are 0; guards found: %s'
            % ([cond_repr(g)[:120] for g in flat[0].guards] if flat else None))
    # non-flat: each under not-flat and compass guards; value linear in t
    want_atom = sp.it.app('arctan2', [dzdy, -dzdx])
    atoms = set()
    for s in nonflat:
        atoms |= {a for a in walk_atoms(s.value) if isinstance(a, App) and a.name == 'arctan2'}
    ok = len(atoms) == 1 and Rat.atom(next(iter(atoms))) == want_atom
    rep.add('L-formula', kern, entry, 'atan2 argument of the %d non-flat stores' % len(nonflat), kern.node.lineno,
            ok, 'the angle must be atan2(dz_dy, -dz_dx) with dz_dy = (row y+1) - (row y-1) and dz_dx = '
            '(col x+1) - (col x-1) Horn sums; found %s' % show(atoms, 300))
    if ok:
        t_atom = next(iter(atoms))
        # K: coefficient such that t = K * atom in degrees: take from any value: value = c0 - K*A
        K = None
        for s in nonflat:
            v = numeric(s.value)
            co, rest = v.n.coeff_of(t_atom)
            if v.d.is_const() and co.is_const():
                K = abs(co.const_value() / v.d.const_value())
        okK = K is not None and abs(K - Fraction(180) / Fraction(3.141592653589793)) < Fraction(1, 10**4)
        rep.add('L5-degrees', kern, entry, 'radian to degree factor %s' % (float(K) if K else None),
                kern.node.lineno, okK, 'atan2 must be converted with 180/pi (to 1e-4)')
        if okK:
            # all non-flat stores must be under the negated flat guard
            for s in nonflat:
                und = [g for g in s.guards if not _mentions(g, t_atom)]
                rep.add('L5-flat', kern, entry, norm(s.node), s.node.lineno, len(und) >= 1,
                        'compass stores must be under the non-flat branch', trivial=True)
            piecewise_compass(rep, kern, entry, nonflat, t_atom, K)
    return kern


def check_curvature(prog, rep):
    pub = prog.public_api().get('curvature')
    if pub is None:
        raise AnalysisIncomplete('public curvature not found')
    path, f0, kern = numpy_kernel(prog, pub)
    if kern is None:
        raise AnalysisIncomplete('curvature: no jitted kernel on numpy path')
    k = _interpret_kernel(prog, kern)
    yv, xv, data, stores = stencil_facts(rep, 'C08', pub, kern, k, 'curvature')
    entry = 'curvature[numpy]'
    sp = Spec(prog, spec_env(data, yv, xv, kern.params))
    want = sp.expr('-2 * (((data[y + 1, x] + data[y - 1, x]) / 2 - data[y, x]) + '
                   '((data[y, x + 1] + data[y, x - 1]) / 2 - data[y, x])) * 100 / (cellsize * cellsize)')
    for s in stores:
        rep.add('L-formula', kern, entry, norm(s.node), s.node.lineno, approx_equal(s.value, want),
                'stored value must be -2(D+E)*100 with D, E the second differences along rows and columns over '
                'cellsize^2 (5-point Laplacian); got %s' % show(s.value, 300))
        rep.add('L-unguarded', kern, entry, norm(s.node), s.node.lineno, not s.guards, 'store must be unconditional')
    nan_containment(rep, kern, entry, stores, data)
    cellsize_binding(prog, rep, pub, path, f0, kern, kern.params, {'cellsize': '(cellsize_x + cellsize_y) / 2'})
    return kern


def _aspect_patterns(kern, k, stores, data, yv, xv):
    """(ok, why) from evaluating the aspect stores on the nine sign patterns of the Horn gradient, None when not evaluable"""
    one = Rat.const(1)
    cell = lambda dy_, dx_: App('read', [data, yv + Rat.const(dy_), xv + Rat.const(dx_)])      # noqa
    bad = []
    tiny = Fraction(1, 10 ** 40)       # a gradient that is not zero, closer to it than any tolerance (near-miss of the flat test)
    try:
        for dx in (-1, 0, 1, tiny, -tiny):
            for dy in (-1, 0, 1, tiny, -tiny):
                env = {cell(a_, b_): Fraction(0) for a_ in (-1, 0, 1) for b_ in (-1, 0, 1)}
                env[cell(0, 1)] = Fraction(dx) / 2        # dz_dx = 2 * (east - west)
                env[cell(1, 0)] = Fraction(dy) / 2        # dz_dy = 2 * (south row - north row)
                for s in stores:
                    for a in walk_atoms((s.value, tuple(s.guards))):
                        if isinstance(a, App) and a.name == 'arctan2' and a not in env:
                            y_, x_ = (evaluate(z, env) for z in a.args)
                            env[a] = Fraction(math.atan2(float(y_), float(x_)))
                fired = [s for s in stores if all(eval_cond_full(g, env) for g in s.guards)]
                if not fired:
                    bad.append('no store for (dz_dx, dz_dy) = (%s, %s)' % (float(dx), float(dy)))
                    continue
                got = evaluate(fired[-1].value, env)
                if dx == 0 and dy == 0:
                    want = Fraction(-1)
                else:
                    t = math.degrees(math.atan2(float(dy), float(-dx)))
                    want = Fraction(90 - t if t <= 90 else 450 - t)
                    if want == 360 and got == 0:
                        want = Fraction(0)
                if abs(got - want) > Fraction(1, 10 ** 6):
                    bad.append('(dz_dx, dz_dy) = (%s, %s): %s, expected %s' % (float(dx), float(dy), float(got), float(want)))
    except (CannotEvaluate, KeyError, ZeroDivisionError, ValueError):
        return None
    return (not bad, '; '.join(bad[:3]))


def nan_containment(rep, kern, entry, stores, data):
    """L3-nan: the formulas are arithmetic in the cells of the window, so a NaN cell the formula reads makes the result
    NaN.  For every window cell A that any store reads (in its value or its guards): with A = NaN and the other cells at
    two finite settings (all equal - every difference is 0 - and all different), every store whose guards hold under IEEE
    comparison rules (a comparison with NaN is false, `!=` true, `not` of a false test true) must store a value that
    depends on A - a constant chosen by a test that NaN fails (`0. if dz_dy > 0 else 180.`) is a number where the formula
    gives NaN."""
    cells = set()
    for s in stores:
        for a in walk_atoms((s.value, tuple(s.guards))):
            if isinstance(a, App) and a.name == 'read' and a.args[0] == data:
                cells.add(a)
    cells = sorted(cells, key=repr)

    def ev(c, nan, env):
        if c[0] == 'cmp':
            d = c[2] if isinstance(c[2], Rat) else c[3]
            if nan in walk_atoms(d):
                return c[1] == '!='
            v = evaluate(d, env)
            return {'==': v == 0, '!=': v != 0, '<': v < 0, '<=': v <= 0}[c[1]]
        if c[0] in ('and', 'or'):
            vals = [ev(x, nan, env) for x in c[1:]]
            return all(vals) if c[0] == 'and' else any(vals)
        if c[0] == 'not':
            return not ev(c[1], nan, env)
        if c[0] == 'const':
            return bool(c[1])
        if c[0] == 'truth':
            return True if nan in walk_atoms(c[1]) else evaluate(c[1], env) != 0
        raise CannotEvaluate(repr(c))
    def val_nan(x, nan, env):
        """is the stored value NaN?  arithmetic on NaN is NaN; a conditional value is the arm the (IEEE) test selects"""
        if isinstance(x, Rat):
            return any(val_nan(a, nan, env) for a in x.atoms())
        if x == nan:
            return True
        if isinstance(x, App):
            if x.name == 'ite':
                return val_nan(x.args[1] if ev(x.args[0], nan, env) else x.args[2], nan, env)
            return any(val_nan(a, nan, env) for a in x.args if isinstance(a, (Rat, App, Sym)))
        return False
    bad = []
    n = 0
    try:
        for nan in cells:
            for setting in ('equal', 'different'):
                env = {a: Fraction(7 if setting == 'equal' else 3 + 5 * i * i) for i, a in enumerate(cells)}
                for p_ in kern.params:
                    env[Sym(p_)] = Fraction(3)
                for s in stores:
                    n += 1
                    if all(ev(g, nan, env) for g in s.guards) and not val_nan(s.value, nan, env):
                        bad.append('with %s = NaN and the other cells %s, `%s` stores %s' % (show(nan), setting, norm(s.node)[:60], show(s.value, 60)))
    except (CannotEvaluate, KeyError, ZeroDivisionError) as e:
        rep.add('L3-nan', kern, entry, 'NaN in the window', kern.node.lineno, None, 'guards not evaluable: %s' % e)
        return
    rep.add('L3-nan', kern, entry, 'a NaN cell the formula reads gives NaN (%d cells x 2 settings x %d stores)' % (len(cells), len(stores)),
            kern.node.lineno, not bad, 'the documented formula is arithmetic in the window cells: ' + '; '.join(bad[:2]), facts={'evaluations': n})


def zero_sum(rep, kern, entry, k, data):
    """L2: every linear combination of reads that reaches the output has coefficient sum 0 (offset invariance)."""
    def shift(a):
        if isinstance(a, App) and a.name == 'read' and a.args[0] == data:
            return Rat.atom(a) + Rat.sym('__C__')
        return None
    for s in k.stores:
        if s.idx == 'all':
            continue
        v2 = subst(s.value, shift)
        ok = v2 == s.value
        gs_ok = True
        for g in flatten_and(s.guards):
            if g[0] == 'cmp':
                if subst(g[3], shift) != g[3]:
                    gs_ok = False
        rep.add('L2-offset', kern, entry, norm(s.node), s.node.lineno, ok and gs_ok,
                'adding a constant to every elevation must not change the stored value or its guards')


def check_hillshade(prog, rep):
    pub = None
    m = prog.module('hillshade')
    pub = m.funcs.get('hillshade')
    if pub is None:
        raise AnalysisIncomplete('public hillshade not found')
    paths = [p for p in backend_paths(prog, pub) if p.backend == 'numpy']
    if not paths or paths[0].func() is None:
        raise AnalysisIncomplete('hillshade numpy path not found')
    from ..inline import inline_view
    f = inline_view(prog, paths[0].func())     # small glue helpers (border fill, ...) read as if written in place
    entry = 'hillshade[numpy]'
    # vectorised model: np.gradient footprint; afterwards elementwise only; borders set NaN
    grads = []
    nonelem = []
    ELEM = {'arctan', 'sqrt', 'arctan2', 'sin', 'cos', 'astype', 'float32', 'float64', 'radians', 'hypot', 'tan',
            'arcsin', 'arccos', 'abs', 'power', 'square', 'deg2rad', 'dtype'}      # `np.dtype('float32')` names a type
    for n in f.own_nodes():
        if isinstance(n, ast.Call):
            t = prog.resolve_callable(f, f.module, n.func)
            nm = norm(n.func)
            short = nm.split('.')[-1]
            if short == 'gradient':
                grads.append(n)
            elif short in ELEM:
                pass
            else:
                nonelem.append(n)
    rep.add('L6-gradient', f, entry, ', '.join(norm(g) for g in grads) or 'np.gradient call', f.node.lineno,
            len(grads) == 1 and len(grads[0].args) == 1 and not grads[0].keywords,
            'hillshade must derive from exactly one unit-spaced np.gradient of the raster (central differences: '
            'footprint is the 4-neighbourhood)')
    rep.add('L6-elementwise', f, entry, 'calls other than elementwise ufuncs: %s' % [norm(c)[:40] for c in nonelem],
            f.node.lineno, not nonelem, 'every operation after the gradient must be elementwise (locality)')
    # border stores
    stores = []
    for n in f.own_nodes():
        if isinstance(n, ast.Assign) and isinstance(n.targets[0], ast.Subscript):
            stores.append(n)
    # the NaN stores on the returned array must cover exactly the first/last row and the first/last column, in any
    # grouping: [(0, -1), :] or [0, :] and [-1, :] ...
    rows, cols = set(), set()
    other = []
    retname = None
    for n in f.own_nodes():
        if isinstance(n, ast.Return) and isinstance(n.value, ast.Name):
            retname = n.value.id

    def _full(e):
        return isinstance(e, ast.Slice) and e.lower is None and e.upper is None and e.step is None

    def _consts(e):
        try:
            v = ast.literal_eval(e)
        except Exception:
            # a module-level constant (`_BORDER = [0, -1]`): its value, folded
            try:
                from ..consteval import CannotFold, fold_expr
                v = fold_expr(prog, f.module, e)
            except Exception:     # noqa - CannotFold or anything the folder does not model
                return None
        if isinstance(v, int) and not isinstance(v, bool):
            return {v}
        if isinstance(v, (tuple, list)) and v and all(isinstance(x, int) and not isinstance(x, bool) for x in v):
            return set(v)
        return None
    for n in stores:
        t = n.targets[0]
        isnan = norm(n.value) in ('np.nan', 'numpy.nan', "float('nan')", 'math.nan')
        if not (isinstance(t.value, ast.Name) and t.value.id == retname):
            continue
        if isinstance(t.slice, ast.Tuple) and len(t.slice.elts) == 2 and isnan:
            a, b = t.slice.elts
            if _full(b) and _consts(a) is not None:
                rows |= _consts(a)
                continue
            if _full(a) and _consts(b) is not None:
                cols |= _consts(b)
                continue
        other.append(norm(n))
    rep.add('L6-border', f, entry, 'border stores: %s' % [norm(s) for s in stores], f.node.lineno,
            rows == {0, -1} and cols == {0, -1} and not other,
            'exactly the first/last row and the first/last column of the returned array must be set to NaN (rows %s, '
            'columns %s, other stores %s)' % (sorted(rows), sorted(cols), other))
    # formula shape: result = (shaded + 1) / 2 with shaded = sin(alt)*sin(slope) + cos(alt)*cos(slope)*cos(az - pi/2 - aspect)
    try:
        env = {}
        for p in f.params:
            env[p] = Rat.sym(p)
        sp = Spec(prog, env, f.module)
        body = []
        for st in f.node.body:
            if isinstance(st, ast.Assign):
                tgt = st.targets[0]
                txt = norm(st)
                if 'astype' in txt:
                    continue
                if isinstance(tgt, ast.Subscript):
                    continue
                if 'gradient' in txt:
                    # x, y = np.gradient(data): central differences along axis 0 (rows), axis 1 (cols)
                    names = [e.id for e in tgt.elts]
                    sp.it.env[names[0]] = Rat.sym('d_rows')
                    sp.it.env[names[1]] = Rat.sym('d_cols')
                    continue
                sp.it.stmt(st)
        got_v = sp.it.env.get(retname)
        sp2 = Spec(prog, {'azimuth': Rat.sym('azimuth'), 'angle_altitude': Rat.sym('angle_altitude'),
                          'x': Rat.sym('d_rows'), 'y': Rat.sym('d_cols'), 'PI': Rat.sym('pi')})
        sp2.run('''
az = (360.0 - azimuth) * PI / 180.
alt = angle_altitude * PI / 180.
slope = PI / 2. - arctan(sqrt(x * x + y * y))
aspect = arctan2(-x, y)
shaded = sin(alt) * sin(slope) + cos(alt) * cos(slope) * cos((az - PI / 2.) - aspect)
result = (shaded + 1) / 2
''')
        ok = isinstance(got_v, Rat) and approx_equal(got_v, sp2['result'])
        rep.add('L-formula', f, entry, 'hillshade expression for %s' % retname, f.node.lineno, ok,
                'result must be (sin(alt)sin(slope) + cos(alt)cos(slope)cos(az - pi/2 - aspect) + 1)/2 with '
                'slope = pi/2 - atan|grad|, aspect = atan2(-d_rows, d_cols), az = (360 - azimuth) in radians; got %s'
                % show(got_v, 300))
    except AnalysisIncomplete as e:
        rep.add('L-formula', f, entry, 'hillshade expression', f.node.lineno, None, str(e))
    return f


def _is_first_last(e):
    try:
        v = ast.literal_eval(e)
    except Exception:
        return False
    return isinstance(v, (tuple, list)) and sorted(v) == [-1, 0]


def check_resolution(prog, rep):
    """S5: utils.calc_res / get_dataarray_resolution return (x, y) with x from width, y from height."""
    f = prog.func('utils', 'calc_res')
    # on wrapper terms (the raster is 2-D: its shape is a pair; loops / comprehensions over the two axes are written out):
    # xres = (x-coordinate max - min) / (width - 1), yres = (y-coordinate max - min) / (height - 1)
    from ..wterm import WT, to_rat, atom_term, show as tshow, key as tkey
    rp = ('param', f.params[0])
    w = WT(prog, two_d=lambda t: t == rp)
    ret = w.run(f)
    ok, detail = None, 'returned value not a pair of quotients'
    if ret is not None and ret[0] == 'tuple' and len(ret[1]) == 2 and all(t_[0] == 'arith' for t_ in ret[1]):
        res = []
        for t_, ax, dimp in zip(ret[1], (1, 0), ('xdim', 'ydim')):
            r = to_rat(t_)
            ext = to_rat(('index', ('attr', rp, 'shape'), ('const', ax))) - Rat.const(1)
            other = to_rat(('index', ('attr', rp, 'shape'), ('const', 1 - ax))) - Rat.const(1)
            txt = ' '.join(tkey(atom_term(a)) for a in Rat(r.n).atoms() if atom_term(a) is not None)
            okd = (Rat(r.d) / ext).is_const() and not (Rat(r.d) / other).is_const()
            okn = ("('param', '%s')" % dimp) in txt and ("('param', '%s')" % ('ydim' if dimp == 'xdim' else 'xdim')) not in txt and \
                "'max'" in txt and "'min'" in txt
            res.append((okd, okn))
        ok = all(a and b for a, b in res)
        detail = '(divided by its own extent - 1, coordinates of its own dimension): x %s, y %s; %s' % (res[0], res[1], tshow(ret, 160))
    rep.add('S5-res', f, 'calc_res', 'return xres, yres', f.node.lineno, ok,
            'xres must be the x-coordinate range over (width-1) and yres the y range over (height-1): ' + detail)
    g = prog.func('utils', 'get_dataarray_resolution')
    # what it returns, as a wrapper term: on every path the pair is (x, y) - the two components of the `res` attribute in
    # their order, one scalar `res` for both, or the two components of calc_res in their order.  Helpers, early returns and
    # intermediate names do not matter.
    from ..wterm import WT, key as tkey, show as tshow
    w = WT(prog, keep=[f])
    ret = w.run(g)

    def comp(t, i):
        if t is None:
            return None
        if t[0] == 'tuple' and len(t[1]) == 2:
            return t[1][i]
        if t[0] == 'phi':
            return ('phi', t[1], comp(t[2], i), comp(t[3], i))
        if t[0] == 'const' and t[1] is None:
            return None
        return ('index', t, ('const', i))

    def leaves(t):
        if t is None:
            return []
        if t[0] == 'phi':
            return leaves(t[2]) + leaves(t[3])
        return [t]
    verdicts = []
    for i in (0, 1):
        for lf in leaves(comp(ret, i)) if ret is not None else []:
            if lf[0] == 'index' and lf[2][0] == 'const' and lf[2][1] in (0, 1):
                verdicts.append((lf[2][1] == i, '%s component taken from position %d of %s' % ('xy'[i], lf[2][1], tshow(lf[1], 60))))
            elif lf[0] == 'const':
                verdicts.append((None, 'constant %r' % (lf[1],)))
            else:
                verdicts.append((True, 'scalar %s for both axes' % tshow(lf, 40)))      # one number for both axes
    if ret is None or not verdicts:
        rep.add('S5-res', g, 'get_dataarray_resolution', 'returned pair', g.node.lineno, None, 'returned value not understood')
    else:
        bad = [v for v in verdicts if v[0] is False]
        und = [v for v in verdicts if v[0] is None]
        rep.add('S5-res', g, 'get_dataarray_resolution', 'returned pair keeps the (x, y) order of res / calc_res on every path (%d leaves)' % len(verdicts),
                g.node.lineno, False if bad else (None if und else True),
                'pair assignments must keep the (x, y) order of res / calc_res; ' + '; '.join(v[1] for v in (bad or und)[:2]))


def check_summarize(prog, rep):
    m = prog.module('analytics')
    f = m.funcs.get('summarize_terrain')
    if f is None:
        raise AnalysisIncomplete('summarize_terrain not found')
    want = {'slope', 'curvature', 'aspect'}
    got = {}
    for n in f.own_nodes():
        if isinstance(n, ast.Assign) and isinstance(n.targets[0], ast.Subscript) and isinstance(n.value, ast.Call):
            t = prog.resolve_callable(f, m, n.value.func)
            key = norm(n.targets[0].slice)
            if isinstance(t, Func):
                ok = t.name in want and ('-' + t.name) in key and len(n.value.args) == 1 and \
                    isinstance(n.value.args[0], ast.Name) and n.value.args[0].id == f.params[0]
                got[t.name] = ok
                rep.add('L7-forward', f, 'summarize_terrain', norm(n), n.lineno, ok,
                        'each summary layer must be the same-named function applied to the input terrain')
    rep.add('L7-forward', f, 'summarize_terrain', 'layers %s' % sorted(got), f.node.lineno, set(got) == want,
            'summarize_terrain must forward to slope, curvature and aspect')


def check_dask_borders(prog, rep):
    """NaN borders on the dask path: the halo is NaN, which needs floating data before map_overlap pads it."""
    from ..dasksites import NAN_TEXTS, sites_in
    from ..sharedrules import FloatProv
    fpv = FloatProv(prog)
    for modname in ('slope', 'aspect', 'curvature', 'hillshade'):
        m = prog.module(modname)
        pub = m.funcs.get(modname)
        paths = [p for p in backend_paths(prog, pub) if p.backend == 'dask']
        if not paths or paths[0].func() is None:
            raise AnalysisIncomplete('%s: dask path not found' % modname)
        f = paths[0].func()
        from ..dasksites import expanded_sites
        allsites = expanded_sites(prog, f)
        sites = [s for s in allsites if s.kind == 'map_overlap']
        for s in allsites:
            if s.kind != 'map_overlap':
                rep.add('L8-dask', f, '%s[dask]' % modname, norm(s.call)[:120], s.call.lineno, False,
                        'a 3x3 operator reads its neighbours: every chunked evaluation on the dask path must be a map_overlap '
                        'with a one-cell halo; `%s` evaluates blocks in isolation (cells at internal chunk seams get the border '
                        'treatment) whatever condition selects it' % s.kind)
        if not sites:
            rep.add('L8-dask', f, '%s[dask]' % modname, 'map_overlap site', f.node.lineno, False,
                    'a 3x3 operator needs a one-cell halo on the dask path')
        for s in sites:
            b = s.kwargs.get('boundary')
            bt = norm(b) if b is not None else None
            okb = bt in NAN_TEXTS or bt in ("'none'", '"none"')
            okf = bt not in NAN_TEXTS or fpv.is_float(f, s.arrays[0])
            rep.add('L8-dask', f, '%s[dask]' % modname, norm(s.call)[:120], s.call.lineno, okb and okf,
                    'border cells must be NaN on the dask path too: the halo must be NaN (or none) and the array must '
                    'already be floating when map_overlap pads it (boundary=%s, float before padding: %s)' % (bt, okf))


def check(prog, rep):
    from ..sharedrules import check_value_truthiness
    for nm_ in ('slope', 'aspect', 'curvature', 'hillshade'):
        if prog.public_api().get(nm_) is not None:
            check_value_truthiness(prog, rep, 'L6-truth', prog.public_api()[nm_])
    rep.floor('L6-truth', 4)
    check_dask_borders(prog, rep)
    ks = check_slope(prog, rep)
    ka = check_aspect(prog, rep)
    kc = check_curvature(prog, rep)
    for pubname, kern in (('slope', ks), ('aspect', ka), ('curvature', kc)):
        k = _interpret_kernel(prog, kern)
        data = None
        for lp in k.loops:
            for a in walk_atoms(lp.hi) if lp.hi is not None else ():
                if isinstance(a, App) and a.name == 'shape':
                    data = a.args[0]
        zero_sum(rep, kern, '%s[numpy]' % pubname, k, data)
    check_hillshade(prog, rep)
    check_resolution(prog, rep)
    # numeric parameters (azimuth, altitude) are used as given: 0 is a legitimate value
    from ..sharedrules import check_sentinels
    for modname, fn in (('hillshade', 'hillshade'), ('slope', 'slope'), ('aspect', 'aspect'), ('curvature', 'curvature')):
        check_sentinels(prog, rep, prog.module(modname), [fn], rule='L6-sentinel')
    check_summarize(prog, rep)
    # the public wrappers are glue around the dispatch: rasters in as given, backend result out as it is
    from ..sharedrules import check_dispatch_passthrough
    for modname, fn in (('slope', 'slope'), ('aspect', 'aspect'), ('curvature', 'curvature')):
        check_dispatch_passthrough(prog, rep, 'L9-pass', prog.func(modname, fn))
    rep.floor('L9-pass', 6)
    # the scalars that go with the raster (cell sizes, sun angles) reach the shared kernel as the same quantities, in the same
    # roles, on the dask path as on the numpy path (rule shared with C01)
    from .C01 import check_pipe_args, find_dispatch, path_target
    for modname, fn in (('slope', 'slope'), ('curvature', 'curvature'), ('hillshade', 'hillshade')):
        pub_ = prog.func(modname, fn)
        disp = find_dispatch(prog, pub_)
        if disp is None:
            raise AnalysisIncomplete('%s: backend dispatch not found' % fn)
        f_np, _x = path_target(prog, disp[1]['numpy'])
        f_da, _y = path_target(prog, disp[1]['dask'])
        if f_np is not None and f_da is not None:
            check_pipe_args(prog, rep, '%s[dask]' % fn, pub_, f_np, f_da, scalars_only=True)
    rep.floor('H0-scalars', 3)
    rep.floor('L8-dask', 4)
    rep.floor('L1-loops', 3)
    rep.floor('L1-footprint', 3)
    rep.floor('L-formula', 4)
    rep.floor('L5-compass', 1)
    rep.floor('S7-bind', 3)
    rep.floor('L6-border', 1)
    rep.floor('S5-res', 2)
