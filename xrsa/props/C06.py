"""C06 - proximity, allocation, direction name one real target, never underestimated  (soundness half decided; the
exactness half - that the target found is the nearest one for every layout - is declined).

Premises of the soundness argument, decided on the line routine and the four-sweep driver reached from the public
functions: X6 target test; X1 only (pixel, line) of a target or a remembered pair can enter the per-column memory;
X2 the three candidate blocks (k = pixel, pixel-step, pixel+step) compute the distance from the pair remembered at k
and adopt that same pair; X5 the proximity update stores sqrt(adopted squared distance) under max_distance^2 >= it,
together with the adopted pair; X3 four sweeps (2 in an ascending-row loop, 2 in a descending-row loop, one forward and
one backward each) with the memory reset between the passes and the result pair reset before each call; X4 allocation
and direction read the pair stored by the same call; unreached cells become NaN; X7 the bearing table.
"""
import ast
import math
from fractions import Fraction

from ..astutil import calls, const, kw, parent_map, short
from ..kai import interpret
from ..kutil import CannotEvaluate, evaluate, show
from ..program import AnalysisIncomplete, Func, norm
from ..sym import App, Rat, Sym, walk_atoms
from .C07 import find_impl


def T(n):
    return norm(n).replace(' ', '').replace('\n', '')


def find_line_routine(prog, impl):
    kern = None
    for g in impl.children.values():
        if g.jit is not None:
            kern = g
    if kern is None:
        raise AnalysisIncomplete('proximity: jitted closure kernel not found')
    line = None
    cs = []
    for n in kern.own_nodes():
        if isinstance(n, ast.Call):
            t = prog.resolve_callable(kern, kern.module, n.func)
            if isinstance(t, Func) and t.jit is not None and len(t.params) > 10:
                line = t
                cs.append(n)
    if line is None:
        raise AnalysisIncomplete('proximity: line routine not found')
    return kern, line, cs


def check_line(prog, rep, f):
    entry = 'proximity line routine'
    P = f.params
    (src, xs, ys, pnx, pny, fwd, lid, width, maxd, prox, nxs, nys, vals, metric) = P[:14]
    loops = [n for n in f.node.body if isinstance(n, ast.For)]
    if len(loops) != 1 or not isinstance(loops[0].target, ast.Name):
        rep.add('X2', f, entry, 'pixel loop', f.node.lineno, None, 'single pixel loop not found')
        return
    lp = loops[0]
    px = lp.target.id
    ok = T(lp.iter) in ('prange(start,end,step)', 'range(start,end,step)')
    pre = {T(s) for s in f.node.body if isinstance(s, ast.Assign)}
    okdir = {'start=%s-1' % width, 'end=-1', 'step=-1'} <= pre and any(
        isinstance(s, ast.If) and T(s.test) == fwd and {T(x) for x in s.body} == {'start=0', 'end=%s' % width, 'step=1'}
        for s in f.node.body)
    rep.add('X3', f, entry, 'for %s in %s; forward 0..width step 1 / backward width-1..-1 step -1' % (px, norm(lp.iter)),
            lp.lineno, ok and okdir, 'a line is swept over all its pixels in the requested direction')
    body = lp.body
    # ---- X6 target test
    tif = [s for s in body if isinstance(s, ast.If) and T(s.test) == 'n_values==0']
    okt = False
    if len(tif) == 1:
        a = tif[0]
        d = [x for x in a.body if isinstance(x, ast.If)]
        okd = len(d) == 1 and T(d[0].test) in ('%s[%s]!=0andnp.isfinite(%s[%s])' % (src, px, src, px),
                                              'np.isfinite(%s[%s])and%s[%s]!=0' % (src, px, src, px)) and \
            [T(x) for x in d[0].body] == ['is_target=True'] and not d[0].orelse
        e = [x for x in a.orelse if isinstance(x, ast.For)]
        oke = len(e) == 1 and T(e[0].iter) in ('prange(n_values)', 'range(n_values)') and len(e[0].body) == 1 and \
            isinstance(e[0].body[0], ast.If) and T(e[0].body[0].test) in (
                '%s[%s]==%s[%s]' % (src, px, vals, e[0].target.id), '%s[%s]==%s[%s]' % (vals, e[0].target.id, src, px)) and \
            [T(x) for x in e[0].body[0].body] == ['is_target=True']
        okt = okd and oke
    init = any(T(s) == 'is_target=False' for s in body[:2])
    nv = 'n_values=len(%s)' % vals in pre
    rep.add('X6', f, entry, 'target test', tif[0].lineno if tif else lp.lineno, okt and init and nv,
            'default targets are the non-zero finite cells; with explicit target values a cell is a target iff it equals '
            'one of them; the flag is reset for every pixel')
    # ---- target stores
    tg = [s for s in body if isinstance(s, ast.If) and T(s.test) == 'is_target']
    want = {'%s[%s]=0.0' % (prox, px), '%s[%s]=%s' % (nxs, px, px), '%s[%s]=%s' % (nys, px, lid),
            '%s[%s]=%s' % (pnx, px, px), '%s[%s]=%s' % (pny, px, lid)}
    ok = len(tg) == 1 and {T(x) for x in tg[0].body if isinstance(x, ast.Assign)} == want and isinstance(tg[0].body[-1], ast.Continue)
    rep.add('X1', f, entry, 'target cell: proximity 0, nearest = memory = (pixel, line)', tg[0].lineno if tg else lp.lineno, ok,
            'a target cell has distance 0, names itself, and is remembered as (column = pixel, row = line) - rows with rows, '
            'columns with columns')
    # ---- candidate blocks
    alias = {}
    for s in body:
        if isinstance(s, ast.Assign) and isinstance(s.targets[0], ast.Name):
            alias[s.targets[0].id] = T(s.value)
    blocks = [s for s in body if isinstance(s, ast.If) and ('%s[' % pnx) in T(s.test) and s is not (tg[0] if tg else None)
              and 'max_distance' not in T(s.test) and maxd not in T(s.test)]
    ks = []
    for b in blocks:
        t = T(b.test)
        k = None
        extra = None
        if t == '%s[%s]!=-1' % (pnx, px):
            k, extra = px, None
        else:
            for name, val in alias.items():
                if t.endswith('and%s[%s]!=-1' % (pnx, name)):
                    k = name
                    extra = t[:-len('and%s[%s]!=-1' % (pnx, name))]
        if k is None:
            rep.add('X2', f, entry, 'candidate block `if %s`' % norm(b.test)[:60], b.lineno, False,
                    'unrecognised candidate block guard')
            continue
        kval = alias.get(k, k)
        ks.append(kval)
        st = [T(x) for x in b.body if isinstance(x, ast.Assign)]
        coords_ok = {'x1=%s[%s[%s],%s[%s]]' % (xs, pny, k, pnx, k), 'y1=%s[%s[%s],%s[%s]]' % (ys, pny, k, pnx, k),
                     'x2=%s[%s,%s]' % (xs, lid, px), 'y2=%s[%s,%s]' % (ys, lid, px),
                     'dist=_distance(x1,x2,y1,y2,%s)' % metric, 'dist_sqr=dist**2'} <= set(st)
        ad = [x for x in b.body if isinstance(x, ast.If)]
        adopt_ok = False
        if len(ad) == 1 and T(ad[0].test) in ('dist_sqr<near_distance_square',):
            a_st = {T(x) for x in ad[0].body}
            if k == px:
                adopt_ok = a_st == {'near_distance_square=dist_sqr'} and {T(x) for x in ad[0].orelse} == {
                    '%s[%s]=-1' % (pnx, px), '%s[%s]=-1' % (pny, px)}
            else:
                adopt_ok = a_st == {'near_distance_square=dist_sqr', '%s[%s]=%s[%s]' % (pnx, px, pnx, k),
                                    '%s[%s]=%s[%s]' % (pny, px, pny, k)} and not ad[0].orelse
        edge_ok = True
        if kval == '%s-step' % px:
            edge_ok = extra == '%s!=start' % px
        elif kval == '%s+step' % px:
            edge_ok = extra == '%s!=end' % k
        rep.add('X2', f, entry, 'candidate k = %s' % kval, b.lineno, coords_ok and adopt_ok and edge_ok,
                'the distance must be computed from the coordinates of the pair remembered at k (row index from the row '
                'memory, column index from the column memory) to the current cell, and if it is smaller that SAME pair '
                'must be adopted (both halves); coordinates ok: %s, adoption ok: %s, edge guard ok: %s'
                % (coords_ok, adopt_ok, edge_ok))
    rep.add('X2', f, entry, 'candidate set %s' % sorted(ks), lp.lineno,
            sorted(ks) == sorted([px, '%s-step' % px, '%s+step' % px]),
            'the candidates are the targets remembered at the same column (line above/below), the previous pixel and the '
            'diagonal next pixel - exactly {pixel, pixel-step, pixel+step}')
    ninit = [s for s in body if isinstance(s, ast.Assign) and T(s.targets[0]) == 'near_distance_square']
    ok = len(ninit) == 1 and T(ninit[0].value) in ('%s**2*2.0' % maxd, '2.0*%s**2' % maxd, 'np.inf')
    rep.add('X2', f, entry, norm(ninit[0]) if ninit else 'initial candidate distance', lp.lineno, ok,
            'the running squared distance starts above max_distance^2 for every pixel')
    # ---- X5 update
    up = [s for s in body if isinstance(s, ast.If) and (maxd in T(s.test)) and s not in blocks]
    ok = False
    if len(up) == 1:
        t = T(up[0].test)
        conj = {x for x in (T(v) for v in up[0].test.values)} if isinstance(up[0].test, ast.BoolOp) else set()
        need1 = '%s[%s]!=-1' % (pnx, px)
        need2 = {'%s*%s>=near_distance_square' % (maxd, maxd), '%s**2>=near_distance_square' % maxd,
                 'near_distance_square<=%s*%s' % (maxd, maxd)}
        need3 = {'(%s[%s]<0ornear_distance_square<%s[%s]*%s[%s])' % (prox, px, prox, px, prox, px),
                 '%s[%s]<0ornear_distance_square<%s[%s]*%s[%s]' % (prox, px, prox, px, prox, px)}
        st = {T(x) for x in up[0].body}
        ok = need1 in conj and bool(conj & need2) and bool(conj & need3) and len(conj) == 3 and st == {
            '%s[%s]=sqrt(near_distance_square)' % (prox, px), '%s[%s]=%s[%s]' % (nxs, px, pnx, px),
            '%s[%s]=%s[%s]' % (nys, px, pny, px)}
    rep.add('X5', f, entry, 'proximity update', up[0].lineno if up else lp.lineno, ok,
            'the stored distance is sqrt of the adopted squared distance, stored only if a pair is remembered, it is within '
            'max_distance and improves the current value - together with that pair as the nearest target (paired update)')


def check_driver(prog, rep, kern, line, cs):
    entry = 'proximity four-sweep driver'
    rowloops = [n for n in kern.node.body if isinstance(n, ast.For) and any(c in list(ast.walk(n)) for c in cs)]
    dirs = []
    for lp in rowloops:
        t = T(lp.iter)
        d = 'asc' if t in ('prange(height)', 'range(height)') else 'desc' if t in ('prange(height-1,-1,-1)', 'range(height-1,-1,-1)') else t
        fw = []
        for c in cs:
            if c in list(ast.walk(lp)):
                fw.append(T(c.args[5]))
        dirs.append((d, sorted(fw)))
    ok = dirs == [('asc', ['False', 'True']), ('desc', ['False', 'True'])]
    rep.add('X3', kern, entry, 'sweeps %s' % dirs, kern.node.lineno, ok,
            'one pass over ascending rows and one over descending rows, each sweeping every line forward and backward')
    # calls share arguments (besides direction)
    arg_sets = {tuple(T(a) for i, a in enumerate(c.args) if i != 5) for c in cs}
    rep.add('X3', kern, entry, 'the four calls pass the same arrays', kern.node.lineno, len(arg_sets) == 1 and len(cs) == 4,
            'all four sweeps must work on the same line, coordinate grids, memories and result arrays')
    if len(arg_sets) != 1:
        return
    a = [T(x) for x in cs[0].args]
    pnx, pny, lid, prox, nxs, nys = a[3], a[4], a[6], a[9], a[10], a[11]
    # memory reset before each row pass
    body = kern.node.body
    for lp in rowloops:
        i = body.index(lp)
        prev = None
        for j in range(i - 1, -1, -1):
            if isinstance(body[j], ast.For):
                prev = body[j]
                break
            if not isinstance(body[j], (ast.Assign, ast.Expr)) or (isinstance(body[j], ast.Expr) and not isinstance(body[j].value, ast.Constant)):
                break
        ok = isinstance(prev, ast.For) and {T(s) for s in prev.body} == {'%s[%s]=-1' % (pnx, T(prev.target)), '%s[%s]=-1' % (pny, T(prev.target))} \
            and T(prev.iter) in ('prange(width)', 'range(width)')
        rep.add('X3', kern, entry, 'per-column memory reset before the %s pass' % ('first' if lp is rowloops[0] else 'second'),
                lp.lineno, ok, 'targets remembered from the previous pass direction must not leak into the next pass')
    # nearest pair reset before each call
    pm = parent_map(kern.node)
    for c in cs:
        st = c
        while not isinstance(pm.get(st), ast.For) or pm.get(st) not in rowloops:
            st = pm.get(st)
            if st is None:
                break
        lp = pm.get(st) if st is not None else None
        ok = False
        if lp is not None:
            i = lp.body.index(st)
            prev = lp.body[i - 1] if i > 0 else None
            if isinstance(prev, ast.For):
                s = {T(x) for x in prev.body}
                iv = T(prev.target)
                ok = {'%s[%s]=-1' % (nxs, iv), '%s[%s]=-1' % (nys, iv)} <= s
        rep.add('X4', kern, entry, 'nearest pair reset before the sweep at line %d' % c.lineno, c.lineno, ok,
                'the per-line result pair must be cleared before every sweep so that allocation/direction read the pair '
                'stored by THAT sweep')
    # line read and first-pass distance carried into the second pass
    t_all = {T(s) for s in ast.walk(kern.node) if isinstance(s, ast.Assign)}
    ok = 'scan_line[i]=img[line][i]' in t_all or 'scan_line[i]=img[line,i]' in t_all
    rep.add('X3', kern, entry, 'scan line = img[line]', kern.node.lineno, ok, 'each sweep must read the current row of the raster')
    # X6b: the line buffer keeps the raster's own dtype (the target test compares raster values exactly)
    src = a[0]
    allocs = [n for n in kern.own_nodes() if isinstance(n, ast.Assign) and T(n.targets[0]) == src and isinstance(n.value, ast.Call)]
    img = kern.params[0]
    okb = False
    txt = None
    if len(allocs) == 1:
        c = allocs[0].value
        txt = T(allocs[0])
        dt = kw(c, 'dtype')
        if short(c) in ('zeros', 'empty', 'ones') and dt is not None:
            okb = T(dt) == '%s.dtype' % img
        elif short(c) in ('zeros_like', 'empty_like', 'copy') and dt is None:
            okb = img in T(c)
    rep.add('X6', kern, entry, 'line buffer: %s' % txt, allocs[0].lineno if allocs else kern.node.lineno, okb,
            'the buffer that holds the current raster row must have the raster\'s own dtype: narrowing it (e.g. float32) '
            'changes values before the target test (ids above 2**24, tiny/huge floats) so real targets are missed')
    ok = '%s[i]=img_distance[line][i]' % prox in t_all and 'img_distance[line][i]=%s[i]' % prox in t_all and '%s[i]=-1.0' % prox in t_all
    rep.add('X3', kern, entry, 'distances initialised to -1, saved per line, reloaded in the second pass', kern.node.lineno, ok,
            'the second pass must start from the first pass\' distances')
    # outputs
    outs = [n for n in ast.walk(kern.node) if isinstance(n, ast.Assign) and T(n.targets[0]) in ('output_img[line][i]', 'output_img[line,i]')]
    al = [n for n in outs if '_calc_direction' not in T(n.value)]
    di = [n for n in outs if '_calc_direction' in T(n.value)]
    okal = len(al) == 4 and all(T(n.value) in ('img[%s[i],%s[i]]' % (nys, nxs),) for n in al)
    okdi = len(di) == 4 and all(T(n.value) == '_calc_direction(x_coords[line,i],x_coords[%s[i],%s[i]],y_coords[line,i],y_coords[%s[i],%s[i]],)' % (nys, nxs, nys, nxs)
                                or T(n.value) == '_calc_direction(x_coords[line,i],x_coords[%s[i],%s[i]],y_coords[line,i],y_coords[%s[i],%s[i]])' % (nys, nxs, nys, nxs) for n in di)
    rep.add('X4', kern, entry, 'allocation = img[nearest row, nearest col] (%d sites)' % len(al), kern.node.lineno, okal,
            'allocation must read the raster at the remembered pair: row index from the row array, column index from the column array')
    rep.add('X4', kern, entry, 'direction = bearing(cell -> remembered pair) (%d sites)' % len(di), kern.node.lineno, okdi,
            'direction must be computed from the cell\'s coordinates to the coordinates of the remembered pair')
    guards = 0
    for n in outs:
        p = pm.get(n)
        g = pm.get(p) if isinstance(p, ast.If) else None
        chain = [x for x in (p, g, pm.get(g) if g is not None else None) if isinstance(x, ast.If)]
        if any(T(x.test) == '%s[i]!=-1and%s[i]>=0' % (nxs, prox) for x in chain):
            guards += 1
    rep.add('X4', kern, entry, 'outputs written only for cells whose sweep found a target (%d/%d)' % (guards, len(outs)),
            kern.node.lineno, guards == len(outs) and len(outs) == 8, 'every allocation/direction store must be under `nearest != -1 and proximity >= 0`')
    nanfix = any(isinstance(n, ast.If) and T(n.test) == '%s[i]<0' % prox and any(T(s) == '%s[i]=np.nan' % prox for s in n.body)
                 for n in ast.walk(kern.node))
    rep.add('X5', kern, entry, 'unreached cells (distance < 0) become NaN', kern.node.lineno, nanfix,
            'a cell with no target within max_distance must be NaN')
    init = 'output_img=np.full((height,width),np.nan,dtype=np.float32)' in t_all
    rep.add('X5', kern, entry, 'allocation/direction image NaN-initialised', kern.node.lineno, init, 'cells without a target are NaN in all outputs')
    rets = [n for n in kern.own_nodes() if isinstance(n, ast.Return)]
    ok = len(rets) == 2 and any(isinstance(n, ast.If) and T(n.test) == 'process_mode==PROXIMITY' and T(n.body[0]) == 'returnimg_distance'
                                and T(n.orelse[0]) == 'returnoutput_img' for n in kern.own_nodes())
    rep.add('X4', kern, entry, 'proximity mode returns the distances, other modes the output image', kern.node.lineno, ok, '')


def check_direction(prog, rep, m):
    f = m.funcs.get('_calc_direction')
    if f is None:
        raise AnalysisIncomplete('_calc_direction not found')
    entry = '_calc_direction'
    k = interpret(prog, f)
    x1, x2, y1, y2 = [Sym(p) for p in f.params[:4]]
    cases = {'self': ((0, 0), 0), 'E': ((1, 0), 90), 'S': ((0, 1), 180), 'W': ((-1, 0), 270), 'N': ((0, -1), 360),
             'SE': ((1, 1), 135), 'SW': ((-1, 1), 225), 'NW': ((-1, -1), 315), 'NE': ((1, -1), 45)}
    bad = []
    n = 0
    for name, ((dx, dy), want) in cases.items():
        env = {x1: Fraction(3), y1: Fraction(5), x2: Fraction(3 + dx), y2: Fraction(5 + dy)}
        # bind every arctan2 atom to its library value at this point
        for v, g in k.returns + k.returns:
            if isinstance(v, Rat):
                for a in walk_atoms(v):
                    if isinstance(a, App) and a.name == 'arctan2':
                        try:
                            p = [float(evaluate(z, env)) for z in a.args]
                        except CannotEvaluate:
                            continue
                        if p[0] == 0 and p[1] == 0:
                            continue
                        env[a] = Fraction(math.atan2(p[0], p[1]))
        got = None
        try:
            from ..kutil import eval_cond_full
            for v, g in k.returns:
                if all(eval_cond_full(c, env) for c in g):
                    got = evaluate(v, env) if isinstance(v, Rat) else None
                    break
        except CannotEvaluate as e:
            got = None
        n += 1
        if got is None or abs(float(got) - want) > 1e-3:
            bad.append((name, None if got is None else round(float(got), 4), want))
    rep.add('X7', f, entry, 'bearing table over %d directions' % n, f.node.lineno, not bad,
            'bearing convention in argument space: 0 = same point, 90 for x2 > x1, 180 for y2 > y1, 270 for x2 < x1, 360 for '
            'y2 < y1, diagonals in between; mismatches (case, got, want): %s' % bad)


def check(prog, rep):
    impl = find_impl(prog)
    kern, line, cs = find_line_routine(prog, impl)
    check_line(prog, rep, line)
    check_driver(prog, rep, kern, line, cs)
    check_direction(prog, rep, impl.module)
    # target values and max distance handed to the kernel
    t_all = {T(s) for s in impl.own_nodes() if isinstance(s, ast.Assign)}
    ok = 'target_values=np.asarray(target_values)' in t_all and any(
        isinstance(n, ast.If) and T(n.test) == 'max_distanceisNone' and T(n.body[0]) == 'max_distance=np.inf' for n in impl.own_nodes())
    rep.add('X6', impl, 'proximity', 'target_values as array; max_distance None -> inf', impl.node.lineno, ok,
            'an absent max_distance means unbounded')
    # the statement is backend-neutral: on Dask rasters each chunk must see a halo of max_distance (rules of C07)
    from . import C07
    C07.check(prog, rep)
    rep.floors = {k: v for k, v in rep.floors.items() if not k.startswith('P7') and k not in ('H2', 'H0')}
    rep.floor('P7a', 2)
    rep.floor('X1', 1)
    rep.floor('X2', 5)
    rep.floor('X3', 6)
    rep.floor('X4', 8)
    rep.floor('X5', 3)
    rep.floor('X7', 1)
