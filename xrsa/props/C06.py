"""C06 - proximity, allocation, direction name one real target, never underestimated  (soundness half decided; the
exactness half - that the target found is the nearest one for every layout - is declined).

Premises of the soundness argument, decided on the line routine and the four-sweep driver reached from the public
functions: X6 target test; X1 only (pixel, line) of a target or a remembered pair can enter the per-column memory;
X2 the three candidate blocks (k = pixel, pixel-step, pixel+step) compute the distance from the pair remembered at k
and adopt that same pair; X5 the proximity update stores sqrt(adopted squared distance) under max_distance^2 >= it,
together with the adopted pair; X3 four sweeps (2 in an ascending-row loop, 2 in a descending-row loop, one forward and
one backward each) with the memory reset between the passes and the result pair reset before each call; X4 allocation
and direction read the pair stored by the same call; unreached cells become NaN; X7 the bearing table.
"""
import ast
import math
from fractions import Fraction

from ..astutil import calls, const, kw, parent_map, short
from ..kai import Arr, cond_arg, cond_key, cond_repr, interpret, neg_cond
from ..kutil import CannotEvaluate, eval_cond_full, evaluate, guard_atoms, show
from ..program import AnalysisIncomplete, Func, norm
from ..sym import App, Rat, Sym, walk_atoms
from .C07 import find_impl


def T(n):
    return norm(n).replace(' ', '').replace('\n', '')


def find_line_routine(prog, impl):
    # the kernel is the jitted closure that calls the line routine (a module-level jit function of many parameters); other
    # jitted closures are helpers of it
    jits = [g for g in impl.children.values() if g.jit is not None]
    if not jits:
        raise AnalysisIncomplete('proximity: jitted closure kernel not found')
    found = []
    for kern in jits:
        line = None
        cs = []
        for n in kern.own_nodes():
            if isinstance(n, ast.Call):
                t = prog.resolve_callable(kern, kern.module, n.func)
                if isinstance(t, Func) and t.jit is not None and t.parent is None and len(t.params) > 10:
                    line = t
                    cs.append(n)
        if line is not None:
            found.append((kern, line, cs))
    if len(found) != 1:
        raise AnalysisIncomplete('proximity: line routine not found')
    return found[0]


def _one(r):
    """the App a with r == a (coefficient 1), else None"""
    if isinstance(r, Rat) and r.d.is_const() and len(r.n.t) == 1:
        (mm, c), = r.n.t.items()
        if len(mm) == 1 and mm[0][1] == 1 and isinstance(mm[0][0], App) and c == r.d.const_value():
            return mm[0][0]
    return None


def _pos_multiple(a, b):
    """a == c * b for a positive constant c (comparisons are stored scaled)"""
    if a == b:
        return True
    if b.n.is_zero() or a.n.is_zero():
        return False
    r = a / b
    return r.is_const() and r.const_value() > 0


def _one_sym(r):
    """the symbol when the Rat is exactly one symbol"""
    ats = list(r.atoms()) if isinstance(r, Rat) else []
    return ats[0] if len(ats) == 1 and isinstance(ats[0], Sym) and r == Rat.atom(ats[0]) else None


def _not_arg(c):
    """negation of a condition in App-argument form; the negation of an ordered comparison stays a negation (`not (d <= 0)`
    is not `-d < 0` when d is NaN: a squared distance computed from NaN coordinates)"""
    if c[0] == 'cmp' and len(c) == 3 and c[1] in ('==', '!='):
        return ('cmp', '!=' if c[1] == '==' else '==', c[2])
    if c[0] == 'not':
        return c[1]
    if c[0] == 'and':
        return ('or',) + tuple(_not_arg(x) for x in c[1:])
    if c[0] == 'or':
        return ('and',) + tuple(_not_arg(x) for x in c[1:])
    return ('not', c)


def _flat(conds):
    """conditions in App-argument form, conjunctions flattened, as a set of printable keys"""
    out = set()
    for c in conds:
        c = cond_arg(c) if (c and c[0] == 'cmp' and len(c) == 4) or (c and c[0] in ('and', 'or', 'not', 'truth') and any(
            isinstance(x, tuple) and x and x[0] == 'cmp' and len(x) == 4 for x in _walk_cond(c))) else c
        if c[0] == 'and':
            out |= _flat(c[1:])
        else:
            out.add(repr(c))
    return out


def _walk_cond(c):
    yield c
    if isinstance(c, tuple) and c and c[0] in ('and', 'or', 'not'):
        for x in c[1:]:
            if isinstance(x, tuple):
                yield from _walk_cond(x)


def _cell_of(r, arr, idx=None):
    """r is a read of arr (read / cell?) [at idx]; returns (index Rat, serial or None)"""
    a = _one(r)
    if a is None or a.name not in ('read', 'cell?') or a.args[0] != arr or len(a.args) < 2:
        return None
    if idx is not None and a.args[1] != idx:
        return None
    ser = a.args[2].const_value() if a.name == 'cell?' and len(a.args) > 2 else None
    return a.args[1], ser


def distance_records(f, k):
    """[(record of the metric dispatcher, x1, x2, y1, y2)] for every distance computation of the routine: the dispatcher is
    the inlined helper that is handed one of the routine's scalar parameters (the metric); which of its coordinate
    arguments are x (longitude) and which y (latitude) is read off the public metric function it reaches
    (great_circle_distance(x1, x2, y1, y2): public names)"""
    inl = getattr(k, 'inlined', [])
    out = []
    cur = None
    for r in inl:
        bound = dict(zip(r[0].params, r[1]))
        bound.update(r[2] or {})
        mp = [v for v in bound.values() if isinstance(v, tuple) and len(v) == 2 and v[0] == 'param' and v[1] in f.params]
        if mp and r[0].name not in ('great_circle_distance', 'euclidean_distance', 'manhattan_distance'):
            cur = [r, None, mp[0][1]]
            out.append(cur)
        elif cur is not None and r[0].name == 'great_circle_distance' and cur[1] is None and all(n_ in bound for n_ in ('x1', 'x2', 'y1', 'y2')):
            vals = [repr(v) for v in cur[0][1]] + [repr(v) for v in (cur[0][2] or {}).values()]
            if all(repr(bound[n_]) in vals for n_ in ('x1', 'x2', 'y1', 'y2')):
                cur[1] = (bound['x1'], bound['x2'], bound['y1'], bound['y2'])
    # wrappers around the dispatcher (handed the metric too, but not the coordinates themselves) are not distance computations
    return [(r, xy, metric) for r, xy, metric in out if xy is not None]


def pixel_of(k, L):
    """the position on the line handled by one iteration of the pixel loop, as the interpreter sees it: the index of the
    `proximity = 0` store of a target cell (the loop variable itself, or any expression of it)"""
    z = [st for st in k.stores if isinstance(st.value, Rat) and st.value == Rat.const(0) and len(st.guards) == 1 and
         not isinstance(st.idx, str) and len(st.idx) == 1 and st.loops and st.loops[0] is L]
    return z[0].idx[0] if len(z) == 1 else Rat.sym(L.var)


def sweep_order(L, PX, env):
    """the positions visited by the pixel loop, in order, under env (direction flag and width bound)"""
    lo, hi, stp = (evaluate(x, env) for x in (L.lo, L.hi, L.step))
    if stp == 0 or lo.denominator != 1 or hi.denominator != 1 or stp.denominator != 1:
        raise CannotEvaluate('loop range')
    out = []
    for kk in range(int(lo), int(hi), int(stp)):
        e2 = dict(env)
        e2[Sym(L.var)] = Fraction(kk)
        out.append(evaluate(PX, e2))
    return out


def line_roles(prog, f, k):
    """roles of the line routine's parameters, by what the routine does with them (names and order do not matter):
    (src, xs, ys, pnx, pny, fwd, lid, width, maxd, prox, nxs, nys, vals, metric)"""
    def fail(what):
        raise AnalysisIncomplete('proximity line routine: %s not identified by its use' % what)
    tops = []
    for st in k.stores:
        if st.loops and not any(st.loops[0] is t for t in tops):
            tops.append(st.loops[0])
    if len(tops) != 1:
        fail('the pixel loop')
    L = tops[0]
    px = pixel_of(k, L)
    P = set(f.params)

    def arr_reads(x):
        return {a.args[0] for a in walk_atoms(x) if isinstance(a, App) and a.name in ('read', 'cell?') and isinstance(a.args[0], str) and a.args[0] in P}

    def syms(x):
        return {a.name for a in walk_atoms(x) if isinstance(a, Sym) and a.name in P}
    # direction flag and width: the loop range
    rs = set()
    for x in (L.lo, L.hi, L.step, px):
        rs |= syms(x)
    fwd = width = None
    for a_ in sorted(rs):
        for b_ in sorted(rs):
            if a_ != b_:
                try:
                    seqs = [sweep_order(L, px, {Sym(a_): Fraction(v), Sym(b_): Fraction(7)}) for v in (1, 0)]
                except (CannotEvaluate, TypeError, ValueError):
                    continue
                # the flag is the parameter whose two values flip the direction of a sweep over `width` pixels
                if len(seqs[0]) == 7 and seqs[0] != seqs[1] and (fwd is None or seqs == [list(range(7)), list(range(6, -1, -1))]):
                    fwd, width = a_, b_
    if fwd is None:
        fail('the direction flag / width of the pixel loop')
    # the target branch: proximity 0, (pixel, line) into two pairs of arrays
    zero = [st for st in k.stores if st.arr.name in P and isinstance(st.value, Rat) and st.value == Rat.const(0) and len(st.guards) == 1 and tuple(st.idx) == (px,)]
    if len(zero) != 1:
        fail('the result array (one store of 0 for a target cell)')
    prox = zero[0].arr.name
    gk = cond_key(zero[0].guards[0])
    tgt = [st for st in k.stores if len(st.guards) == 1 and cond_key(st.guards[0]) == gk and tuple(st.idx) == (px,) and st is not zero[0]]
    colA = sorted({st.arr.name for st in tgt if isinstance(st.value, Rat) and st.value == px})
    rowB = {}
    for st in tgt:
        if isinstance(st.value, Rat) and st.value != px and len(syms(st.value)) == 1 and st.value == Rat.sym(next(iter(syms(st.value)))):
            rowB.setdefault(next(iter(syms(st.value))), []).append(st.arr.name)
    if len(colA) != 2 or len(rowB) != 1 or len(next(iter(rowB.values()))) != 2:
        fail('the (column, row) pairs stored for a target cell')
    lid = next(iter(rowB))
    rowB = sorted(rowB[lid])
    read_anywhere = set()
    for st in k.stores:
        read_anywhere |= arr_reads(st.value) if isinstance(st.value, Rat) else set()
        for g in st.guards:
            for a in guard_atoms([g]):
                read_anywhere |= arr_reads(Rat.atom(a)) if isinstance(a, App) else set()
        for ix in (st.idx if not isinstance(st.idx, str) else ()):
            read_anywhere |= arr_reads(ix) if isinstance(ix, Rat) else set()
    for r in getattr(k, 'inlined', []):
        for v in list(r[1]) + list((r[2] or {}).values()):
            if isinstance(v, Rat):
                read_anywhere |= arr_reads(v)

    def split(pair, what):
        rd = [a for a in pair if a in read_anywhere]
        if len(rd) != 1:
            fail(what)
        return rd[0], [a for a in pair if a != rd[0]][0]
    pnx, nxs = split(colA, 'the column memory (read) vs the nearest-column result (only written)')
    pny, nys = split(rowB, 'the row memory (read) vs the nearest-row result (only written)')
    # coordinate grids and the metric: the distance computations
    drecs = distance_records(f, k)
    if not drecs or len({mt for r, xy, mt in drecs}) != 1:
        fail('the distance computations (metric dispatcher reaching great_circle_distance)')
    metric = drecs[0][2]
    xsn, ysn = set(), set()
    for r, (x1, x2, y1, y2), mt in drecs:
        for v, acc in ((x1, xsn), (x2, xsn), (y1, ysn), (y2, ysn)):
            a = _one(v)
            if a is None or a.name not in ('read', 'cell?') or a.args[0] not in P:
                fail('the coordinate grids (arguments of the distance are not grid reads)')
            acc.add(a.args[0])
    if len(xsn) != 1 or len(ysn) != 1 or xsn == ysn:
        fail('the coordinate grids (x and y arguments of the distance read %s / %s)' % (sorted(xsn), sorted(ysn)))
    xs, ys = next(iter(xsn)), next(iter(ysn))
    # the target test: the line buffer at the pixel against the target values
    gat = guard_atoms(zero[0].guards)
    known = {prox, pnx, nxs, pny, nys, xs, ys}
    in_test = set()
    for a in gat:
        if isinstance(a, App):
            in_test |= {x for x in arr_reads(Rat.atom(a))}
            in_test |= {x.args[0].name if isinstance(x.args[0], Sym) else None for x in walk_atoms(Rat.atom(a)) if isinstance(x, App) and x.name == 'len' and x.args} - {None}
            in_test |= {x.args[0] for x in walk_atoms(Rat.atom(a)) if isinstance(x, App) and x.name in ('elem', 'shape', 'len') and x.args and isinstance(x.args[0], str) and x.args[0] in P}
    in_test -= known
    at_px = {a.args[0] for g in gat for a in ([g] if isinstance(g, App) else []) for a in walk_atoms(Rat.atom(a))
             if isinstance(a, App) and a.name in ('read', 'cell?') and len(a.args) >= 2 and a.args[1] == px and a.args[0] in in_test}
    if len(at_px) != 1 or len(in_test - at_px) > 1:
        fail('the line buffer / target values of the target test (%s)' % sorted(in_test))
    src = next(iter(at_px))
    rest = [p_ for p_ in f.params if p_ not in known | {src, fwd, width, lid, metric}]
    vals = next(iter(in_test - at_px)) if in_test - at_px else None
    if vals is None:
        # the values are not read in the test as the interpreter sees it (a helper, a lookup): the remaining array parameter
        arrs = [p_ for p_ in rest if any(isinstance(n, ast.Subscript) and isinstance(n.value, ast.Name) and n.value.id == p_ for n in f.own_nodes())
                or any(isinstance(n, ast.Call) and norm(n.func) == 'len' and n.args and norm(n.args[0]) == p_ for n in f.own_nodes())
                or any(isinstance(n, ast.For) and norm(n.iter) == p_ for n in f.own_nodes())]
        if len(arrs) != 1:
            fail('the target values')
        vals = arrs[0]
    rest = [p_ for p_ in rest if p_ != vals]
    if len(rest) != 1:
        fail('max_distance (remaining scalar parameters %s)' % rest)
    maxd = rest[0]
    return (src, xs, ys, pnx, pny, fwd, lid, width, maxd, prox, nxs, nys, vals, metric)


def check_line(prog, rep, f):
    """the line routine, on its interpretation: target test (X6), what enters the per-column memory (X1), the three
    candidates and the coupling between the running squared distance and the adopted pair (X2), the update (X5)"""
    entry = 'proximity line routine'
    k = interpret(prog, f, strict=False)
    (src, xs, ys, pnx, pny, fwd, lid, width, maxd, prox, nxs, nys, vals, metric) = line_roles(prog, f, k)
    tops = []
    for st in k.stores:
        if st.loops and not any(st.loops[0] is t for t in tops):
            tops.append(st.loops[0])
    if len(tops) != 1 or any(not st.loops for st in k.stores):
        rep.add('X2', f, entry, 'pixel loop', f.node.lineno, None, 'single pixel loop not found')
        return
    L = tops[0]
    px = pixel_of(k, L)
    line_id = Rat.sym(lid)
    FW, Wd = Sym(fwd), Sym(width)
    try:
        rng = [[int(x) for x in sweep_order(L, px, {FW: Fraction(v), Wd: Fraction(7)})] for v in (1, 0)]
        okr = rng == [list(range(7)), list(range(6, -1, -1))]
    except (CannotEvaluate, TypeError, ValueError):
        okr, rng = None, '?'
    rep.add('X3', f, entry, 'pixel loop: forward %s, backward %s on a line of 7' % (rng[0] if okr is not None else '?', rng[1] if okr is not None else '?'),
            L.node.lineno, okr, 'a line is swept over all its pixels in the requested direction: forward 0, 1, .. width-1, backward '
            'width-1, .. 1, 0')
    # ---- target / non-target split
    zero = [st for st in k.stores if st.arr.name == prox and isinstance(st.value, Rat) and st.value == Rat.const(0) and len(st.guards) >= 1]
    if len(zero) != 1:
        rep.add('X1', f, entry, 'target cell', L.node.lineno, None if not zero else False, 'expected one `proximity = 0` store, found %d' % len(zero))
        return
    Gt = zero[0].guards
    if len(Gt) != 1:
        rep.add('X1', f, entry, 'target cell', L.node.lineno, None, 'target branch condition is not a single condition')
        return
    gt = Gt[0]
    tkey, nkey = cond_key(gt), cond_key(neg_cond(gt))
    tgt = [st for st in k.stores if st.guards and cond_key(st.guards[0]) == tkey]
    rest = [st for st in k.stores if st not in tgt]
    cont = all(st.guards and cond_key(st.guards[0]) == nkey for st in rest)
    want = {(prox, repr(Rat.const(0))), (nxs, repr(px)), (nys, repr(line_id)), (pnx, repr(px)), (pny, repr(line_id))}
    got = {(st.arr.name, repr(st.value)) for st in tgt if tuple(st.idx) == (px,) and len(st.guards) == 1}
    rep.add('X1', f, entry, 'target cell: proximity 0, nearest = memory = (pixel, line)', zero[0].node.lineno,
            got == want and len(tgt) == 5 and cont,
            'a target cell has distance 0, names itself, and is remembered as (column = pixel, row = line) - rows with rows, '
            'columns with columns - and nothing else happens to it (stores %s, rest of the body skipped: %s)' % (sorted(got), cont))
    check_target_test(prog, rep, f, entry, k, L, gt, src, vals, px)
    # ---- candidates: the distance computations
    drecs = distance_records(f, k)
    recs = [r for r, xy, mt in drecs]
    step = L.step
    cands = {}
    for r, (x1, x2, y1, y2), mt in drecs:
        cur_x, cur_y = Rat.atom(App('read', [xs, line_id, px])), Rat.atom(App('read', [ys, line_id, px]))
        K = None
        okc = False
        for mx, cx in ((x1, x2), (x2, x1)):
            for my, cy in ((y1, y2), (y2, y1)):
                if cx == cur_x and cy == cur_y:
                    ax, ay = _one(mx), _one(my)
                    if ax is not None and ay is not None and ax.name in ('read', 'cell?') and ay.name in ('read', 'cell?') and \
                            ax.args[0] == xs and ay.args[0] == ys and len(ax.args) >= 3 and len(ay.args) >= 3:
                        rx, cxx = _cell_of(ax.args[1], pny), _cell_of(ax.args[2], pnx)
                        ry, cyy = _cell_of(ay.args[1], pny), _cell_of(ay.args[2], pnx)
                        if rx and cxx and ry and cyy and rx[0] == cxx[0] == ry[0] == cyy[0]:
                            K = rx[0]
                            okc = True
        key = repr(K - px) if K is not None else 'line %d' % r[4].lineno
        cands[key] = (K, r[3], okc, r[4])
        rep.add('X2', f, entry, 'candidate k = pixel%s: distance from the pair remembered at k to the current cell' % (
            '' if K is not None and K == px else ' + (%s)' % (show(K - px, 40) if K is not None else '?')), r[4].lineno, okc,
            'the distance must be computed from the coordinates of the pair remembered at k (row index from the row memory, '
            'column index from the column memory, x from the x grid, y from the y grid) to the current cell')
    ks = [c[0] for c in cands.values() if c[0] is not None]
    # evaluated in the interior of a line, both directions: the slots are the pixel itself, the one visited just before and
    # the one visited next
    okset = len(recs) == 3 and len(ks) == 3
    if okset:
        try:
            for fw in (1, 0):
                env0 = {FW: Fraction(fw), Wd: Fraction(7)}
                order = sweep_order(L, px, env0)
                lo_, stp_ = evaluate(L.lo, env0), evaluate(L.step, env0)
                for n_ in (2, 3, 4):
                    env = dict(env0)
                    env[Sym(L.var)] = lo_ + stp_ * n_
                    if {evaluate(x, env) for x in ks} != {order[n_ - 1], order[n_], order[n_ + 1]}:
                        okset = False
        except (CannotEvaluate, TypeError, ValueError, IndexError):
            okset = None
    rep.add('X2', f, entry, 'candidate set %s' % sorted(show(x - px, 40) for x in ks), L.node.lineno, okset,
            'the candidates are the targets remembered at the same column (line above/below), the previous pixel and the '
            'diagonal next pixel - exactly {pixel, pixel-step, pixel+step}')
    # ---- memory stores outside the target branch: paired halves only
    mem = [st for st in rest if st.arr.name in (pnx, pny)]
    groups = {}
    for st in mem:
        groups.setdefault(tuple(cond_key(g) for g in st.guards), []).append(st)
    adopt = {}
    okpair = True
    whyp = ''
    for gk, sts in groups.items():
        vx = [st for st in sts if st.arr.name == pnx]
        vy = [st for st in sts if st.arr.name == pny]
        if len(vx) != 1 or len(vy) != 1 or tuple(vx[0].idx) != (px,) or tuple(vy[0].idx) != (px,):
            okpair, whyp = False, 'unpaired store %s' % norm(sts[0].node)
            continue
        a, b = vx[0].value, vy[0].value
        if a == Rat.const(-1) and b == Rat.const(-1):
            adopt.setdefault('invalidate', []).append(vx[0])
            continue
        ca, cb = _cell_of(a, pnx), _cell_of(b, pny)
        if ca and cb and ca[0] == cb[0]:
            adopt[repr(ca[0])] = vx[0]
        else:
            okpair, whyp = False, 'the two halves come from different places: %s / %s' % (show(a, 60), show(b, 60))
    rep.add('X1', f, entry, 'memory updates are whole pairs: (-1, -1) or the pair remembered at one k (%d updates)' % len(groups),
            L.node.lineno, okpair, 'only the (column, row) of a target or a pair already remembered may enter the per-column memory, '
            'both halves from the same place; ' + whyp)
    # ---- the running squared distance mirrors the adoptions
    ups = [st for st in rest if st.arr.name == prox]
    if len(ups) != 1 or _one(ups[0].value) is None or _one(ups[0].value).name != 'sqrt':
        rep.add('X5', f, entry, 'proximity update', L.node.lineno, None if len(ups) != 1 else False,
                'expected one store proximity[pixel] = sqrt(running squared distance), found %d' % len(ups))
        return
    up = ups[0]
    NDS = _one(up.value).args[0]
    levels = []
    N = NDS
    while True:
        at = _one(N)
        if at is None or at.name != 'ite':
            break
        cnds, val, prev = [at.args[0]], at.args[1], at.args[2]
        # `if not better: keep else: take` is the same level written the other way round: the candidate's squared distance is
        # the branch that is one of the computed distances
        d2 = [c_[1] * c_[1] for c_ in cands.values() if isinstance(c_[1], Rat)]
        if not any(val == x for x in d2) and any(prev == x for x in d2):
            cnds, val, prev = [_not_arg(at.args[0])], at.args[2], at.args[1]
        inner = _one(val)
        if inner is not None and inner.name == 'ite' and inner.args[2] == prev:
            cnds.append(inner.args[0])
            val = inner.args[1]
        elif inner is not None and inner.name == 'ite' and inner.args[1] == prev:
            cnds.append(_not_arg(inner.args[0]))        # the inner test written the other way round
            val = inner.args[2]
        levels.append((cnds, val, prev))
        N = prev
    base = N
    okl = len(levels) == 3
    why = '%d levels' % len(levels)
    used = []
    if okl:
        for cnds, val, prev in levels:
            kk = [key for key, (K, D, okc, node) in cands.items() if K is not None and val == D * D]
            if len(kk) != 1:
                okl, why = False, 'a level of the running minimum is not one candidate\'s squared distance: %s' % show(val, 80)
                break
            K = cands[kk[0]][0]
            used.append(repr(K))
            fl = _flat(cnds)
            cmpk = [x for c in cnds for x in ([c] if c[0] != 'and' else c[1:]) if x[0] == 'cmp' and x[1] in ('<', '<=') and _pos_multiple(x[2], val - prev)]
            negk = [x for c in cnds for x in ([c] if c[0] != 'and' else c[1:]) if x[0] == 'not' and x[1][0] == 'cmp' and x[1][1] in ('<', '<=') and
                    (_pos_multiple(x[1][2], val - prev) or _pos_multiple(x[1][2], prev - val))]
            if not cmpk and negk:
                okl, why = False, ('candidate pixel+(%s) replaces the running minimum unless it is NOT smaller (`if d >= best: forget else: take`): '
                                   'a NaN distance - a remembered pair with NaN coordinates, as in the halo of an integer dask raster - fails '
                                   'that test and is adopted; the documented test is `d < best`' % show(K - px, 30))
                break
            if not cmpk:
                okl, why = False, 'candidate pixel+(%s) is not compared with the running minimum it replaces' % show(K - px, 30)
                break
            if K != px:
                st = adopt.get(repr(K))
                if st is None or _flat(st.guards[1:]) != fl:
                    okl = False
                    why = 'the pair remembered at pixel+(%s) is adopted under %s but its distance is taken under %s' % (
                        show(K - px, 30), sorted(_flat(st.guards[1:]))[:3] if st is not None else 'no condition (never)', sorted(fl)[:3])
                    break
        if okl and sorted(used) != sorted(repr(x) for x in ks):
            okl, why = False, 'levels %s' % used
        if okl and (walk_atoms(base) & {a for c in cands.values() for a in walk_atoms(c[1])}):
            okl, why = False, 'initial running minimum depends on a candidate'
    rep.add('X2', f, entry, 'running squared distance = distance of the adopted pair (3 levels over %s)' % show(base, 60), up.node.lineno, okl,
            'whenever a candidate\'s squared distance becomes the running minimum that SAME pair must be adopted into the memory '
            '(both halves), under the same condition, and vice versa; ' + why)
    # validity / edge conditions of the candidates
    if okl:
        bad = []
        try:
            for cnds, val, prev in levels:
                K = cands[[key for key, c in cands.items() if c[0] is not None and val == c[1] * c[1]][0]][0]
                side = [c for c in (x for cc in cnds for x in (cc[1:] if cc[0] == 'and' else [cc])) if not (c[0] == 'cmp' and _pos_multiple(c[2], val - prev))]
                cells = [a for a in guard_atoms(side) if isinstance(a, App) and a.name in ('read', 'cell?') and a.args[0] == pnx]
                for fw in (1, 0):
                    for p in (0, 3, 6):
                        for valid in (-1, 2):
                            env = {FW: Fraction(fw), Wd: Fraction(7)}
                            order = sweep_order(L, px, env)
                            env[Sym(L.var)] = evaluate(L.lo, env) + evaluate(L.step, env) * order.index(Fraction(p))
                            for a in cells:
                                env[a] = Fraction(valid)
                            kv = evaluate(K, env)
                            want = valid != -1 and 0 <= kv <= 6
                            gotv = all(eval_cond_full(c, env) for c in side)
                            if gotv != want:
                                bad.append((fw, p, valid))
        except CannotEvaluate as e:
            bad = None
            why = str(e)
        rep.add('X2', f, entry, 'a candidate is used only when its memory slot is valid and lies on the line', L.node.lineno,
                None if bad is None else not bad, 'a slot holding -1 names no target, and slot pixel-step / pixel+step does not exist at the '
                'first / last pixel of the sweep (forward, pixel, slot value) wrong for %s' % (bad if bad is not None else why))
    # ---- X5 update
    lastmem = max([st.seq for st in mem] + [0])
    upk = tuple(cond_key(g) for g in up.guards)
    ug = [st for st in rest if tuple(cond_key(g) for g in st.guards) == upk]
    vx = [st for st in ug if st.arr.name == nxs]
    vy = [st for st in ug if st.arr.name == nys]
    oku = len(vx) == 1 and len(vy) == 1 and len(ug) == 3
    whyu = '%d stores in the update' % len(ug)
    if oku:
        cx, cy = _cell_of(vx[0].value, pnx, px), _cell_of(vy[0].value, pny, px)
        oku = bool(cx and cy and (cx[1] or 0) > lastmem and (cy[1] or 0) > lastmem)
        whyu = 'nearest pair must be read from the memory at the pixel after the adoptions'
    if oku:
        fl = [c for g in up.guards[1:] for c in (g[1:] if g[0] == 'and' else [g])]
        valid = [c for c in fl if c[0] == 'cmp' and c[1] == '!=' and _cell_of(c[3] - Rat.const(1), pnx, px) and
                 (_cell_of(c[3] - Rat.const(1), pnx, px)[1] or 0) > lastmem]
        M = Rat.sym(maxd)
        within = [c for c in fl if c[0] == 'cmp' and c[1] in ('<=', '<') and _pos_multiple(c[3], NDS - M * M)]
        oku = bool(valid) and bool(within)
        whyu = 'valid slot test %d, within-max-distance test %d' % (len(valid), len(within))
    rep.add('X5', f, entry, 'proximity update: sqrt(running minimum) with the remembered pair, if valid and within max_distance',
            up.node.lineno, oku, 'the stored distance is sqrt of the adopted squared distance, stored only if a pair is remembered and it is '
            'within max_distance - together with that pair as the nearest target (paired update); ' + whyu)
    others = [st for st in rest if st.arr.name in (prox, nxs, nys) and st not in ug]
    rep.add('X5', f, entry, 'no other store into the result arrays (%d)' % len(others), L.node.lineno, not others,
            'distance and nearest pair change only in the target branch and in the update' + (': ' + norm(others[0].node) if others else ''))


def check_target_test(prog, rep, f, entry, k, L, gt, src, vals, px):
    """X6: default targets are the non-zero finite cells; with explicit values a cell is a target iff it equals one"""
    v = App('read', [src, px])
    atoms = guard_atoms([gt])
    # the test as one call of a boolean helper `is_target(cell value, values)`: the helper is pure Python over numbers (length,
    # comparisons, a finiteness test, a loop with early returns), so it is folded (consteval) on the cases of the table below
    hc = [a for a in atoms if isinstance(a, App) and a.name.startswith('call:') and len(a.args) == 2 and a.args[0] == Rat.atom(v)]
    if gt[0] == 'truth' and len(atoms) >= 1 and len(hc) == 1 and _one(gt[1]) is hc[0]:
        from ..consteval import CannotFold, fold_call
        h = f.module.funcs.get(hc[0].name[len('call:'):])
        if h is not None and len(h.params) == 2:
            INF, NAN = float('inf'), float('nan')
            near = Fraction(5) + Fraction(1, 10 ** 40)
            cases = [('no values, zero cell', 0, [], False), ('no values, finite non-zero', 5, [], True), ('no values, negative', -2, [], True),
                     ('no values, +inf', INF, [], False), ('no values, NaN', NAN, [], False),
                     ('values given, cell equals the first', 5, [5, 7], True), ('values given, cell equals the last', 7, [5, 6, 7], True),
                     ('values given, equals none', 6, [5, 7], False), ('values given, zero cell equal to a value', 0, [3, 0], True),
                     ('values given, zero cell, no zero among them', 0, [3], False),
                     ('values given, a value next to the cell (closer than any tolerance)', 5, [near], False)]
            bad = []
            try:
                for title, cellv, lst, want in cases:
                    got = fold_call(prog, h, args=(cellv, list(lst)))
                    if bool(got) != want:
                        bad.append((title, got))
                rep.add('X6', f, entry, 'target test: %s(cell, values) on %d cases' % (h.name, len(cases)), L.node.lineno, not bad,
                        'default targets are the non-zero finite cells; with explicit target values a cell is a target iff it equals one '
                        'of them: wrong for %s' % bad)
                return
            except CannotFold:
                pass
    # the number of target values: len(values) or values.shape[0]
    n_at = [a for a in atoms if isinstance(a, App) and (a.name == 'len' or (a.name == 'shape' and len(a.args) == 2 and a.args[0] == vals and a.args[1] in (0, Rat.const(0))))]
    fin = [a for a in atoms if isinstance(a, App) and a.name == 'isfinite' and a.args[0] == Rat.atom(v)]
    flags = [a for a in atoms if isinstance(a, App) and a.name == 'loopout']
    elems = [a for a in atoms if isinstance(a, App) and a.name in ('read', 'elem') and (a.args[0] == vals or a.args[0] == Rat.sym(vals))]
    ok = None
    why = ''
    stale = [a for a in atoms if isinstance(a, Sym) and '~loop' in a.name]
    if stale:
        rep.add('X6', f, entry, 'target test', L.node.lineno, False, 'the target flag is carried over from the previous pixel (%s): it must '
                'be reset for every pixel, otherwise every cell after the first target counts as a target' % stale[0].name)
        return
    positional = [a for a in elems if len(a.args) == 2 and isinstance(a.args[1], Rat) and
                  any(isinstance(x, App) and (x.name.startswith('ext:') or x.name in ('opaque', 'method:searchsorted')) or
                      'searchsorted' in repr(x) or 'bisect' in repr(x) for x in walk_atoms(a.args[1]))]
    if positional and not flags:
        rep.add('X6', f, entry, 'target test', L.node.lineno, False, 'with explicit target values a cell is a target iff it equals '
                'one of them, whatever their order: the test looks at one position found by a sorted-order lookup (%s), which is '
                'right for ascending lists only' % show(Rat.atom(positional[0]), 80))
        return
    tolerant = [x for lp in k.loops for nm_, (ph_, po_) in getattr(lp, 'carried', {}).items() if isinstance(po_, Rat)
                for x in walk_atoms(po_) if isinstance(x, App) and x.name.split('.')[-1] in ('isclose', 'allclose')]
    tolerant += [a for a in atoms if isinstance(a, App) and a.name.split('.')[-1] in ('isclose', 'allclose')]
    if tolerant:
        rep.add('X6', f, entry, 'target test', L.node.lineno, False, 'with explicit target values a cell is a target iff it EQUALS one of '
                'them: %s accepts every value within a tolerance' % show(Rat.atom(tolerant[0]), 80))
        return
    try:
        if len(n_at) != 1 or len(fin) > 1 or len(flags) > 1:
            raise CannotEvaluate('quantities: len %d isfinite %d flags %d' % (len(n_at), len(fin), len(flags)))
        # a membership helper read in place (`for i in range(len(values)): if cell == values[i]: return True` ... `return False`):
        # the element read under the helper's own loop variable stands for "some element"; the loop must run over all of them
        probe = None
        if not flags and len(elems) == 1 and len(elems[0].args) == 2 and isinstance(elems[0].args[1], Rat):
            iv = _one_sym(elems[0].args[1])
            loops_ = list(k.loops) + [lp for r_ in getattr(k, 'inlined', []) if len(r_) > 5 for lp in getattr(r_[5], 'loops', [])]
            Li = next((lp for lp in loops_ if iv is not None and lp.var == iv.name), None)
            if Li is not None and Li.kind in ('range', 'prange') and Li.lo == Rat.const(0) and Li.hi == Rat.atom(n_at[0]) and Li.step == Rat.const(1):
                probe = elems[0]
            elif Li is not None:
                raise CannotEvaluate('the values are not all looked at: loop %r' % (Li,))
        res = []
        if probe is not None:
            near = Fraction(5) + Fraction(1, 10 ** 40)
            for title, n, vv, fn, ev, want in (('no values, zero cell', 0, 0, 1, 0, False), ('no values, finite non-zero', 0, 5, 1, 9, True),
                                               ('no values, non-finite', 0, 5, 0, 5, False), ('no values, negative', 0, -2, 1, 9, True),
                                               ('values given, cell equals the element', 2, 5, 1, 5, True), ('values given, differs', 2, 5, 1, 7, False),
                                               ('values given, zero cell equal to the element', 2, 0, 1, 0, True),
                                               ('values given, non-finite cell equal to the element', 2, 5, 0, 5, True),
                                               ('values given, element next to the cell (closer than any tolerance)', 2, 5, 1, near, False)):
                env = {n_at[0]: Fraction(n), v: Fraction(vv), probe: Fraction(ev)}
                for a in fin:
                    env[a] = Fraction(fn)
                res.append((title, eval_cond_full(gt, env), want))
        for title, n, vv, fn, flag, want in () if probe is not None else (('no values, zero cell', 0, 0, 1, 0, False), ('no values, finite non-zero', 0, 5, 1, 0, True),
                                             ('no values, non-finite', 0, 5, 0, 0, False), ('no values, negative', 0, -2, 1, 0, True),
                                             ('values given, cell equals one', 2, 5, 1, 1, True), ('values given, equals none', 2, 5, 1, 0, False),
                                             ('values given, zero cell equal to a value', 2, 0, 1, 1, True)):
            env = {n_at[0]: Fraction(n), v: Fraction(vv)}
            for a in fin:
                env[a] = Fraction(fn)
            for a in flags:
                env[a] = Fraction(flag)
            res.append((title, eval_cond_full(gt, env), want))
        bad = [(t, g) for t, g, w in res if g != w]
        ok = not bad
        why = 'wrong for %s' % bad
        if flags:
            fl = flags[0]
            Lv = next((lp for lp in k.loops if Rat.sym(lp.var) == fl.args[1]), None)
            name = next(iter(fl.args[0].atoms())).name
            if Lv is None or name not in getattr(Lv, 'carried', {}) or Lv.pre.get(name) != ('const', False):
                ok = False if Lv is not None and Lv.pre.get(name) != ('const', False) else None
                why = 'the flag must start False for every pixel and be updated in a loop over the values'
            else:
                phi, post = Lv.carried[name]
                P = next(iter(phi.atoms()))
                def of_vals(a):
                    return isinstance(a, App) and a.name in ('read', 'elem') and (a.args[0] == vals or a.args[0] == Rat.sym(vals))
                e = [a for a in walk_atoms(post) if of_vals(a)]
                # one iteration of the values loop, evaluated: the flag after it is the value set on a path that leaves the
                # loop (`flag = True; break`) if such a path is taken, else the end-of-iteration value
                brk = [(g_, envb.get(name)) for g_, envb, nb in getattr(Lv, 'breaks', []) if envb.get(name) is not None]
                for g_, bv in brk:
                    e = e or [a for a in guard_atoms(g_) if of_vals(a)]
                # every value is looked at: an index loop over 0..len(values), or the values iterated directly
                full = len(e) >= 1 and len(e[0].args) == 2 and e[0].args[1] == Rat.sym(Lv.var) and (
                    (Lv.kind in ('range', 'prange') and Lv.lo == Rat.const(0) and Lv.hi == Rat.atom(n_at[0]) and Lv.step == Rat.const(1)) or
                    (Lv.kind == 'iter' and e[0].name == 'elem' and (getattr(Lv, 'iterable', None) == ('param', vals) or
                                                                    getattr(getattr(Lv, 'iterable', None), 'name', None) == vals)))
                tab = []
                for prev in (0, 1):
                    # (5, 5 + 10^-40): a value next to the cell but not equal to it - closer than any tolerance
                    for vv, ev in ((5, 5), (5, 7), (0, 0), (5, Fraction(5) + Fraction(1, 10 ** 40))):
                        r = None
                        if e:
                            env_ = {P: Fraction(prev), v: Fraction(vv), e[0]: Fraction(ev)}
                            taken = [bv for g_, bv in brk if all(eval_cond_full(x_, env_) for x_ in g_)]
                            if taken:
                                bv = taken[0]
                                r = (1 if bv[1] else 0) if isinstance(bv, tuple) and bv and bv[0] == 'const' else \
                                    (evaluate(bv, env_) if isinstance(bv, Rat) else None)
                            else:
                                r = evaluate(post, env_)
                        tab.append((prev, vv, ev, r, 1 if (prev or vv == ev) else 0))
                badf = [t for t in tab if t[3] != t[4]]
                if badf or not full:
                    ok = False
                    why = 'flag update wrong for (previous, cell, value): %s; loop over all values: %s' % (badf, full)
    except CannotEvaluate as ex:
        ok, why = None, str(ex)
    rep.add('X6', f, entry, 'target test', L.node.lineno, ok,
            'default targets are the non-zero finite cells; with explicit target values a cell is a target iff it equals one of '
            'them; the flag is reset for every pixel; ' + why)


def check_driver(prog, rep, kern, line, cs):
    """the four-sweep driver, on the program-ordered events (allocations, stores, calls) of its interpretation"""
    entry = 'proximity four-sweep driver'
    # other jitted closures of the implementation are pieces of the driver: executed in place
    k = interpret(prog, kern, strict=False, inline_all=lambda g: g.jit is not None and g.parent is kern.parent and g is not kern)
    ev = k.events
    calls_ = [(i, e[1]) for i, e in enumerate(ev) if e[0] == 'call' and len(e[1]) > 6 and e[1][6] is line]
    img = kern.params[0]
    H, W = Rat.atom(App('shape', [img, 0])), Rat.atom(App('shape', [img, 1]))

    def rng(L):
        return (L.lo, L.hi, L.step) if L.kind in ('range', 'prange') else None
    rows = []
    for i, c in calls_:
        if len(c[4]) != 1:
            rows.append(None)
        else:
            rows.append(c[4][0])
    P = line.params
    pos = {p: i for i, p in enumerate(P)}
    roles = line_roles(prog, line, interpret(prog, line, strict=False))
    (src, xs, ys, pnx, pny, fwd, lid, width, maxd, prox, nxs, nys, vals, metric) = roles

    def arg(c, p):
        kws = c[5] if len(c) > 5 and isinstance(c[5], dict) else {}
        if p in kws:
            return kws[p]
        return c[1][pos[p]] if pos[p] < len(c[1]) else None
    fws = [arg(c, fwd) for i, c in calls_]
    # the row each sweep works on (its line id argument) and the order in which a pass visits the rows, evaluated on 5 rows
    rowline = [arg(c, lid) for i, c in calls_]
    dirs = []
    for L, rl in zip(rows, rowline):
        if L is None or rng(L) is None or not isinstance(rl, Rat):
            dirs.append('?')
            continue
        try:
            seq = [int(x) for x in sweep_order(L, rl, {next(iter(H.atoms())): Fraction(5)})]
        except (CannotEvaluate, TypeError, ValueError):
            dirs.append(repr(L))
            continue
        dirs.append('asc' if seq == [0, 1, 2, 3, 4] else 'desc' if seq == [4, 3, 2, 1, 0] else repr(seq))
    passes = []
    for L in rows:
        if L is not None and not any(L is p for p in passes):
            passes.append(L)
    sweeps = [(d, sorted(repr(fw) for fw, r in zip(fws, rows) if r is p)) for p, d in
              ((p, dirs[[i for i, r in enumerate(rows) if r is p][0]]) for p in passes)]
    want = [('asc', sorted([repr(('const', False)), repr(('const', True))])), ('desc', sorted([repr(('const', False)), repr(('const', True))]))]
    oks = len(calls_) == 4 and sweeps == want
    rep.add('X3', kern, entry, 'sweeps %s' % [(d, [x[-6:-1].strip(' ,') for x in f_]) for d, f_ in sweeps], kern.node.lineno, oks,
            'one pass over ascending rows and one over descending rows, each sweeping every line forward and backward')
    if not oks:
        return

    def same(a, b):
        if isinstance(a, Arr) or isinstance(b, Arr):
            return a is b or (isinstance(a, Arr) and isinstance(b, tuple) and b[:1] == ('param',) and b[1] == a.name) or \
                (isinstance(b, Arr) and isinstance(a, tuple) and a[:1] == ('param',) and a[1] == b.name)
        return repr(a) == repr(b)
    c0 = calls_[0][1]
    shared = all(same(arg(c, p), arg(c0, p)) for i, c in calls_ for p in roles if p not in (fwd, lid))
    lines_ok = all(isinstance(rl, Rat) and all(rl == rl2 for rl2, r2 in zip(rowline, rows) if r2 is r) for rl, r in zip(rowline, rows)) and \
        all(arg(c, width) == W for i, c in calls_)
    rep.add('X3', kern, entry, 'the four calls pass the same arrays, the row being swept and the raster width', kern.node.lineno,
            shared and lines_ok, 'all four sweeps must work on the same line buffer, coordinate grids, memories and result arrays, '
            'with line_id = the row loop variable and width = number of columns')
    if not shared:
        return
    A = {p: arg(c0, p) for p in (src, pnx, pny, prox, nxs, nys)}
    if not all(isinstance(a, Arr) for a in A.values()):
        rep.add('X3', kern, entry, 'work arrays', kern.node.lineno, None, 'work arrays are not local allocations')
        return
    xg, yg = arg(c0, xs), arg(c0, ys)
    okgrid = _param_name(xg) == kern.params[1] and _param_name(yg) == kern.params[2]
    rep.add('X3', kern, entry, 'coordinate grids: x grid = %s, y grid = %s' % (_param_name(xg), _param_name(yg)), kern.node.lineno, okgrid,
            'the x grid must be passed as xs and the y grid as ys')

    def touches(e, arr):
        if e[0] == 'alloc':
            return e[1] is arr
        if e[0] == 'store':
            return e[1].arr is arr
        if e[0] == 'call':
            return any(a is arr for a in e[1][1])
        return False

    def state_before(i, arr, ctx):
        """how arr was last written before event i: ('fill', value) / ('each', value, loop var) / ('call',) / ('partial',) /
        None; ctx = the loops enclosing the point of use"""
        for j in range(i - 1, -1, -1):
            e = ev[j]
            if not touches(e, arr):
                continue
            if e[0] == 'alloc':
                init = arr.init
                if init == 'zeros':
                    return ('fill', Rat.const(0), j)
                if init == 'ones':
                    return ('fill', Rat.const(1), j)
                if init == 'nan':
                    return ('fill', Rat.atom(App('nan', [])), j)
                if isinstance(init, tuple) and init[0] == 'full':
                    return ('fill', init[1], j)
                return ('alloc', None, j)
            if e[0] == 'call':
                return ('call', e[1], j)
            st = e[1]
            if st.guards:
                return ('partial', st, j)
            outer = list(st.loops)
            if st.idx == 'all' or (not isinstance(st.idx, str) and all(isinstance(x, tuple) and x[0] == 'slice' and x[1] is None and x[2] is None for x in st.idx)):
                if all(any(o is c for c in ctx) for o in outer):
                    return ('fill', st.value, j)
                return ('partial', st, j)
            if len(st.idx) == 1 and outer and rng(outer[-1]) == (Rat.const(0), W, Rat.const(1)) and st.idx[0] == Rat.sym(outer[-1].var) \
                    and all(any(o is c for c in ctx) for o in outer[:-1]):
                return ('each', st.value, j, outer[-1])
            return ('partial', st, j)
        return None

    def is_all(state, value):
        return state is not None and state[0] in ('fill', 'each') and isinstance(state[1], Rat) and state[1] == value
    # ---- memory reset before each pass
    first_of = {}
    for (i, c), r in zip(calls_, rows):
        first_of.setdefault(id(r), i)
    prev_end = 0
    for pi, p in enumerate(passes):
        i = first_of[id(p)]
        sx, sy = state_before(i, A[pnx], [p]), state_before(i, A[pny], [p])
        ok = is_all(sx, Rat.const(-1)) and is_all(sy, Rat.const(-1)) and sx[2] >= prev_end and sy[2] >= prev_end
        rep.add('X3', kern, entry, 'per-column memory reset before the %s pass' % ('first' if pi == 0 else 'second'),
                p.node.lineno, ok, 'targets remembered from the previous pass direction must not leak into the next pass: both '
                'memory arrays must be entirely -1 when a pass starts')
        prev_end = max(j for (j, c), r in zip(calls_, rows) if r is p)
    # ---- nearest pair reset before each call; line buffer; distances
    for n, ((i, c), r) in enumerate(zip(calls_, rows)):
        sx, sy = state_before(i, A[nxs], [r]), state_before(i, A[nys], [r])
        lower = max([j for (j, c2), r2 in zip(calls_, rows) if j < i] + [-1])
        ok = is_all(sx, Rat.const(-1)) and is_all(sy, Rat.const(-1)) and sx[2] > lower and sy[2] > lower and \
            _in_loop(ev[sx[2]], r) and _in_loop(ev[sy[2]], r)
        rep.add('X4', kern, entry, 'nearest pair reset before the sweep at line %d' % c[3].lineno, c[3].lineno, ok,
                'the per-line result pair must be cleared before every sweep so that allocation/direction read the pair '
                'stored by THAT sweep')
    for pi, p in enumerate(passes):
        i = first_of[id(p)]
        s = state_before(i, A[src], [p])
        rowv = next(rl for rl, r_ in zip(rowline, rows) if r_ is p)
        okl = False
        if s is not None and s[0] == 'each' and _in_loop(ev[s[2]], p):
            v = s[1]
            iv = Rat.sym(s[3].var)
            okl = v == Rat.atom(App('read', [img, rowv, iv])) or v == Rat.atom(App('getitem', [Rat.atom(App('read', [img, rowv])), iv]))
        elif s is not None and s[0] == 'fill' and _in_loop(ev[s[2]], p):
            v = s[1]
            okl = isinstance(v, Rat) and (v == Rat.atom(App('read', [img, rowv])) or repr(v) == repr(Rat.atom(App('view', [img, (('idx', rowv), ('slice', Rat.atom(App('none', [])), Rat.atom(App('none', []))))]))))
            if not okl and isinstance(v, Rat):
                at = _one(v)
                okl = at is not None and at.name == 'view' and at.args[0] == img and 'idx' in repr(at.args[1]) and repr(rowv) in repr(at.args[1])
        rep.add('X3', kern, entry, 'scan line = img[row] in the %s pass' % ('first' if pi == 0 else 'second'), p.node.lineno, okl,
                'each sweep must read the current row of the raster')
    dt = A[src].dtype
    okb = dt is not None and dt.replace(' ', '') == '%s.dtype' % img or (isinstance(dt, tuple) and dt[0] == 'like' and dt[1] == img)
    rep.add('X6', kern, entry, 'line buffer dtype: %s' % (dt,), kern.node.lineno, okb,
            'the buffer that holds the current raster row must have the raster\'s own dtype: narrowing it (e.g. float32) '
            'changes values before the target test (ids above 2**24, tiny/huge floats) so real targets are missed')
    # distances: -1 before the first pass of a line, saved per line, reloaded in the second pass, saved again
    p1, p2 = passes
    i1 = first_of[id(p1)]
    s = state_before(i1, A[prox], [p1])
    ok1 = is_all(s, Rat.const(-1)) and _in_loop(ev[s[2]], p1)
    saves = [(j, e[1]) for j, e in enumerate(ev) if e[0] == 'store' and not e[1].guards and e[1].loops and
             any(e[1].loops[0] is p for p in passes) and _saves_row(e[1], A[prox], W)]
    imgd = {st.arr.name for j, st in saves}
    last1 = max(j for (j, c), r in zip(calls_, rows) if r is p1)
    last2 = max(j for (j, c), r in zip(calls_, rows) if r is p2)
    ok2 = len(imgd) == 1 and any(j > last1 and st.loops[0] is p1 for j, st in saves) and any(j > last2 and st.loops[0] is p2 for j, st in saves)
    i2 = first_of[id(p2)]
    s2 = state_before(i2, A[prox], [p2])
    ok3 = False
    if len(imgd) == 1 and s2 is not None and s2[0] in ('each', 'fill') and _in_loop(ev[s2[2]], p2) and isinstance(s2[1], Rat):
        D = next(iter(imgd))
        rowv = next(rl for rl, r_ in zip(rowline, rows) if r_ is p2)
        at = _one(s2[1])
        if s2[0] == 'each' and at is not None and at.name in ('read', 'cell?') and at.args[0] == D and tuple(at.args[1:3]) == (rowv, Rat.sym(s2[3].var)):
            ok3 = True
        if s2[0] == 'each' and at is not None and at.name == 'getitem':
            ok3 = repr(at.args[0]) in (repr(Rat.atom(App('read', [D, rowv]))),) and at.args[1] == Rat.sym(s2[3].var)
        if s2[0] == 'fill' and at is not None and at.name == 'view' and at.args[0] == D and repr(rowv) in repr(at.args[1]):
            ok3 = True
    # no store that saves a line of distances recognised at all: the save may be written in a way the rule does not read - undecided
    rep.add('X3', kern, entry, 'distances initialised to -1, saved per line, reloaded in the second pass', kern.node.lineno,
            (ok1 and ok2 and ok3) if saves else None, 'the second pass must start from the first pass\' distances (start -1: %s, saved after each pass: %s, '
            'reloaded: %s)' % (ok1, ok2, ok3))
    # ---- outputs after each sweep
    rets = [v for v, g in k.returns if isinstance(v, Arr)]
    outs_arr = [a for a in rets if a.name not in imgd]
    nal = ndi = ngu = 0
    total = 0
    bounds = [j for j, c in calls_] + [len(ev)]
    inl = getattr(k, 'inlined', [])
    for n, (i, c) in enumerate(calls_):
        seg = [e[1] for e in ev[i + 1:bounds[n + 1]] if e[0] == 'store' and any(e[1].arr is a for a in outs_arr)]
        # only those written before the nearest pair is reset again
        nxt_reset = min([j for j in range(i + 1, bounds[n + 1]) if ev[j][0] == 'store' and ev[j][1].arr is A[nxs]] + [bounds[n + 1]])
        seg = [e[1] for e in ev[i + 1:nxt_reset] if e[0] == 'store' and any(e[1].arr is a for a in outs_arr)]
        r = rows[n]
        for st in seg:
            total += 1
            if len(st.idx) != 2 or st.idx[0] != rowline[n] or not st.loops or st.idx[1] != Rat.sym(st.loops[-1].var) or \
                    rng(st.loops[-1]) != (Rat.const(0), W, Rat.const(1)):
                continue
            iv = st.idx[1]
            # guard: nearest != -1 and proximity >= 0
            ats = guard_atoms(st.guards)
            cn = [a for a in ats if isinstance(a, App) and a.name in ('read', 'cell?') and a.args[0] == A[nxs].name and a.args[1] == iv]
            cp = [a for a in ats if isinstance(a, App) and a.name in ('read', 'cell?') and a.args[0] == A[prox].name and a.args[1] == iv]
            try:
                modes = [a for a in ats if isinstance(a, Sym)]
                def act(nv, pv):
                    env = {a: Fraction(nv) for a in cn}
                    env.update({a: Fraction(pv) for a in cp})
                    return any(all(eval_cond_full(g, {**env, **{mm: Fraction(mv) for mm in modes}}) for g in st.guards) for mv in (0, 1, 2, 3))
                if cn and cp and act(3, 2) and not act(-1, 2) and not act(3, -1) and act(3, 0) and act(0, 2) and act(0, 0):
                    ngu += 1
            except CannotEvaluate:
                pass
            v = st.value
            ry = Rat.atom(_first(lambda a: a.name in ('read', 'cell?') and a.args[0] == A[nys].name and a.args[1] == iv, walk_atoms(v)))
            rx = Rat.atom(_first(lambda a: a.name in ('read', 'cell?') and a.args[0] == A[nxs].name and a.args[1] == iv, walk_atoms(v)))
            if ry is None or rx is None:
                continue
            at = _one(v)
            if at is not None and at.name in ('read', 'cell?') and at.args[0] == img and _same_cell(at.args[1], A[nys].name, iv) and \
                    _same_cell(at.args[2], A[nxs].name, iv):
                nal += 1
                continue
            # direction: the bearing helper applied to (x[row, i], x[near], y[row, i], y[near])
            for rec in inl:
                if rec[3] == v and len(rec[1]) == 4 and rec[0].name == '_calc_direction':
                    a1, a2, a3, a4 = rec[1]
                    xa, ya = _param_name(xg), _param_name(yg)
                    okd = a1 == Rat.atom(App('read', [xa, rowline[n], iv])) and a3 == Rat.atom(App('read', [ya, rowline[n], iv])) and \
                        _near_read(a2, xa, A[nys].name, A[nxs].name, iv) and _near_read(a4, ya, A[nys].name, A[nxs].name, iv)
                    if okd:
                        ndi += 1
                    break
    rep.add('X4', kern, entry, 'allocation = img[nearest row, nearest col] (%d sites)' % nal, kern.node.lineno, nal == 4,
            'allocation must read the raster at the remembered pair: row index from the row array, column index from the column array, '
            'after each of the four sweeps')
    rep.add('X4', kern, entry, 'direction = bearing(cell -> remembered pair) (%d sites)' % ndi, kern.node.lineno, ndi == 4,
            'direction must be computed from the cell\'s coordinates to the coordinates of the remembered pair, after each of the four sweeps')
    rep.add('X4', kern, entry, 'outputs written only for cells whose sweep found a target (%d/%d)' % (ngu, total),
            kern.node.lineno, ngu == total and total == 8, 'every allocation/direction store must be made exactly when the sweep named a target: `nearest != -1 and proximity >= 0` (column 0 is a valid nearest column)')
    # NaN for unreached cells after the last sweep, before the final save
    nanfix = False
    for j in range(last2 + 1, len(ev)):
        e = ev[j]
        if e[0] == 'store' and e[1].arr is A[prox] and isinstance(e[1].value, Rat) and e[1].value == Rat.atom(App('nan', [])) and e[1].guards:
            st = e[1]
            cp = [a for a in guard_atoms(st.guards) if isinstance(a, App) and a.name in ('read', 'cell?') and a.args[0] == A[prox].name]
            try:
                if cp and all(eval_cond_full(g, {a: Fraction(-1) for a in cp}) for g in st.guards) and \
                        not all(eval_cond_full(g, {a: Fraction(0) for a in cp}) for g in st.guards) and \
                        any(jj > j for jj, s2_ in saves if s2_.loops[0] is p2):
                    nanfix = True
            except CannotEvaluate:
                pass
    rep.add('X5', kern, entry, 'unreached cells (distance < 0) become NaN', kern.node.lineno,
            nanfix if (nanfix or any(s2_.loops[0] is p2 for jj, s2_ in saves)) else None,
            'a cell with no target within max_distance must be NaN (set after the last sweep of the line and before the line is saved)')
    init = len(outs_arr) == 1 and outs_arr[0].init == 'nan'
    rep.add('X5', kern, entry, 'allocation/direction image NaN-initialised', kern.node.lineno, init, 'cells without a target are NaN in all outputs')
    modes = {}
    for v, g in k.returns:
        if isinstance(v, Arr):
            modes[v.name] = [cond_repr(x) for x in g]
    okr = len(k.returns) == 2 and len(imgd) == 1 and next(iter(imgd)) in modes and \
        modes[next(iter(imgd))] == ['free:process_mode == 0'] and len(outs_arr) == 1
    rep.add('X4', kern, entry, 'proximity mode returns the distances, other modes the output image', kern.node.lineno, okr, '%s' % modes)


def _in_loop(e, L):
    loops = e[1].loops if e[0] == 'store' else (e[1].alloc_loops if e[0] == 'alloc' else e[1][4])
    return bool(loops) and loops[0] is L


def _saves_row(st, proxarr, W):
    """img_distance[row, i] = line_proximity[i] over the row, or the slice form"""
    v = st.value
    if isinstance(v, Arr):
        return v is proxarr
    at = _one(v) if isinstance(v, Rat) else None
    if at is not None and at.name == 'arr' and at.args[0] == proxarr.name and st.arr is not proxarr and not isinstance(st.idx, str) and \
            len(st.idx) == 1:
        return True             # the whole line at once: `img_distance[row] = line_proximity`
    return at is not None and at.name in ('read', 'cell?') and at.args[0] == proxarr.name and st.arr is not proxarr and \
        not isinstance(st.idx, str) and len(st.idx) == 2


def _param_name(a):
    if isinstance(a, Arr):
        return a.name
    if isinstance(a, tuple) and a[:1] == ('param',):
        return a[1]
    return None


def _first(pred, atoms):
    for a in atoms:
        if isinstance(a, App) and pred(a):
            return a
    return None


def _same_cell(r, arr, iv):
    a = _one(r)
    return a is not None and a.name in ('read', 'cell?') and a.args[0] == arr and a.args[1] == iv


def _near_read(r, grid, nys, nxs, iv):
    a = _one(r)
    return a is not None and a.name in ('read', 'cell?') and a.args[0] == grid and len(a.args) >= 3 and \
        _same_cell(a.args[1], nys, iv) and _same_cell(a.args[2], nxs, iv)


def check_direction(prog, rep, m):
    f = m.funcs.get('_calc_direction')
    if f is None:
        raise AnalysisIncomplete('_calc_direction not found')
    entry = '_calc_direction'
    k = interpret(prog, f)
    x1, x2, y1, y2 = [Sym(p) for p in f.params[:4]]
    cases = {'self': ((0, 0), 0), 'E': ((1, 0), 90), 'S': ((0, 1), 180), 'W': ((-1, 0), 270), 'N': ((0, -1), 360),
             'SE': ((1, 1), 135), 'SW': ((-1, 1), 225), 'NW': ((-1, -1), 315), 'NE': ((1, -1), 45)}
    bad = []
    n = 0
    for name, ((dx, dy), want) in cases.items():
        env = {x1: Fraction(3), y1: Fraction(5), x2: Fraction(3 + dx), y2: Fraction(5 + dy)}
        # bind every arctan2 atom to its library value at this point
        for v, g in k.returns + k.returns:
            if isinstance(v, Rat):
                for a in walk_atoms(v):
                    if isinstance(a, App) and a.name == 'arctan2':
                        try:
                            p = [float(evaluate(z, env)) for z in a.args]
                        except CannotEvaluate:
                            continue
                        if p[0] == 0 and p[1] == 0:
                            continue
                        env[a] = Fraction(math.atan2(p[0], p[1]))
        got = None
        try:
            from ..kutil import eval_cond_full
            for v, g in k.returns:
                if all(eval_cond_full(c, env) for c in g):
                    got = evaluate(v, env) if isinstance(v, Rat) else None
                    break
        except CannotEvaluate as e:
            got = None
        n += 1
        if got is None or abs(float(got) - want) > 1e-3:
            bad.append((name, None if got is None else round(float(got), 4), want))
    rep.add('X7', f, entry, 'bearing table over %d directions' % n, f.node.lineno, not bad,
            'bearing convention in argument space: 0 = same point, 90 for x2 > x1, 180 for y2 > y1, 270 for x2 < x1, 360 for '
            'y2 < y1, diagonals in between; mismatches (case, got, want): %s' % bad)


def check(prog, rep):
    impl = find_impl(prog)
    kern, line, cs = find_line_routine(prog, impl)
    check_line(prog, rep, line)
    check_driver(prog, rep, kern, line, cs)
    check_direction(prog, rep, impl.module)
    # target values and max distance handed to the kernel
    # as wrapper terms (however the defaults are spelled, here or in a helper): what the names the kernel closes over hold
    from ..wterm import WT as _WT, key as _tk
    tvp = next((p_ for p_ in impl.params if 'target' in p_), None)
    mdp = next((p_ for p_ in impl.params if 'max_distance' in p_ or p_ == 'max_dist'), None)
    w_ = _WT(prog, depth=4)
    w_.run(impl)
    tv_, md_ = w_.env.get(tvp), w_.env.get(mdp)
    ok_tv = tv_ is not None and tv_[0] == 'call' and tv_[1] in ('numpy.asarray', 'numpy.array') and tv_[2] and tv_[2][0] == ('param', tvp)
    ok_md = False
    if md_ is not None and md_[0] == 'phi' and md_[1][0] == 'cmp' and md_[1][1] in ('Is', 'IsNot', 'Eq', 'NotEq') and \
            {_tk(md_[1][2]), _tk(md_[1][3])} == {_tk(('const', None)), _tk(('param', mdp))}:
        is_none_first = md_[1][1] in ('Is', 'Eq')
        a_, b_ = (md_[2], md_[3]) if is_none_first else (md_[3], md_[2])
        ok_md = a_ in (('global', 'np.inf'), ('global', 'numpy.inf'), ('global', 'math.inf')) and b_ == ('param', mdp)
    ok = ok_tv and ok_md
    rep.add('X6', impl, 'proximity', 'target_values as array; max_distance None -> inf', impl.node.lineno, ok,
            'an absent max_distance means unbounded')
    # the statement is backend-neutral: on Dask rasters each chunk must see a halo of max_distance (rules of C07)
    from . import C07
    C07.check(prog, rep)
    rep.floors = {k: v for k, v in rep.floors.items() if not k.startswith('P7') and k not in ('H2', 'H0')}
    rep.floor('P7a', 2)
    rep.floor('X1', 1)
    rep.floor('X2', 5)
    rep.floor('X3', 6)
    rep.floor('X4', 8)
    rep.floor('X5', 3)
    rep.floor('X7', 1)
