"""C05 - viewshed marks a cell visible exactly when the line-of-sight model says so  (partial: event geometry,
record layouts, output encoding, axis roles, observer elevation; the radial sweep over the augmented red-black tree is
declined).

T1 for all 8 sectors x {ENTER, EXIT} the event position offsets are exactly half the event row/col offsets; T2 the
ENTER / EXIT corner is the first / last of the cell's four corners in the sweep order (exact rational cross products);
T3 the angle function equals atan2(-(dy), dx) mod 2pi on the axis cases and all four quadrants; T4 record layouts:
AE_x == E_x - 3, the [:, :3] / [:, 3:] split, every constant field index inside the allocated width of its array,
field constants unique per record; T5 output encoding: INVISIBLE == -1 fill, observer cell 180, visible cells get the
vertical angle whose three branches are {90}, (0, 90), (90, 180]; T6 ew_res multiplies column differences and ns_res
row differences, resolutions from width-1 / height-1; T7 events sorted by angle then type with EXIT < CENTER < ENTER;
T8 observer cell by nearest-coordinate selection; T10 the observer elevation is formed after widening.
"""
import ast
import math
from fractions import Fraction

from ..astutil import calls, const, kw, short
from ..kai import TupleV, interpret
from ..kutil import CannotEvaluate, evaluate, eval_cond_full, show
from ..program import AnalysisIncomplete, Func, norm
from ..sym import App, Rat, Sym, walk_atoms

SECTORS = [(-1, -1), (-1, 0), (-1, 1), (0, 1), (1, 1), (1, 0), (1, -1), (0, -1)]   # (sign row, sign col) vs viewpoint


def T(n):
    return norm(n).replace(' ', '').replace('\n', '')


def eval_returns(k, env, bind_atan=True):
    """value of the (first) return whose guards hold under env; tuples -> list of Fractions"""
    for _pass in range(3) if bind_atan else ():
        for v, g in k.returns:
            vals = v.items if isinstance(v, TupleV) else [v]
            for x in vals:
                if isinstance(x, Rat):
                    for a in walk_atoms(x):
                        if isinstance(a, App) and a.name in ('arctan', 'sqrt') and a not in env:
                            try:
                                p = float(evaluate(a.args[0], env))
                                env[a] = Fraction(math.atan(p)) if a.name == 'arctan' else Fraction(math.sqrt(p))
                            except (CannotEvaluate, ValueError, ZeroDivisionError):
                                pass
    for v, g in k.returns:
        try:
            if all(eval_cond_full(c, env) for c in g):
                if isinstance(v, TupleV):
                    return [evaluate(x if isinstance(x, Rat) else Rat.sym(x[1]), env) for x in v.items]
                if isinstance(v, Rat):
                    return evaluate(v, env)
                if isinstance(v, tuple) and v and v[0] == 'param':
                    return evaluate(Rat.sym(v[1]), env)
        except CannotEvaluate:
            continue
    return None


def angle_of(dy, dx):
    """sweep angle of a point at (row offset dy, col offset dx) from the viewpoint: atan2(-dy, dx) mod 2pi"""
    a = math.atan2(-float(dy), float(dx))
    return a % (2 * math.pi)


def _is_phase(g):
    """a phase split off a kernel: a jit function that allocates arrays and hands them back as a tuple - executed in place"""
    return g.jit is not None and any(isinstance(n, ast.Return) and isinstance(n.value, ast.Tuple) for n in g.own_nodes()) and \
        any(isinstance(n, ast.Call) and isinstance(n.func, ast.Attribute) and n.func.attr in (
            'zeros', 'ones', 'full', 'empty', 'zeros_like', 'ones_like', 'full_like', 'empty_like') for n in g.own_nodes())


class Roles:
    """parameter roles of the geometry helpers, read off how the sweep kernel calls them: which parameter receives the
    event's row / column, the viewpoint row / column / elevation, the two resolutions, the event type, the node's
    distance key - and the one left over, the elevation.  Names and positions of the parameters do not matter."""
    def __init__(self):
        self.maps = {}
        self.sites = {}

    def learn(self, k, cls):
        for rec in getattr(k, 'inlined', []):
            h, args, kws = rec[0], rec[1], rec[2]
            bound = dict(zip(h.params, args))
            bound.update(kws or {})
            if set(bound) != set(h.params):
                continue
            roles = {p_: cls(v_) for p_, v_ in bound.items()}
            unk = [p_ for p_, r_ in roles.items() if r_ is None]
            known = [r_ for r_ in roles.values() if r_ is not None]
            if len(unk) <= 1 and len(set(known)) == len(known):
                mp = {r_: p_ for p_, r_ in roles.items() if r_}
                if unk:
                    mp['elev'] = unk[0]
                self.sites.setdefault(h.name, []).append((tuple(sorted(mp.items())), rec[4]))

    def finish(self):
        for h, lst in self.sites.items():
            count = {}
            for key_, node in lst:
                count[key_] = count.get(key_, 0) + 1
            best = sorted(count.items(), key=lambda kv: -kv[1])
            if len(best) > 1 and best[0][1] == best[1][1]:
                continue        # no majority: the roles stay unknown
            self.maps[h] = dict(best[0][0])

    def param(self, h, role, default_index):
        """the parameter of helper h (a Func) playing `role`; the reference position when the calls do not tell"""
        mp = self.maps.get(h.name)
        if mp and role in mp:
            return mp[role]
        return h.params[default_index] if default_index < len(h.params) else None

    def call(self, h, **vals):
        """spec text of a call of helper h with the given role -> expression text arguments"""
        mp = self.maps.get(h.name)
        if not mp or any(r_ not in mp for r_ in vals):
            raise AnalysisIncomplete('parameter roles of %s could not be read off its calls in the sweep' % h.name)
        return '%s(%s)' % (h.name, ', '.join('%s=%s' % (mp[r_], t_) for r_, t_ in vals.items()))

    def deviating(self, h):
        mp = self.maps.get(h.name)
        if mp is None:
            return []
        want = tuple(sorted(mp.items()))
        return [node for key_, node in self.sites.get(h.name, []) if key_ != want]


def sweep_roles(prog, m):
    if getattr(prog, '_c05_roles', None) is not None:
        return prog._c05_roles
    f = m.funcs.get('_viewshed_cpu_sweep')
    if f is None:
        raise AnalysisIncomplete('_viewshed_cpu_sweep not found')
    k = interpret(prog, f, strict=False, inline_all=_is_phase)
    C = {n: const(v[0]) for n, v in m.assigns.items() if len(v) == 1 and isinstance(const(v[0]), (int, float))}
    P = f.params
    roles = Roles()
    if len(P) >= 11 and all(n in C for n in ('E_ROW_ID', 'E_COL_ID', 'E_TYPE_ID', 'TN_KEY_ID')):
        raster, vp_row, vp_col, vp_elev, vp_target, ew_res, ns_res, rcts, aes, data, grid = P[:11]
        syms = {vp_row: 'vrow', vp_col: 'vcol', vp_elev: 'velev', ew_res: 'ew', ns_res: 'ns'}

        def is_read(a, arr, col):
            return isinstance(a, App) and a.name in ('read', 'cell?') and a.args[0] == arr and a.args[-1] == Rat.const(C[col])

        keyvals = {repr(e[1].value) for e in k.events if e[0] == 'store' and e[1].idx and e[1].idx[0] == Rat.const(C['TN_KEY_ID']) and
                   isinstance(e[1].value, Rat) and not e[1].value.is_const() and getattr(e[1].arr, 'name', None) not in (rcts, aes, data, raster)}

        def cls(v):
            if isinstance(v, tuple) and len(v) == 2 and v[0] == 'param':
                return syms.get(v[1])
            if not isinstance(v, Rat):
                return None
            if v.is_const():
                return 'etype'
            if repr(v) in keyvals:
                return 'key'            # the value the sweep stores as the node's key, handed on as the local it was computed into
            for nm, role in syms.items():
                if v == Rat.sym(nm):
                    return role
            one = _one(v)
            if one is not None and one.name in ('read', 'cell?') and len(one.args) >= 2 and one.args[0] not in (rcts, aes, data, raster) and \
                    one.args[1] == Rat.const(C['TN_KEY_ID']):
                return 'key'
            ats = list(walk_atoms(v))
            if one is not None and is_read(one, rcts, 'E_TYPE_ID'):
                return 'etype'
            hasr = [a for a in ats if is_read(a, rcts, 'E_ROW_ID')]
            hasc = [a for a in ats if is_read(a, rcts, 'E_COL_ID')]
            if hasr and not hasc:
                return 'row'
            if hasc and not hasr:
                return 'col'
            # an event position: the row (column) plus a constant offset on every branch
            from ..kutil import value_cases
            leaves = [v_ for c_, v_ in value_cases(v)]
            for role, cand in (('row', hasr), ('col', hasc)):
                if len(set(cand)) == 1 and leaves and all(isinstance(l_, Rat) and (l_ - Rat.atom(cand[0])).is_const() for l_ in leaves):
                    return role
            return None
        roles.learn(k, cls)
        roles.finish()
    prog._c05_roles = roles
    return roles


def check_tables(prog, rep, m):
    entry = 'viewshed events'
    fpos = m.funcs.get('_calc_event_pos')
    frc = m.funcs.get('_calculate_event_row_col')
    fang = m.funcs.get('_calculate_angle')
    if fpos is None or frc is None or fang is None:
        raise AnalysisIncomplete('viewshed event helpers not found')
    kpos, krc, kang = interpret(prog, fpos), interpret(prog, frc), interpret(prog, fang)
    roles = sweep_roles(prog, m)
    PP = [roles.param(fpos, r_, n_) for n_, r_ in enumerate(('etype', 'row', 'col', 'vrow', 'vcol'))]
    PA = [roles.param(fang, r_, n_) for n_, r_ in enumerate(('col', 'row', 'vcol', 'vrow'))]
    if len(set(PP)) != 5 or len(set(PA)) != 4:
        raise AnalysisIncomplete('parameter roles of the event helpers are ambiguous')
    ENTER = const(m.assigns['ENTERING_EVENT'][0])
    EXIT = const(m.assigns['EXITING_EVENT'][0])
    CENTER = const(m.assigns['CENTER_EVENT'][0])
    rep.add('T7', m, entry, 'EXITING_EVENT=%s < CENTER_EVENT=%s < ENTERING_EVENT=%s' % (EXIT, CENTER, ENTER), 1,
            EXIT < CENTER < ENTER, 'with equal angles an exit must be processed before a centre and an enter')
    vp = (Fraction(10), Fraction(10))
    P = {n: Sym(n) for n in fpos.params}
    for (sr, sc) in SECTORS:
        er, ec = vp[0] + 3 * sr, vp[1] + 3 * sc
        for et, label in ((ENTER, 'ENTER'), (EXIT, 'EXIT')):
            env = {Sym(PP[0]): Fraction(et), Sym(PP[1]): er, Sym(PP[2]): ec, Sym(PP[3]): vp[0], Sym(PP[4]): vp[1]}
            pos = eval_returns(kpos, dict(env))
            env2 = {Sym(frc.params[0]): Fraction(et), Sym(frc.params[1]): er, Sym(frc.params[2]): ec,
                    Sym(frc.params[3]): vp[0], Sym(frc.params[4]): vp[1]}
            rc = eval_returns(krc, dict(env2))
            site = 'sector (row %+d, col %+d) %s' % (sr, sc, label)
            if pos is None or rc is None:
                rep.add('T1', fpos, entry, site, fpos.node.lineno, None, 'table entry not evaluable')
                continue
            dpos = (pos[0] - er, pos[1] - ec)
            drc = (rc[0] - er, rc[1] - ec)
            ok = dpos[0] * 2 == drc[0] and dpos[1] * 2 == drc[1] and abs(drc[0]) == 1 and abs(drc[1]) == 1
            rep.add('T1', fpos, entry, '%s: position offset %s, neighbour offset %s' % (site, tuple(map(str, dpos)), tuple(map(str, drc))),
                    fpos.node.lineno, ok, 'the event lies on the cell corner shared with the neighbour used for its '
                    'elevation: position offset must be exactly half the row/col offset (both +-1)')
            # T2 geometry: ENTER is the first, EXIT the last corner in sweep order
            corners = [(er + a, ec + b) for a in (Fraction(-1, 2), Fraction(1, 2)) for b in (Fraction(-1, 2), Fraction(1, 2))]
            angs = {}
            for c in corners:
                a = angle_of(c[0] - vp[0], c[1] - vp[1])
                if sr == 0 and sc == 1 and a > math.pi:
                    a -= 2 * math.pi        # the sector on the positive x axis straddles angle 0
                angs[c] = a
            first = min(angs, key=angs.get)
            last = max(angs, key=angs.get)
            want = first if et == ENTER else last
            ok2 = (pos[0], pos[1]) == want
            rep.add('T2', fpos, entry, '%s: corner (%s, %s), expected (%s, %s)' % (site, pos[0] - er, pos[1] - ec, want[0] - er, want[1] - ec),
                    fpos.node.lineno, ok2, 'a cell enters the sweep at its first corner and leaves at its last corner in '
                    'the sweep order (counter-clockwise from the positive x axis, rows growing downwards)')
    # CENTER events sit on the cell itself
    env = {Sym(PP[0]): Fraction(CENTER), Sym(PP[1]): Fraction(7), Sym(PP[2]): Fraction(13), Sym(PP[3]): vp[0], Sym(PP[4]): vp[1]}
    pos = eval_returns(kpos, env)
    rep.add('T1', fpos, entry, 'CENTER event position %s' % (pos,), fpos.node.lineno, pos == [Fraction(7), Fraction(13)],
            'the centre event lies on the cell centre')
    # T3 angle function
    bad = []
    n = 0
    for (dy, dx) in [(0, 1), (-1, 1), (-1, 0), (-1, -1), (0, -1), (1, -1), (1, 0), (1, 1), (-2, 5), (3, -7), (Fraction(-5, 2), Fraction(7, 2))]:
        env = {Sym(PA[0]): vp[1] + dx, Sym(PA[1]): vp[0] + dy, Sym(PA[2]): vp[1], Sym(PA[3]): vp[0]}
        got = eval_returns(kang, env)
        want = angle_of(dy, dx)
        n += 1
        if got is None or abs(float(got) - want) > 1e-9:
            bad.append(((str(dy), str(dx)), None if got is None else round(float(got), 6), round(want, 6)))
    rep.add('T3', fang, entry, 'angle function at %d directions' % n, fang.node.lineno, not bad,
            'the sweep angle of (x, y) must be atan2(-(y - vy), x - vx) mod 2pi (5 axis cases + 4 quadrants); mismatches '
            '((dy, dx), got, want): %s' % bad[:4])
    # call sites pass (x, y) = (col, row): every angle call takes its position from the `(row, col) = event position` unpack
    # that precedes it - the second component as x, the first as y - and the same viewpoint (row, col) as that call
    okc = True
    nsites = 0
    PPr = {r_: p_ for r_, p_ in zip(('etype', 'row', 'col', 'vrow', 'vcol'), PP)}
    PAr = {r_: p_ for r_, p_ in zip(('col', 'row', 'vcol', 'vrow'), PA)}

    def bound_txt(fn_, c):
        b_ = dict(zip(fn_.params, [T(a) for a in c.args]))
        b_.update({kw_.arg: T(kw_.value) for kw_ in c.keywords if kw_.arg})
        return b_
    for f in m.funcs.values():
        pos_unpacks = []
        for n in f.own_nodes():
            if isinstance(n, ast.Assign) and isinstance(n.value, ast.Call) and short(n.value) == '_calc_event_pos' and \
                    isinstance(n.targets[0], ast.Tuple) and len(n.targets[0].elts) == 2:
                pos_unpacks.append(n)
        for c in calls(f.node):
            if c in f.own_nodes() and short(c) == '_calculate_angle':
                nsites += 1
                prev = [n for n in pos_unpacks if n.lineno <= c.lineno]
                if not prev:
                    okc = False
                    continue
                pu = max(prev, key=lambda n: n.lineno)
                ry, cx = [T(e) for e in pu.targets[0].elts]
                ba, bp = bound_txt(fang, c), bound_txt(fpos, pu.value)
                if ba.get(PAr['col']) != cx or ba.get(PAr['row']) != ry or ba.get(PAr['vcol']) != bp.get(PPr['vcol']) or \
                        ba.get(PAr['vrow']) != bp.get(PPr['vrow']):
                    okc = False
    rep.add('T3', m, entry, '%d angle call sites pass (column, row) of the event position as (x, y), with the viewpoint (column, row)' % nsites, 1,
            okc and nsites >= 6 and not roles.deviating(fang) and not roles.deviating(fpos),
            'x is the column coordinate and y the row coordinate at every call site')


def pm_assign_target(f, call):
    for n in f.own_nodes():
        if isinstance(n, ast.Assign) and n.value is call and isinstance(n.targets[0], ast.Tuple):
            return [T(e) for e in n.targets[0].elts]
    return None


def check_layouts(prog, rep, m):
    entry = 'viewshed records'
    consts = {n: const(v[0]) for n, v in m.assigns.items() if len(v) == 1 and isinstance(const(v[0]), int)}
    fam = {'E': ['E_ROW_ID', 'E_COL_ID', 'E_TYPE_ID', 'E_ANG_ID', 'E_ELEV_0', 'E_ELEV_1', 'E_ELEV_2'],
           'AE': ['AE_ANG_ID', 'AE_ELEV_0', 'AE_ELEV_1', 'AE_ELEV_2'],
           'TNV': ['TN_KEY_ID', 'TN_GRAD_0', 'TN_GRAD_1', 'TN_GRAD_2', 'TN_ANG_0', 'TN_ANG_1', 'TN_ANG_2', 'TN_MAX_GRAD_ID'],
           'TNS': ['TN_COLOR_ID', 'TN_LEFT_ID', 'TN_RIGHT_ID', 'TN_PARENT_ID']}
    for fname, names in fam.items():
        vals = [consts.get(n) for n in names]
        ok = None not in vals and sorted(vals) == list(range(len(names)))
        rep.add('T4', m, entry, 'record %s fields %s' % (fname, dict(zip(names, vals))), 1, ok,
                'field indices of one record must be distinct and contiguous from 0')
    for a, e in (('AE_ANG_ID', 'E_ANG_ID'), ('AE_ELEV_0', 'E_ELEV_0'), ('AE_ELEV_1', 'E_ELEV_1'), ('AE_ELEV_2', 'E_ELEV_2')):
        ok = consts.get(a) is not None and consts.get(e) is not None and consts[a] == consts[e] - 3
        rep.add('T4', m, entry, '%s == %s - 3' % (a, e), 1, ok, 'the float half of an event is the event record from column 3 on')
    ok = consts.get('E_TYPE_ID') == 2 and consts.get('E_ANG_ID') == 3
    rep.add('T4', m, entry, 'E_TYPE_ID is the last integer field, E_ANG_ID the first float field', 1, ok, '')
    # which record an array holds is read off the field constants it is subscripted with (per function: the same name may
    # be another array elsewhere); local names do not matter
    fam_of = {c_: fn_ for fn_, names_ in fam.items() for c_ in names_}
    uses = {}         # (function, array name) -> [(constant, node)]
    nsub = 0
    for f in m.funcs.values():
        for n in f.own_nodes():
            if not isinstance(n, ast.Subscript):
                continue
            sl = n.slice.elts[-1] if isinstance(n.slice, ast.Tuple) and n.slice.elts else n.slice
            base = n.value
            if isinstance(base, ast.Subscript) and not isinstance(n.slice, ast.Tuple):
                base = base.value          # arr[i][FIELD]
            if not (isinstance(sl, ast.Name) and sl.id in fam_of and isinstance(base, ast.Name)):
                continue
            if sl.id in f.params or any(isinstance(x, ast.Name) and x.id == sl.id and isinstance(x.ctx, ast.Store) for x in ast.walk(f.node)):
                continue
            uses.setdefault((f.qualname, base.id), []).append((sl.id, n))
            nsub += 1
    bad = []
    for (fq, arr), lst in sorted(uses.items()):
        fams = {fam_of[c_] for c_, n_ in lst}
        # the float half of an event (AE) and the event record (E) are different arrays; a node value row may be read with
        # the TNV constants only, a tree link row with the TNS constants only
        if len(fams) > 1:
            bad.append('%s in %s is subscripted with fields of %s' % (arr, fq, sorted(fams)))
    rep.add('T4', m, entry, '%d constant field subscripts on %d arrays checked' % (nsub, len(uses)), 1, not bad and nsub >= 40,
            'the field constants used on one array must all belong to the same record: %s' % bad[:5])
    # widths: an array allocated with a constant record width must cover every field used on it
    sizes = {fn_: len(names_) for fn_, names_ in fam.items()}
    nw = 0
    for f in m.funcs.values():
        for n in f.own_nodes():
            if isinstance(n, ast.Assign) and isinstance(n.targets[0], ast.Name) and isinstance(n.value, ast.Call) and \
                    short(n.value) in ('zeros', 'empty', 'ones', 'full') and n.value.args:
                a0 = n.value.args[0]
                # the record width: last component of a shape tuple, or the plain integer of a 1-D allocation (`zeros(7)` = `zeros((7,))`)
                w = const(a0.elts[-1]) if isinstance(a0, ast.Tuple) and a0.elts else (const(a0) if isinstance(a0, ast.Constant) else None)
                if not isinstance(w, int) or isinstance(w, bool) or w > 16:
                    continue
                name = n.targets[0].id
                used = [c_ for c_, n_ in uses.get((f.qualname, name), [])]
                nw += 1
                if used:
                    # the record it holds is known from the fields used on it: all of that record's fields must fit (a node
                    # row that is never asked for its subtree maximum may leave that last field out)
                    fn_ = fam_of[used[0]]
                    need_w = max(max(consts[c_] for c_ in used) + 1,
                                 sizes[fn_] - (1 if fn_ == 'TNV' and 'TN_MAX_GRAD_ID' not in used else 0))
                    okw = w >= need_w
                    why = 'it holds %s records (%d fields needed)' % (fn_, need_w)
                else:
                    okw = w in set(sizes.values()) | {sizes['TNV'] - 1}
                    why = 'its fields are used in other functions: the width must be a record width %s' % sorted(set(sizes.values()) | {sizes['TNV'] - 1})
                rep.add('T4', f, entry, 'array %s allocated with record width %s' % (name, w), n.lineno, okw,
                        'record width must cover every field index used on it; ' + why)
    if nw < 5:
        rep.add('T4', m, entry, 'record arrays', 1, None, 'only %d allocations with a constant record width found (5 expected)' % nw)


def check_encoding(prog, rep, m):
    entry = 'viewshed output'
    consts = {n: const(v[0]) for n, v in m.assigns.items() if len(v) == 1}
    rep.add('T5', m, entry, 'INVISIBLE = %s' % consts.get('INVISIBLE'), 1, consts.get('INVISIBLE') == -1, 'invisible cells are -1')
    cpu = _cpu_entry(prog, m)
    # the grid handed to the kernels starts entirely INVISIBLE, as float64 of the raster's shape
    grid = None
    for c in calls(cpu.node):
        t_ = prog.resolve_callable(cpu, m, c.func)
        if isinstance(t_, Func) and t_.name == '_viewshed_cpu_sweep':
            for p, a in zip(t_.params, c.args):
                if p == 'visibility_grid' and isinstance(a, ast.Name):
                    grid = a.id
            for kk in c.keywords:
                if kk.arg == 'visibility_grid' and isinstance(kk.value, ast.Name):
                    grid = kk.value.id
    shape_names = set()
    for n in cpu.own_nodes():
        if isinstance(n, ast.Assign) and isinstance(n.targets[0], ast.Tuple) and T(n.value) == 'raster.shape':
            shape_names.add('(%s)' % ','.join(T(e) for e in n.targets[0].elts))
    for n in list(cpu.own_nodes()):
        if isinstance(n, ast.Assign) and isinstance(n.targets[0], ast.Tuple) and isinstance(n.value, ast.Tuple) and \
                '(%s)' % ','.join(T(e) for e in n.value.elts) in shape_names:
            shape_names.add('(%s)' % ','.join(T(e) for e in n.targets[0].elts))
    allocs = [v for v in cpu.local_assigns().get(grid, []) if isinstance(v, ast.AST)] if grid else []
    ok = False
    if len(allocs) == 1 and isinstance(allocs[0], ast.Call):
        c = allocs[0]
        shp = c.args[0] if c.args else kw(c, 'shape')
        okshape = shp is not None and (T(shp) == 'raster.shape' or T(shp) in shape_names)
        dt = kw(c, 'dtype')
        okdt = dt is not None and T(dt) in ('np.float64', 'float', 'numpy.float64')
        if short(c) == 'full':
            fv = c.args[1] if len(c.args) > 1 else kw(c, 'fill_value')
            ok = okshape and okdt and fv is not None and T(fv) == 'INVISIBLE'
        elif short(c) in ('empty', 'zeros', 'ones'):
            fills = [x for x in cpu.own_nodes() if (isinstance(x, ast.Expr) and isinstance(x.value, ast.Call) and short(x.value) == 'fill'
                                                   and T(x.value.func.value) == grid and len(x.value.args) == 1 and T(x.value.args[0]) == 'INVISIBLE') or
                     (isinstance(x, ast.Assign) and isinstance(x.targets[0], ast.Subscript) and T(x.targets[0].value) == grid and
                      T(x.targets[0].slice) in (':', '...', '(:,:)', ':,:') and T(x.value) == 'INVISIBLE')]
            ok = okshape and okdt and len(fills) >= 1
    rep.add('T5', cpu, entry, 'visibility grid %s filled with INVISIBLE' % grid, cpu.node.lineno, ok,
            'every cell starts invisible: the grid handed to the kernels must be a float64 array of the raster\'s shape filled with INVISIBLE')
    init = m.funcs.get('_init_event_list')
    # the cell whose (row, column) loop variables equal the viewpoint's: written 180 at those very indices, then skipped
    ok = False
    for n in init.own_nodes():
        if not (isinstance(n, ast.If) and isinstance(n.test, ast.BoolOp) and isinstance(n.test.op, ast.And) and len(n.test.values) == 2 and
                n.body and isinstance(n.body[-1], ast.Continue)):
            continue
        eqs = []
        for v_ in n.test.values:
            if isinstance(v_, ast.Compare) and len(v_.ops) == 1 and isinstance(v_.ops[0], ast.Eq) and isinstance(v_.left, ast.Name) and \
                    isinstance(v_.comparators[0], ast.Name):
                a_, b_ = v_.left.id, v_.comparators[0].id
                eqs.append((b_, a_) if a_ in init.params else (a_, b_))     # (loop variable, viewpoint parameter)
        if len(eqs) != 2 or not all(p_ in init.params for v_, p_ in eqs):
            continue
        pr = [p_ for p_ in init.params if 'row' in p_ and p_ in [e[1] for e in eqs]]
        pc = [p_ for p_ in init.params if 'col' in p_ and p_ in [e[1] for e in eqs]]
        if len(pr) != 1 or len(pc) != 1:
            continue
        rowv = [v_ for v_, p_ in eqs if p_ == pr[0]][0]
        colv = [v_ for v_, p_ in eqs if p_ == pc[0]][0]
        for s_ in n.body:
            c = s_.value if isinstance(s_, ast.Expr) else None
            sv_ = m.funcs.get('_set_visibility')
            if isinstance(c, ast.Call) and short(c) == '_set_visibility' and sv_ is not None:
                b_ = dict(zip(sv_.params, c.args))
                b_.update({k_.arg: k_.value for k_ in c.keywords if k_.arg})
                a_ = [b_.get(p_) for p_ in sv_.params[:4]]
                if all(x is not None for x in a_) and T(a_[0]) in init.params and T(a_[1]) == rowv and T(a_[2]) == colv and _const_value(prog, m, a_[3]) == 180:
                    ok = True
    rep.add('T5', init, entry, 'observer cell = 180 and generates no events', init.node.lineno, ok, '')
    sv = m.funcs.get('_set_visibility')
    ok = False
    if sv is not None and len(sv.params) == 4:
        g_, i_, j_, v_ = sv.params
        ok = any(T(s) in ('%s[%s][%s]=%s' % (g_, i_, j_, v_), '%s[%s,%s]=%s' % (g_, i_, j_, v_)) for s in sv.own_nodes())
    rep.add('T5', sv or m, entry, '_set_visibility stores at [i][j]', sv.node.lineno if sv else 1, ok, '')
    # _get_vertical_ang branches
    f = m.funcs.get('_get_vertical_ang')
    k = interpret(prog, f)
    roles = sweep_roles(prog, m)
    ve, d2, el = [Sym(roles.param(f, r_, n_)) for n_, r_ in enumerate(('velev', 'key', 'elev'))]
    bad = []
    n = 0
    for (dv, dist2) in [(0, 4), (3, 16), (-3, 16), (Fraction(1, 2), 100), (-50, 1), (50, 1)]:
        env = {ve: Fraction(100), el: Fraction(100) - dv, d2: Fraction(dist2)}
        got = eval_returns(k, env)
        # dv = viewpoint - elev: >0 cell below observer -> angle in (0, 90); <0 above -> (90, 180)
        want = 90.0 if dv == 0 else (math.degrees(math.atan(math.sqrt(dist2) / float(dv))) if dv > 0
                                     else math.degrees(math.atan(abs(float(dv)) / math.sqrt(dist2))) + 90)
        n += 1
        if got is None or abs(float(got) - want) > 1e-6:
            bad.append((str(dv), dist2, None if got is None else round(float(got), 4), round(want, 4)))
    rep.add('T5', f, entry, 'vertical angle at %d cases' % n, f.node.lineno, not bad,
            'level = 90, below the observer atan(dist / dz) in (0, 90), above atan(dz / dist) + 90 in (90, 180), with dist = '
            'sqrt(squared distance); mismatches (dz, dist2, got, want): %s' % bad[:3])


def check_gradient(prog, rep, m, f, entry):
    """T6 on the interpreted helper: parameters are (row, col, elev, vp_row, vp_col, vp_elev, ew_res, ns_res); the
    squared distance is ((col - vp_col) * ew_res)^2 + ((row - vp_row) * ns_res)^2 and the gradient atan(dz / dist)"""
    from ..kutil import Spec
    k = interpret(prog, f, strict=False)
    P = f.params
    if len(P) != 8 or len(k.returns) != 1:
        rep.add('T6', f, entry, '%s' % f.name, f.node.lineno, None, 'expected 8 parameters and one return')
        return
    roles = sweep_roles(prog, m)
    RP = [roles.param(f, r_, n_) for n_, r_ in enumerate(('row', 'col', 'elev', 'vrow', 'vcol', 'velev', 'ew', 'ns'))]
    if len(set(RP)) != 8:
        rep.add('T6', f, entry, '%s' % f.name, f.node.lineno, None, 'parameter roles ambiguous: %s' % RP)
        return
    row, col, elev, vrow, vcol, velev, ew, ns = [Rat.sym(p) for p in RP]
    sp = Spec(prog, {})
    D = ((col - vcol) * ew) * ((col - vcol) * ew) + ((row - vrow) * ns) * ((row - vrow) * ns)
    want = sp.it.app('arctan', [(elev - velev) / sp.it.app('sqrt', [D])])
    v = k.returns[0][0]
    grad = v.items[-1] if isinstance(v, TupleV) else v
    okd = True
    if isinstance(v, TupleV):
        okd = len(v.items) == 2 and isinstance(v.items[0], Rat) and v.items[0] == D
    ats = [a for a in walk_atoms(grad) if isinstance(a, App) and a.name == 'arctan'] if isinstance(grad, Rat) else []
    okf = len(ats) == 1 and Rat.atom(ats[0]) == want
    rep.add('T6', f, entry, '%s: dx = dcol * ew_res, dy = drow * ns_res, dist2 = dx^2 + dy^2' % f.name, f.node.lineno, okd and okf,
            'the east-west resolution scales column differences and the north-south resolution row differences (squared '
            'distance and the distance under the gradient); got %s' % show(ats[0] if ats else grad, 200))
    # the gradient is that arctan away from the viewpoint, and +-pi/2 / 0 straight above / below / on it
    ok = None
    why = ''
    if okf:
        try:
            base = {next(iter(x.atoms())): Fraction(val) for x, val in ((vrow, 4), (vcol, 6), (velev, 100), (ew, 2), (ns, 3))}
            res = []
            for r_, c_, e_, want_ in ((5, 8, 130, 'atan'), (4, 7, 90, 'atan'), (4, 6, 130, '+'), (4, 6, 70, '-'), (4, 6, 100, '0')):
                env = dict(base)
                env[next(iter(row.atoms()))] = Fraction(r_)
                env[next(iter(col.atoms()))] = Fraction(c_)
                env[next(iter(elev.atoms()))] = Fraction(e_)
                env[ats[0]] = Fraction(12345, 100000)
                g = evaluate(grad, env)
                got = 'atan' if g == Fraction(12345, 100000) else '+' if g > 1 else '-' if g < -1 else '0' if g == 0 else '?'
                res.append((r_, c_, e_, got, want_))
            bad = [x for x in res if x[3] != x[4]]
            ok = not bad
            why = 'wrong at (row, col, elev, got, want) %s with the viewpoint at (4, 6, 100)' % bad
        except CannotEvaluate as e:
            why = str(e)
    rep.add('T6', f, entry, '%s: gradient = atan(dz / dist)' % f.name, f.node.lineno, ok if okf else False,
            'the gradient is the elevation angle of the point (pi/2 above, -pi/2 below, 0 at the viewpoint itself); ' + why)


def check_corner_heights(prog, rep, m):
    """T14: the height of an ENTER / EXIT corner.  The value the event list builder stores in the record's two corner fields
    is evaluated, as the term the kernel interpreter gives for it, on small rasters that are wider than tall, taller than
    wide and square, for every cell and every observer cell: it must be the mean of the four cells that meet at the corner -
    the cell, its neighbour in the row, its neighbour in the column and the diagonal one - when the diagonal neighbour lies
    inside the raster (its row below the number of ROWS, its column below the number of COLUMNS), and the cell's own height
    otherwise.  The corner is the one `_calc_event_pos` gives for the event type (rules T1 / T2 decide that it is the first /
    last corner in sweep order); the three-row window is supplied to the evaluation as distinct numbers per window cell."""
    entry = 'viewshed events'
    f = m.funcs.get('_init_event_list')
    fpos = m.funcs.get('_calc_event_pos')
    if f is None or fpos is None:
        raise AnalysisIncomplete('_init_event_list / _calc_event_pos not found')
    C = {n: const(v[0]) for n, v in m.assigns.items() if len(v) == 1 and isinstance(const(v[0]), (int, float))}
    need = ('E_ELEV_0', 'E_ELEV_2', 'ENTERING_EVENT', 'EXITING_EVENT')
    if any(n not in C for n in need) or len(f.params) < 4:
        raise AnalysisIncomplete('event record constants not found')
    k = interpret(prog, f, strict=False)
    kpos = interpret(prog, fpos)
    roles = sweep_roles(prog, m)
    PP = [roles.param(fpos, r_, n_) for n_, r_ in enumerate(('etype', 'row', 'col', 'vrow', 'vcol'))]
    raster, vp_row, vp_col = f.params[1], f.params[2], f.params[3]
    rows_of = [L for L in k.loops if L.kind == 'range' and L.hi == Rat.atom(App('shape', [raster, 0])) and L.lo == Rat.const(0)]
    for field, ety, label in (('E_ELEV_0', C['ENTERING_EVENT'], 'ENTER'), ('E_ELEV_2', C['EXITING_EVENT'], 'EXIT')):
        sts = [e[1] for e in k.events if e[0] == 'store' and e[1].idx != 'all' and len(e[1].idx) == 1 and e[1].idx[0] == Rat.const(C[field]) and
               len(e[1].loops) == 2 and isinstance(e[1].value, Rat) and not e[1].value.is_const()]
        if len(sts) != 1 or not rows_of or sts[0].loops[0] is not rows_of[0] or sts[0].loops[1].kind != 'range' or \
                sts[0].loops[1].hi != Rat.atom(App('shape', [raster, 1])):
            rep.add('T14', f, entry, '%s corner height' % label, f.node.lineno, None,
                    'the store of the corner height (record field %s) inside the row / column loops was not found' % field)
            continue
        st = sts[0]
        iv, jv = Sym(st.loops[0].var), Sym(st.loops[1].var)
        bad, n_pts, ok = [], 0, True

        def window(key, idx):
            if len(idx) != 2 or idx[0].denominator != 1 or idx[1].denominator != 1:
                raise CannotEvaluate('window cell %s' % (idx,))
            if idx[0] not in (0, 1, 2) or not (0 <= idx[1] < cur_shape[1]):
                return Fraction(-999983)        # a cell outside the three-row window: no height of the raster at all
            return Fraction(1000 * (int(idx[0]) + 1) + 7 * int(idx[1]) * int(idx[1]) + int(idx[1]))
        try:
            for cur_shape in ((2, 5), (5, 2), (3, 3)):
                R_, C_ = cur_shape
                for (vr, vc) in ((0, 0), (R_ - 1, C_ - 1), (R_ // 2, C_ // 2), (0, C_ - 1)):
                    for i in range(R_):
                        for j in range(C_):
                            if (i, j) == (vr, vc):
                                continue
                            env = {iv: Fraction(i), jv: Fraction(j), Sym(vp_row): Fraction(vr), Sym(vp_col): Fraction(vc),
                                   App('shape', [raster, 0]): Fraction(R_), App('shape', [raster, 1]): Fraction(C_), '__read__': window}
                            got = evaluate(st.value, env)
                            pos = eval_returns(kpos, {Sym(PP[0]): Fraction(ety), Sym(PP[1]): Fraction(i), Sym(PP[2]): Fraction(j),
                                                      Sym(PP[3]): Fraction(vr), Sym(PP[4]): Fraction(vc)}, bind_atan=False)
                            if pos is None:
                                raise CannotEvaluate('corner of the event not evaluated')
                            r1, c1 = 2 * pos[0] - i, 2 * pos[1] - j
                            if r1.denominator != 1 or c1.denominator != 1 or abs(r1 - i) != 1 or abs(c1 - j) != 1:
                                raise CannotEvaluate('the event position is not a corner of the cell')
                            own = window(None, (Fraction(1), Fraction(j)))
                            if 0 <= r1 < R_ and 0 <= c1 < C_:
                                w_ = r1 - i + 1
                                want = (window(None, (w_, c1)) + window(None, (w_, Fraction(j))) + window(None, (Fraction(1), c1)) + own) / 4
                            else:
                                want = own
                            n_pts += 1
                            if got != want:
                                ok = False
                                if len(bad) < 2:
                                    bad.append('%d x %d raster, observer (%d, %d), cell (%d, %d): diagonal neighbour (%d, %d) %s the raster, '
                                               'stored %s, expected %s' % (R_, C_, vr, vc, i, j, r1, c1,
                                                                           'inside' if want != own else 'outside', got, want))
        except CannotEvaluate as e_:
            ok, bad = None, [str(e_)]
        rep.add('T14', f, entry, '%s corner height = mean of the four cells at the corner, inside the raster (%d model cells)' % (label, n_pts),
                st.node.lineno if hasattr(st, 'node') and st.node is not None else f.node.lineno, ok,
                'a corner whose diagonal neighbour is inside the raster (row < rows, column < columns) gets the mean of the four '
                'cells meeting there, any other the cell\'s own height; ' + '; '.join(bad))


def check_axes(prog, rep, m):
    entry = 'viewshed geometry'
    for fn in ('_calc_event_grad', '_calc_dist_n_grad'):
        f = m.funcs.get(fn)
        if f is None:
            raise AnalysisIncomplete('%s not found' % fn)
        check_gradient(prog, rep, m, f, entry)
    check_wrapper(prog, rep, m, entry)


def _cpu_entry(prog, m):
    """the Python-level function that runs the sweep on a numpy raster: the one that calls the sweep kernel (whatever it is
    called)"""
    f = m.funcs.get('_viewshed_cpu')
    if f is not None:
        return f
    sw = m.funcs.get('_viewshed_cpu_sweep')
    for g in m.funcs.values():
        if g.jit is None and not g.is_lambda and sw is not None:
            for c in calls(g.node):
                if c in g.own_nodes() and prog.resolve_callable(g, m, c.func) is sw:
                    return g
    return None


def _const_value(prog, m, e):
    """value of a constant expression, module-level constants folded (`VIEWPOINT_ANG = 180`)"""
    v = const(e)
    if v is not None:
        return v
    try:
        from ..consteval import fold_expr
        return fold_expr(prog, m, e)
    except Exception:      # noqa
        return None



def _callees_of(prog, f):
    from ..backends import callees
    try:
        return callees(prog, f, include_args=False)
    except Exception:      # noqa
        return []


def _model_bindings(spec, xc, yc, xs, ys):
    """sub-terms of the wrapper bound to their values on the model raster with x coordinates xs and y coordinates ys"""
    from ..wterm import key
    bound = {}
    for nm_, arr in (('xc', xs), ('yc', ys)):
        for text, val in (('%s.min()', min(arr)), ('%s.max()', max(arr)), ('%s[0]', arr[0]), ('%s[-1]', arr[-1]), ('%s[1]', arr[1]),
                          ('%s.size', len(arr)), ('%s.shape[0]', len(arr)), ('len(%s)', len(arr)), ('np.min(%s)', min(arr)),
                          ('np.max(%s)', max(arr)), ('np.nanmin(%s)', min(arr)), ('np.nanmax(%s)', max(arr))):
            bound[key(spec(text % nm_, xc=xc, yc=yc))] = Fraction(val)
    for text, val in (('raster.shape[0]', len(ys)), ('raster.shape[1]', len(xs)), ('raster.sizes["y"]', len(ys)), ('raster.sizes["x"]', len(xs)),
                      ('len(raster.y)', len(ys)), ('len(raster.x)', len(xs)), ('raster.values.shape[0]', len(ys)),
                      ('raster.values.shape[1]', len(xs)), ('raster.data.shape[0]', len(ys)), ('raster.data.shape[1]', len(xs))):
        try:
            bound[key(spec(text))] = Fraction(val)
        except Exception:      # noqa - a spelling the term builder does not take is simply not bound
            pass
    return bound


def _model_cells(got, dim, spec, xc, yc, P):
    """([(dim, coords, dim, value, expected index, computed)] on evenly spaced models, same on an irregular model) for the
    observer-cell term `got`; None when the term cannot be evaluated on the models"""
    from ..wterm import eval_term, key
    models = [('x', [10, 20, 30, 40, 50], True), ('x', [50, 40, 30, 20, 10], True), ('x', [0, 1, 2, 3, 4, 5, 6], True),
              ('x', [1, 2, 4, 8, 16], False)]
    ymodels = [[100, 75, 50, 25], [25, 50, 75, 100], [-3, -2, -1, 0, 1, 2], [32, 16, 8, 4]]
    bad_even, bad_uneven = [], []
    if got == 'models':
        return [(xs, ys, even) for (_, xs, even), ys in zip(models, ymodels)]
    for (_, xs, even), ys in zip(models, ymodels):
        cs = ys if dim == 'y' else xs
        probes = sorted(set(cs) | {(3 * a_ + b_) / 4 for a_, b_ in zip(cs, cs[1:])} | {(a_ + 3 * b_) / 4 for a_, b_ in zip(cs, cs[1:])})
        for v in probes:
            other = (xs if dim == 'y' else ys)[1]
            bound = _model_bindings(spec, xc, yc, xs, ys)
            env = {'x': Fraction(v) if dim == 'x' else Fraction(other), 'y': Fraction(v) if dim == 'y' else Fraction(other), '__terms__': bound}
            try:
                r = eval_term(got, env)
            except (ValueError, ZeroDivisionError, KeyError, TypeError):
                return None
            want = min(range(len(cs)), key=lambda i_: abs(cs[i_] - v))
            if r != want:
                (bad_even if even else bad_uneven).append((dim, cs, dim, v, want, r))
    return bad_even, bad_uneven


def check_wrapper(prog, rep, m, entry):
    """T6 / T7 / T8 / T10 on the wrapper terms of `_viewshed_cpu` (wterm.py): what the sweep kernel receives, as terms
    over the wrapper's parameters - local names, tuple assignments, keyword arguments and helper functions do not matter"""
    from ..wterm import WT, eval_term, key, mentions, show as tshow
    cpu = _cpu_entry(prog, m)
    sw = m.funcs.get('_viewshed_cpu_sweep')
    if cpu is None or sw is None:
        raise AnalysisIncomplete('_viewshed_cpu / _viewshed_cpu_sweep not found')
    w = WT(prog)
    wret = w.run(cpu)
    kc = [c for c in w.calls if c.callee is sw]
    if len(kc) != 1 or not kc[0].bound:
        rep.add('T6', cpu, entry, 'sweep kernel call', cpu.node.lineno, None, '%d calls of the sweep kernel with bound arguments' % len(kc))
        return
    # T13: whatever the terrain looks like, the result is the grid the sweep filled - no path returns something computed
    # another way (a "fast path" for flat / empty rasters has no occlusion model behind it)
    def ret_leaves(t_):
        if isinstance(t_, tuple) and t_ and t_[0] == 'phi':
            return ret_leaves(t_[2]) + ret_leaves(t_[3])
        return [t_] if t_ is not None else []
    okres, whyres = None, 'returned value not understood'
    if wret is not None:
        bad_ = []
        grid_ = kc[0].bound.get(sw.params[-1]) if sw.params else None
        for lf in ret_leaves(wret):
            data_ = None
            if isinstance(lf, tuple) and lf[0] == 'call' and str(lf[1]).endswith('DataArray'):
                data_ = lf[2][0] if lf[2] else dict(lf[3]).get('data')
            if data_ is None or not (key(data_) == key(kc[0].result) or (grid_ is not None and key(data_) == key(grid_))):
                bad_.append(tshow(lf, 90))
        okres, whyres = not bad_, ('; returned on some path: %s' % bad_[0]) if bad_ else ''
    rep.add('T13', cpu, entry, 'every path returns the visibility grid the sweep filled', kc[0].node.lineno, okres,
            'the result must come from the sweep on every path' + whyres)
    # the sweep's parameters under the names the rules use: by position of its own signature (their names may be anything)
    SW_CANON = ('raster', 'vp_row', 'vp_col', 'vp_elev', 'vp_target', 'ew_res', 'ns_res', 'event_rcts', 'event_aes', 'data', 'visibility_grid')
    b = {c_: kc[0].bound.get(p_) for c_, p_ in zip(SW_CANON, sw.params)}
    line = kc[0].node.lineno
    P = {p: ('param', p) for p in cpu.params}
    rname = cpu.params[0]
    env0 = dict(P)
    env0['raster'] = P[rname]

    def spec(text, **extra):
        e = dict(env0)
        e.update(extra)
        return w.expr(text, e, cpu)
    xc, yc = spec("raster.indexes.get('x').values"), spec("raster.indexes.get('y').values")

    def verdict(got, want, swapped=None):
        if got is None:
            return None, 'argument not bound'
        if key(got) == key(want):
            return True, ''
        if swapped is not None and key(got) == key(swapped):
            return False, 'the x and y roles are exchanged'
        return None, 'got %s' % tshow(got, 200)
    # T6: resolutions
    for prm, text, text_sw in (('ew_res', '(xc[-1] - xc[0]) / (raster.shape[1] - 1)', '(yc[-1] - yc[0]) / (raster.shape[0] - 1)'),
                               ('ns_res', '(yc[-1] - yc[0]) / (raster.shape[0] - 1)', '(xc[-1] - xc[0]) / (raster.shape[1] - 1)')):
        want, sw_ = spec(text, xc=xc, yc=yc), spec(text_sw, xc=xc, yc=yc)
        got = b.get(prm)
        ok, why = verdict(got, want, sw_)
        if ok is None and got is not None and got[0] == 'arith':
            # a different rational function of the same coordinate ends and extents is a different resolution
            from ..wterm import to_rat
            if {a for a in to_rat(got).atoms()} <= {a for a in to_rat(want).atoms()} | {a for a in to_rat(sw_).atoms()}:
                ok = False
        rep.add('T6', cpu, entry, '%s = %s' % (prm, text), line, ok,
                'resolutions from the coordinate extents and the matching axis length (ew: x coordinates and columns, ns: y '
                'coordinates and rows); ' + why)
    # T8: observer cell
    cells = {}
    for prm, dim, other in (('vp_row', 'y', 'x'), ('vp_col', 'x', 'y')):
        def cell(d, coords):
            sel = spec("raster.sel(x=[x], y=[y], method='nearest').%s.values[0]" % d,
                       x=P.get('x', ('param', 'x')), y=P.get('y', ('param', 'y')))
            return spec('np.where(c == s)[0][0]', c=coords, s=sel)
        want = cell(dim, yc if dim == 'y' else xc)
        sw_ = cell(other, xc if dim == 'y' else yc)
        cells[prm] = want
        ok, why = verdict(b.get(prm), want, sw_)
        if ok is None and b.get(prm) is not None:
            # the index computed another way: evaluated on model rasters - coordinates ascending and descending (rows of a
            # north-up raster run from the largest y to the smallest), observers on and between cell centres, the two axes
            # of different lengths.  A wrong cell on an evenly spaced model is a violation; agreement on the even models only
            # (an irregular one differs from nearest-coordinate selection) stays undecided.
            mv = _model_cells(b.get(prm), dim, spec, xc, yc, P)
            if mv is not None:
                bad_even, bad_uneven = mv
                if bad_even:
                    ok, why = False, 'on a raster with %s coordinates %s an observer at %s=%s stands on index %s, the formula gives %s' % bad_even[0]
                elif not bad_uneven:
                    ok, why = True, 'agrees with nearest-coordinate selection on every model raster'
        rep.add('T8', cpu, entry, '%s = index of the nearest %s coordinate' % (prm, dim), line, ok,
                'the observer stands on the cell whose centre is nearest (row from y, column from x); ' + why)
    # T8-range: an observer anywhere inside the raster's extent is accepted, one outside is rejected - whichever way the
    # coordinates run.  The conditions under which the wrapper raises are evaluated on the model rasters.
    from ..wterm import eval_cond, mentions
    xy = [g_ for g_ in w.raises if any(mentions(c_, P.get(d_, ('param', d_))) for c_ in g_[0] for d_ in ('x', 'y'))]
    okr, whyr = (None, 'no rejection depending on x / y found') if not xy else (True, '')
    try:
        for xs_, ys_, even_ in (_model_cells('models', 'x', spec, xc, yc, P) if xy else ()):
            bound_ = _model_bindings(spec, xc, yc, xs_, ys_)
            for dim_, cs_, oth_ in (('x', xs_, ys_), ('y', ys_, xs_)):
                lo_, hi_ = min(cs_), max(cs_)
                for v_ in (lo_, hi_, (lo_ + hi_) / 2, lo_ + (hi_ - lo_) / 7, Fraction(lo_) - Fraction(1, 2), Fraction(hi_) + Fraction(1, 2)):
                    env_ = {dim_: Fraction(v_), ('y' if dim_ == 'x' else 'x'): Fraction(oth_[1]), '__terms__': bound_}
                    rejected = any(all(eval_cond(c_, env_) for c_ in g_[0]) for g_ in xy)
                    if rejected != (not lo_ <= v_ <= hi_) and okr:
                        okr, whyr = False, 'on a raster with x coordinates %s and y coordinates %s an observer at %s is %s' % (
                            xs_, ys_, ', '.join('%s=%s' % kv for kv in sorted(env_.items()) if kv[0] != '__terms__'),
                            'rejected although it lies inside the extent' if rejected else 'accepted although it lies outside')
    except (ValueError, KeyError, TypeError, ZeroDivisionError) as e_:
        okr, whyr = None, 'rejection conditions not evaluable: %s' % e_
    rep.add('T8', cpu, entry, 'observer positions accepted: exactly those inside the coordinate extent', line, okr,
            'the extent is [min, max] of the coordinates, which may run either way (rows of a north-up raster run from the largest y down); ' + whyr)
    # T10: observer elevation widened before the addition; float64 terrain; target height
    oname = next((p for p in cpu.params if 'observer' in p or p == 'observer_elev'), None)
    got = b.get('vp_elev')
    ok, why = None, ''
    if got is not None and oname is not None:
        row, col = b.get('vp_row'), b.get('vp_col')
        wants = [spec('%s(raster.values[r, c]) + o' % fn, r=row, c=col, o=P[oname]) for fn in ('float', 'np.float64')]
        wants += [spec('%s(raster.values.astype(np.float64)[r, c]) + o' % fn, r=row, c=col, o=P[oname]) for fn in ('float',)]
        wants += [spec('raster.values.astype(np.float64)[r, c] + o', r=row, c=col, o=P[oname])]
        raw = spec('raster.values[r, c] + o', r=row, c=col, o=P[oname])
        if any(key(got) == key(x) for x in wants):
            ok = True
        elif key(got) == key(raw):
            ok, why = False, 'the terrain value is added in its own (possibly narrow integer) dtype'
        else:
            why = 'got %s' % tshow(got, 200)
    rep.add('T10', cpu, entry, 'vp_elev = float(terrain[row, col]) + observer_elev', line, ok,
            'the observer elevation must be formed in floating point: terrain value widened BEFORE observer_elev is added '
            '(uint8 250 + 10 wraps to 4); ' + why)
    tname = next((p for p in cpu.params if 'target' in p), None)
    got = b.get('vp_target')
    okt, whyt = None, 'target height argument not found'
    if got is not None and tname is not None:
        try:
            res = [(x, eval_term(got, {tname: Fraction(x)})) for x in (-3, 0, 5, Fraction(1, 2))]
            okt = all(g == max(x, 0) for x, g in res)
            whyt = 'target_elev -> height: %s' % [(str(a_), str(b_)) for a_, b_ in res]
        except ValueError as e:
            okt, whyt = None, str(e)
    rep.add('T10', cpu, entry, 'target height applied when positive', line, okt,
            'the target height added to every cell is target_elev when positive, else 0; ' + whyt)
    got = b.get('raster')
    want = spec('raster.values.astype(np.float64)')
    ok = key(got) == key(want) if got is not None else None
    if got is not None and not ok:
        ok = False if key(got) == key(spec('raster.values')) else None
        if isinstance(got, tuple) and got[0] == 'cast' and key(got[1]) == key(spec('raster.values')):
            # the terrain cast to a dtype named by value: float64 in any spelling is the documented widening, any other
            # named dtype (float32: 1000.7 is not representable, near-ties flip) is not
            F64 = {key(spec(t_)) for t_ in ('np.float64', 'float', "'f8'", "'float64'", "'d'", 'np.double', "np.dtype('float64')", "np.dtype(np.float64)")}
            OTHER = {key(spec(t_)) for t_ in ('np.float32', "'f4'", "'float32'", "'f'", 'np.single', 'np.float16', 'np.int64', 'np.int32', 'int',
                                              "np.dtype('float32')", "np.dtype(np.float32)")}
            ok = True if key(got[2]) in F64 else (False if key(got[2]) in OTHER else None)
    rep.add('T10', cpu, entry, 'kernels receive float64 terrain', line, ok,
            'the event generation and the sweep work on float64 values; got %s' % (tshow(got, 120) if got is not None else None))
    # T6: the remaining kernel arguments are the arrays the event pass filled
    initf = m.funcs.get('_init_event_list')
    inits = [c for c in w.calls if isinstance(c.callee, Func) and c.callee is initf and c.bound]
    ok = None
    if len(inits) == 1:
        ib = {c_: inits[0].bound.get(p_) for c_, p_ in zip(('event_list', 'raster', 'vp_row', 'vp_col', 'data', 'visibility_grid'), initf.params)}
        ok = key(ib.get('vp_row')) == key(b.get('vp_row')) and key(ib.get('vp_col')) == key(b.get('vp_col')) and \
            key(ib.get('raster')) == key(b.get('raster')) and key(ib.get('data')) == key(b.get('data')) and \
            key(ib.get('visibility_grid')) == key(b.get('visibility_grid'))
    rep.add('T6', cpu, entry, 'event pass and sweep share the viewpoint cell, the terrain and the work arrays', line, ok, '')
    # T7: events sorted by angle, ties by type; rcts / aes split of the sorted list
    ls = [c for c in w.calls if c.name.endswith('lexsort')]
    ok, why = None, '%d lexsort calls' % len(ls)
    if len(ls) == 1 and len(inits) == 1 and ls[0].args:
        ev = inits[0].bound['event_list']
        want = spec('(ev[:, E_TYPE_ID], ev[:, E_ANG_ID])', ev=ev)
        sw_ = spec('(ev[:, E_ANG_ID], ev[:, E_TYPE_ID])', ev=ev)
        ok, why = verdict(ls[0].args[0], want, sw_)
        if ok is False:
            why = 'the keys are exchanged: the LAST lexsort key is the primary one'
        if ok:
            srt = spec('ev[k]', ev=ev, k=ls[0].result)
            ok = mentions(b.get('event_rcts'), srt) and mentions(b.get('event_aes'), srt) and \
                key(b.get('event_rcts')[2][0] if b.get('event_rcts')[0] == 'call' and b.get('event_rcts')[2] else None) == key(spec('s[:, :3]', s=srt)) and \
                key(b.get('event_aes')[2][0] if b.get('event_aes')[0] == 'call' and b.get('event_aes')[2] else None) == key(spec('s[:, 3:]', s=srt))
            why = 'rcts = sorted[:, :3], aes = sorted[:, 3:]' if ok else 'the sweep does not receive the (:3 / 3:) split of the sorted events'
            if not ok:
                # a column slice of the sorted list with other constant bounds is a wrong split; anything else is not understood
                def colslice(t_):
                    a_ = t_[2][0] if t_ is not None and t_[0] == 'call' and t_[2] else None
                    if a_ is not None and a_[0] == 'index' and key(a_[1]) == key(srt) and a_[2][0] == 'tuple' and len(a_[2][1]) == 2 and \
                            a_[2][1][1][0] == 'slice':
                        return a_[2][1][1]
                    return None
                s1, s2 = colslice(b.get('event_rcts')), colslice(b.get('event_aes'))
                ok = False if (s1 is not None and s2 is not None) else None
    rc, ae = b.get('event_rcts'), b.get('event_aes')
    okd = None
    if rc is not None and ae is not None and rc[0] == 'call' and ae[0] == 'call':
        okd = dict(rc[3]).get('dtype') == ('global', 'np.int64') and dict(ae[3]).get('dtype') == ('global', 'np.float64')
    rep.add('T4', cpu, 'viewshed records', 'event split [:, :3] -> int64 / [:, 3:] -> float64', line, (okd if ok else ok),
            'row/col/type go to the integer half, angle and elevations to the float half')
    rep.add('T7', cpu, entry, 'lexsort((type, angle)) then split', ls[0].node.lineno if ls else line, ok,
            'events are ordered by angle (last lexsort key = primary) and, for equal angles, by type; ' + why)


def _one(r):
    if isinstance(r, Rat) and r.d.is_const() and len(r.n.t) == 1:
        (mm, c), = r.n.t.items()
        if len(mm) == 1 and mm[0][1] == 1 and isinstance(mm[0][0], App) and c == r.d.const_value():
            return mm[0][0]
    return None


def _pos_multiple(a, b):
    if a == b:
        return True
    if b.n.is_zero() or a.n.is_zero():
        return False
    r = a / b
    return r.is_const() and r.const_value() > 0


def check_sweep_skeleton(prog, rep, m):
    """T11: structural premises of the sweep (not its correctness), on the interpreted kernel: every node field is the
    matching helper applied to the matching event position / elevation (expected values are built by interpreting the
    same helpers on symbolic arguments), the 2*pi fix-ups keep a node's three angles ordered for cells straddling
    bearing 0, and each event type is dispatched to insert / delete / query with the right keys."""
    from ..kai import Arr, cond_key, cond_repr
    from ..kutil import Spec, guard_atoms
    from ..sym import subst
    entry = 'viewshed sweep'
    f = m.funcs.get('_viewshed_cpu_sweep')
    if f is None:
        raise AnalysisIncomplete('_viewshed_cpu_sweep not found')
    k = interpret(prog, f, strict=False, inline_all=_is_phase)
    C = {n: const(v[0]) for n, v in m.assigns.items() if len(v) == 1 and isinstance(const(v[0]), (int, float))}
    need = ['ENTERING_EVENT', 'EXITING_EVENT', 'CENTER_EVENT', 'E_ROW_ID', 'E_COL_ID', 'E_TYPE_ID', 'AE_ANG_ID', 'AE_ELEV_0', 'AE_ELEV_1',
            'AE_ELEV_2', 'TN_KEY_ID', 'TN_GRAD_0', 'TN_GRAD_1', 'TN_GRAD_2', 'TN_ANG_0', 'TN_ANG_1', 'TN_ANG_2']
    if any(n not in C for n in need):
        raise AnalysisIncomplete('viewshed constants missing')
    P = f.params
    if len(P) < 11:
        raise AnalysisIncomplete('_viewshed_cpu_sweep: unexpected signature')
    raster, vp_row, vp_col, vp_elev, vp_target, ew_res, ns_res, rcts, aes, data, grid = P[:11]
    roles = sweep_roles(prog, m)
    ev = k.events
    # the event loop: over all events
    Le = None
    for L in k.loops:
        if L.kind == 'range' and L.lo == Rat.const(0) and _one(L.hi) is not None and _one(L.hi).name in ('len', 'shape') and \
                (rcts in repr(_one(L.hi).args[0]) or aes in repr(_one(L.hi).args[0])):
            Le = L
    if Le is None:
        rep.add('T11', f, entry, 'event loop', f.node.lineno, None, 'loop over all events not found')
        return
    i = Rat.sym(Le.var)

    def rc(fld):
        return Rat.atom(App('read', [rcts, i, Rat.const(C[fld])]))

    def ae(fld):
        return Rat.atom(App('read', [aes, i, Rat.const(C[fld])]))
    ETY = _one(rc('E_TYPE_ID'))
    node_arrs = {e[1].arr for e in ev if e[0] == 'store' and e[1].loops and e[1].loops[0] is Le and len(e[1].idx) == 1 and
                 not isinstance(e[1].idx, str) and e[1].arr.name not in (rcts, aes)}
    if len(node_arrs) != 1:
        rep.add('T11', f, entry, 'status node', Le.node.lineno, None, 'status node array not identified')
        return
    node = next(iter(node_arrs))

    def expected(R, Cc, E0, E1, E2):
        """the fields of a node for the cell (R, Cc) with elevations E0/E1/E2, by interpreting the helpers"""
        env = {'R__': R, 'C__': Cc, 'E0__': E0, 'E1__': E1, 'E2__': E2}
        for p in (vp_row, vp_col, vp_elev, vp_target, ew_res, ns_res):
            env[p] = Rat.sym(p)
        sp = Spec(prog, env, m)
        H = {n_: m.funcs.get(n_) for n_ in ('_calc_event_pos', '_calculate_angle', '_calc_event_grad', '_calc_dist_n_grad')}
        if any(v_ is None for v_ in H.values()):
            raise AnalysisIncomplete('viewshed geometry helpers not found')
        vr, vc, ve_, ew_, ns_, vt = vp_row, vp_col, vp_elev, ew_res, ns_res, vp_target
        lines = []
        for n_, et_, el_ in ((0, 'ENTERING_EVENT', 'E0__'), (1, 'CENTER_EVENT', 'E1__'), (2, 'EXITING_EVENT', 'E2__')):
            lines.append('ay%d, ax%d = %s' % (n_, n_, roles.call(H['_calc_event_pos'], etype=et_, row='R__', col='C__', vrow=vr, vcol=vc)))
            lines.append('A%d = %s' % (n_, roles.call(H['_calculate_angle'], col='ax%d' % n_, row='ay%d' % n_, vcol=vc, vrow=vr)))
            if n_ == 1:
                lines.append('K1, G1 = %s' % roles.call(H['_calc_dist_n_grad'], row='R__', col='C__', elev=el_, vrow=vr, vcol=vc, velev=ve_, ew=ew_, ns=ns_))
            else:
                lines.append('G%d = %s' % (n_, roles.call(H['_calc_event_grad'], row='ay%d' % n_, col='ax%d' % n_, elev=el_, vrow=vr, vcol=vc,
                                                          velev=ve_, ew=ew_, ns=ns_)))
        lines.append('KT, GT = %s' % roles.call(H['_calc_dist_n_grad'], row='R__', col='C__', elev='E1__ + %s' % vt, vrow=vr, vcol=vc, velev=ve_,
                                                ew=ew_, ns=ns_))
        sp.run('\n'.join(lines) + '\n')
        return {n: sp.it.as_scalar(sp[n]) for n in ('A0', 'G0', 'A1', 'K1', 'G1', 'A2', 'G2', 'KT', 'GT')}
    try:
        X = expected(rc('E_ROW_ID'), rc('E_COL_ID'), ae('AE_ELEV_0'), ae('AE_ELEV_1'), ae('AE_ELEV_2'))
    except AnalysisIncomplete as e:
        rep.add('T11', f, entry, 'expected node fields', f.node.lineno, None, 'helpers not interpretable: %s' % e)
        return
    ANG = ae('AE_ANG_ID')
    ENTER, EXIT, CENTER = C['ENTERING_EVENT'], C['EXITING_EVENT'], C['CENTER_EVENT']

    def is_type_test(g):
        ats = guard_atoms([g])
        return ETY in ats and all(a == ETY or (isinstance(a, Sym) and a.name == Le.var) for a in ats)

    def under(guards, ety):
        """do the guards hold for an event of this type (other conditions taken as satisfiable: only type tests decide)"""
        for g in guards:
            if is_type_test(g):
                try:
                    if not eval_cond_full(g, {ETY: Fraction(ety)}):
                        return False
                except CannotEvaluate:
                    return False
        return True

    def type_only(guards):
        return [g for g in guards if not is_type_test(g)]
    in_loop = [(j, e) for j, e in enumerate(ev) if (e[0] == 'store' and e[1].loops and e[1].loops[0] is Le) or
               (e[0] == 'call' and e[1][4] and e[1][4][0] is Le)]
    fix_type = lambda v, ety: subst(v, lambda a: Rat.const(ety) if a == ETY else None) if isinstance(v, Rat) else v
    # ---- pre-dispatch: key and centre gradient with the target height
    pre = {}
    for j, e in in_loop:
        if e[0] == 'store' and e[1].arr is node and not e[1].guards:
            pre[repr(e[1].idx[0])] = e[1].value
    okpre = pre.get(repr(Rat.const(C['TN_KEY_ID']))) == X['KT'] and pre.get(repr(Rat.const(C['TN_GRAD_1']))) == X['GT']
    rep.add('T11', f, entry, 'every event: distance key and centre gradient of the cell, target height included', Le.node.lineno, okpre,
            'before the dispatch the node carries the squared distance of the cell and the gradient of its centre elevation plus the '
            'target height (the query and the delete use them)')
    # ---- ENTER
    ent = [(j, e) for j, e in in_loop if under(e[1].guards if e[0] == 'store' else e[1][2], ENTER) and
           (e[1].guards if e[0] == 'store' else e[1][2]) and not under(e[1].guards if e[0] == 'store' else e[1][2], EXIT)]
    last = {}
    fixups = []
    for j, e in ent:
        if e[0] == 'store' and e[1].arr is node:
            extra = type_only(e[1].guards)
            if not extra:
                last[repr(e[1].idx[0])] = fix_type(e[1].value, ENTER)
            else:
                fixups.append((e[1], extra))
    want = {'TN_ANG_0': ANG, 'TN_ANG_1': X['A1'], 'TN_ANG_2': X['A2'], 'TN_GRAD_0': X['G0'], 'TN_KEY_ID': X['K1'],
            'TN_GRAD_1': X['G1'], 'TN_GRAD_2': X['G2']}
    wrong = [n for n, v in want.items() if last.get(repr(Rat.const(C[n]))) != v]
    rep.add('T11', f, entry, 'ENTER: enter/centre/exit angles and gradients from the matching elevations', Le.node.lineno, not wrong,
            'field k of the inserted node must be the helper for event k applied to the position of event k and elevation k (enter '
            'angle = the event\'s own angle; key and centre gradient without the target height): wrong %s' % wrong)
    # 2*pi fix-ups
    twopi = Rat.const(2) * Rat.sym('pi')
    okfix = len(fixups) == 3
    whyfix = '%d conditional node stores' % len(fixups)
    seen = set()
    A0cells = lambda r: _one(r) is not None and _one(r).name in ('read', 'cell?') and _one(r).args[0] == node.name and \
        _one(r).args[1] == Rat.const(C['TN_ANG_0'])
    for st, extra in fixups:
        fl = []
        for g in extra:
            fl.extend(g[1:] if g[0] == 'and' else [g])
        side = None
        strad = False
        for g in fl:
            ats = guard_atoms([g])
            if _one(ANG) in ats and all(a == _one(ANG) or (isinstance(a, Sym) and a.name in ('pi', Le.var)) for a in ats):
                try:
                    lo = eval_cond_full(g, {_one(ANG): Fraction(1)})
                    hi = eval_cond_full(g, {_one(ANG): Fraction(4)})
                    side = 'low' if lo and not hi else 'high' if hi and not lo else None
                except CannotEvaluate:
                    side = None
            elif g[0] == 'cmp' and g[1] == '<' and any(_pos_multiple(g[3], X['A1'] - a0) for a0 in
                                                      [ANG] + [Rat.atom(a) for a in ats if A0cells(Rat.atom(a))]):
                strad = True
        fld = st.idx[0]
        v = fix_type(st.value, ENTER)
        if fld == Rat.const(C['TN_ANG_0']):
            okv = v == ANG - twopi or (_one(v + twopi) is not None and A0cells(v + twopi))
            exp_side = 'low'
        elif fld == Rat.const(C['TN_ANG_1']):
            okv = v == X['A1'] + twopi
            exp_side = 'high'
        elif fld == Rat.const(C['TN_ANG_2']):
            okv = v == X['A2'] + twopi
            exp_side = 'high'
        else:
            okv, exp_side = False, None
        seen.add(repr(fld))
        if not (okv and strad and side == exp_side and len(fl) == 2):
            okfix = False
            whyfix = 'field %s: value ok %s, straddle test %s, half-plane %s (expected %s)' % (show(fld), okv, strad, side, exp_side)
    if okfix and len(seen) != 3:
        okfix, whyfix = False, 'fields %s' % sorted(seen)
    rep.add('T11', f, entry, 'ENTER: 2*pi fix-up for cells straddling bearing 0', Le.node.lineno, okfix,
            'when the enter angle exceeds the centre angle the cell straddles bearing 0: before pi the enter angle is '
            'shifted down by 2*pi, afterwards the centre AND exit angles are shifted up by 2*pi, so that enter <= centre <= '
            'exit holds in the frame of the current sweep position; ' + whyfix)
    # insert
    calls_ = [(j, e[1]) for j, e in in_loop if e[0] == 'call']
    ins = [(j, c) for j, c in calls_ if c[0] == '_insert_into_tree']
    okins = False
    tree = None
    if len(ins) == 1:
        j, c = ins[0]
        a = c[1]
        laststore = max([jj for jj, e in ent if e[0] == 'store' and e[1].arr is node] + [-1])
        okins = under(c[2], ENTER) and not under(c[2], EXIT) and not under(c[2], CENTER) and not type_only(c[2]) and len(a) == 5 and \
            isinstance(a[0], Arr) and isinstance(a[1], Arr) and a[4] is node and isinstance(a[3], Rat) and \
            _one(a[3]) is not None and _one(a[3]).name == 'call:_pop' and j > laststore
        tree = (a[0], a[1])
    rep.add('T11', f, entry, 'ENTER: node inserted under a free slot id, after all its fields are set', Le.node.lineno, okins,
            'exactly the entering events insert the finished node, under an id popped from the idle list')
    dele = [(j, c) for j, c in calls_ if c[0] == '_delete_from_tree']
    push = [(j, c) for j, c in calls_ if c[0] == '_push']
    okdel = False
    if len(dele) == 1 and len(push) == 1 and tree is not None:
        j, c = dele[0]
        a = c[1]
        keyat = _one(a[3]) if len(a) == 4 and isinstance(a[3], Rat) else None
        okkey = keyat is not None and keyat.name in ('read', 'cell?') and keyat.args[0] == node.name and keyat.args[1] == Rat.const(C['TN_KEY_ID'])
        # ... or the very value that was just stored there (the local the key was computed into, instead of reading it back)
        okkey = okkey or (len(a) == 4 and isinstance(a[3], Rat) and a[3] == pre.get(repr(Rat.const(C['TN_KEY_ID']))))
        pa = push[0][1][1]
        okpush = len(pa) == 2 and isinstance(pa[1], Rat) and _one(pa[1]) is not None and _one(pa[1]).name == 'unpack' and \
            'call:_delete_from_tree' in repr(_one(pa[1]).args[0]) and _one(pa[1]).args[1] == Rat.const(1)
        okdel = under(c[2], EXIT) and not under(c[2], ENTER) and not under(c[2], CENTER) and not type_only(c[2]) and \
            a[0] is tree[0] and a[1] is tree[1] and okkey and okpush and under(push[0][1][2], EXIT) and not under(push[0][1][2], CENTER)
    rep.add('T11', f, entry, 'EXIT: node deleted by its distance key and its slot recycled', Le.node.lineno, okdel,
            'exactly the exiting events delete the node with the cell\'s distance key from the same tree and push the freed id back')
    # CENTER: query and visibility
    inl = getattr(k, 'inlined', [])
    # the query: the call whose value is the tree search's result - the search function called directly (recorded as a
    # call or inlined) or through a wrapper that only adds the empty-tree case
    SEARCH = '_find_max_value_within_key'
    q = [r for r in inl if r[0].name != SEARCH and any(getattr(x, 'name', '') == SEARCH for x in _callees_of(prog, r[0]))]
    if not q:
        q = [r for r in inl if r[0].name == SEARCH]
    if not q:
        # recorded (not inlined) call of the search: (func, args, kws, value) with the value the call's result atom
        for j_, c_ in calls_:
            if c_[0] == SEARCH:
                res_ = [a_ for e_ in in_loop for a_ in walk_atoms(e_[1]) if isinstance(a_, App) and a_.name.startswith('call:' + SEARCH)]
                q.append((m.funcs[SEARCH], c_[1], c_[5] if len(c_) > 5 else {}, Rat.atom(res_[0]) if res_ else None))
    vis = [(j, c) for j, c in calls_ if c[0] == '_set_visibility']
    okq = False
    okvis = False
    whyv = ''
    if len(q) == 1 and tree is not None:
        a = q[0][1]
        cellk = lambda r, fld: (isinstance(r, Rat) and _one(r) is not None and _one(r).name in ('read', 'cell?') and
                                _one(r).args[0] == node.name and _one(r).args[1] == Rat.const(C[fld])) or \
            (isinstance(r, Rat) and r == pre.get(repr(Rat.const(C[fld]))))       # the field read back, or the value just stored in it
        okq = len(a) == 6 and a[0] is tree[0] and a[1] is tree[1] and cellk(a[3], 'TN_KEY_ID') and a[4] == ANG and cellk(a[5], 'TN_GRAD_1')
        if len(vis) == 1:
            j, c = vis[0]
            extra = type_only(c[2])
            # the compared maximum: the query's value, or that value with the empty-tree case spelled out around it
            # (`SMALLEST if root == NIL else query`: the constant arm must lie below every gradient, i.e. below -pi/2)
            qvals = [q[0][3]] if q[0][3] is not None else []
            for x in guard_atoms(extra):
                if isinstance(x, App) and x.name == 'ite' and qvals:
                    arms = [x.args[1], x.args[2]]
                    other = [a_ for a_ in arms if not (isinstance(a_, Rat) and a_ == qvals[0])]
                    if len(other) == 1 and isinstance(other[0], Rat) and other[0].is_const() and other[0].const_value() < -2:
                        qvals.append(Rat.atom(x))
            okg = len(extra) == 1 and extra[0][0] == 'cmp' and extra[0][1] == '<=' and any(
                _pos_multiple(extra[0][3], qv - Rat.atom(x)) for qv in qvals for x in guard_atoms(extra)
                if isinstance(x, App) and x.name in ('read', 'cell?') and x.args[0] == node.name and x.args[1] == Rat.const(C['TN_GRAD_1']))
            g1_ = pre.get(repr(Rat.const(C['TN_GRAD_1'])))
            if not okg and isinstance(g1_, Rat) and len(extra) == 1 and extra[0][0] == 'cmp' and extra[0][1] == '<=':
                okg = any(_pos_multiple(extra[0][3], qv - g1_) for qv in qvals)       # compared with the gradient just stored in the node
            va = c[1]
            keys = [x for x in walk_atoms(va[3]) if isinstance(x, App) and x.name in ('read', 'cell?') and x.args[0] == node.name] if len(va) == 4 and isinstance(va[3], Rat) else []
            okva = False
            if len(keys) == 1 and keys[0].args[1] == Rat.const(C['TN_KEY_ID']):
                sp = Spec(prog, {'K__': Rat.atom(keys[0]), 'E1__': ae('AE_ELEV_1'), vp_elev: Rat.sym(vp_elev), vp_target: Rat.sym(vp_target)}, m)
                okva = sp.it.as_scalar(sp.expr(roles.call(m.funcs['_get_vertical_ang'], velev=vp_elev, key='K__', elev='E1__ + %s' % vp_target))) == va[3]
            elif not keys and isinstance(pre.get(repr(Rat.const(C['TN_KEY_ID']))), Rat) and len(va) == 4:
                # the key passed as the local it was computed into: the expectation is built with the value stored in the node
                sp = Spec(prog, {'K__': pre[repr(Rat.const(C['TN_KEY_ID']))], 'E1__': ae('AE_ELEV_1'), vp_elev: Rat.sym(vp_elev),
                                 vp_target: Rat.sym(vp_target)}, m)
                okva = sp.it.as_scalar(sp.expr(roles.call(m.funcs['_get_vertical_ang'], velev=vp_elev, key='K__', elev='E1__ + %s' % vp_target))) == va[3]
            okargs = len(va) == 4 and _param_name(va[0]) == grid and va[1] == rc('E_ROW_ID') and va[2] == rc('E_COL_ID')
            okvis = okg and okva and okargs and under(c[2], CENTER) and not under(c[2], ENTER) and not under(c[2], EXIT)
            whyv = 'condition %s, vertical angle %s, (grid, row, col) %s' % (okg, okva, okargs)
    rep.add('T11', f, entry, 'CENTER: max gradient among nearer cells (key, bearing, own gradient)', Le.node.lineno, okq,
            'the query must use the cell\'s distance key, the event\'s bearing and the cell\'s centre gradient, on the same tree')
    rep.add('T5', f, 'viewshed output', 'visible cells: _set_visibility(grid, row, col, vertical angle) under max gradient <= own gradient',
            Le.node.lineno, okvis, 'a cell is written only for its centre event and when no nearer cell has a greater gradient, at its own '
            'row/col, with the vertical angle from the observer elevation, the squared distance key and the cell elevation plus target '
            'height; ' + whyv)
    # ---- initial sweepline cells (east of the viewpoint, in its row)
    Li = None
    for L in k.loops:
        if L is not Le and L.kind == 'range' and L.lo == Rat.sym(vp_col) + Rat.const(1) and L.hi == Rat.atom(App('shape', [raster, 1])):
            Li = L
    if Li is None:
        rep.add('T11', f, entry, 'initial sweepline cells', f.node.lineno, None, 'loop over the cells east of the viewpoint not found')
        return
    ii = Rat.sym(Li.var)
    d = lambda kk: Rat.atom(App('read', [data, Rat.const(kk), ii]))
    try:
        Y = expected(Rat.sym(vp_row), ii, d(0), d(1), d(2))
    except AnalysisIncomplete as e:
        rep.add('T11', f, entry, 'initial sweepline cells', Li.node.lineno, None, str(e))
        return
    sts = [e[1] for e in ev if e[0] == 'store' and e[1].arr is node and e[1].loops and e[1].loops[0] is Li]
    base = {}
    cond_st = []
    gcommon = None
    for st in sts:
        if gcommon is None:
            gcommon = tuple(cond_key(g) for g in st.guards)
        if tuple(cond_key(g) for g in st.guards) == gcommon:
            base[repr(st.idx[0])] = st.value
        else:
            cond_st.append(st)
    want = {'TN_ANG_0': Y['A0'], 'TN_ANG_1': Y['A1'], 'TN_ANG_2': Y['A2'], 'TN_GRAD_0': Y['G0'], 'TN_KEY_ID': Y['K1'],
            'TN_GRAD_1': Y['G1'], 'TN_GRAD_2': Y['G2']}
    wrong = [n for n, v in want.items() if base.get(repr(Rat.const(C[n]))) != v]
    okfix0 = len(cond_st) == 1 and cond_st[0].idx[0] == Rat.const(C['TN_ANG_0']) and cond_st[0].value == Y['A0'] - twopi and \
        len(cond_st[0].guards) == len(gcommon or ()) + 1 and cond_st[0].guards[-1][0] == 'cmp' and cond_st[0].guards[-1][1] == '<' and \
        any(_pos_multiple(cond_st[0].guards[-1][3], Y['A1'] - a0) for a0 in [Y['A0']] + [Rat.atom(a) for a in guard_atoms(cond_st[0].guards[-1:])
                                                                                if isinstance(a, App) and a.name in ('read', 'cell?') and a.args[0] == node.name])
    insi = [e[1] for e in ev if e[0] == 'call' and e[1][0] == '_insert_into_tree' and e[1][4] and e[1][4][0] is Li]
    nanskip = gcommon is not None and len(gcommon) == 1 and any(isinstance(a, App) and a.name == 'isnan' and a.args[0] == d(1) for a in guard_atoms(sts[0].guards)) if sts else False
    okins0 = len(insi) == 1 and tree is not None and insi[0][1][0] is tree[0] and insi[0][1][1] is tree[1] and insi[0][1][4] is node
    rep.add('T11', f, entry, 'initial sweepline cells: node fields from row elevations, enter angle shifted down by 2*pi, inserted', Li.node.lineno,
            not wrong and okfix0 and okins0 and nanskip,
            'cells on the positive x axis start inside the sweep: their fields come from the three buffered elevation rows at '
            '(viewpoint row, column), their enter angle lies below 0, NaN cells are skipped (wrong fields %s, fix-up %s, insert %s, '
            'NaN skip %s)' % (wrong, okfix0, okins0, nanskip))


def _param_name(a):
    from ..kai import Arr
    if isinstance(a, Arr):
        return a.name
    if isinstance(a, tuple) and a[:1] == ('param',):
        return a[1]
    return None


def check_tree_links(prog, rep, m):
    """T9: structural premises of the status tree (not its correctness).  (a) doubly-linked consistency: in every
    function that rewires the tree, the set of (parent, child) pairs written through LEFT / RIGHT fields equals the set
    written through PARENT fields (a child pointer without the matching parent pointer, or the reverse, corrupts the
    walk to the root that maintains the subtree maxima); (b) the two fix-up routines are mirror-symmetric: the
    arguments of their left rotations are the LEFT<->RIGHT mirror images of the arguments of their right rotations."""
    from ..sym import subst
    entry = 'viewshed status tree'
    C = {n: const(v[0]) for n, v in m.assigns.items() if len(v) == 1 and isinstance(const(v[0]), int)}
    if any(n not in C for n in ('TN_LEFT_ID', 'TN_RIGHT_ID', 'TN_PARENT_ID')):
        raise AnalysisIncomplete('tree field constants missing')
    LEFT, RIGHT, PARENT = Rat.const(C['TN_LEFT_ID']), Rat.const(C['TN_RIGHT_ID']), Rat.const(C['TN_PARENT_ID'])

    def strip(r):
        # a may-alias read is compared by the cell it reads (all reads used here precede the cell's own store)
        def f(a):
            if isinstance(a, App) and a.name == 'cell?':
                return Rat.atom(App('read', [strip(x) if isinstance(x, Rat) else x for x in a.args[:-1]]))
            return None
        return subst(r, f) if isinstance(r, Rat) else r

    def mirror(r):
        def f(a):
            if isinstance(a, App) and a.name in ('read', 'cell?') and len(a.args) >= 3 and a.args[2] in (LEFT, RIGHT):
                args = [mirror(x) if isinstance(x, Rat) else x for x in (a.args if a.name == 'read' else a.args[:-1])]
                args[2] = RIGHT if a.args[2] == LEFT else LEFT
                return Rat.atom(App('read', args))
            if isinstance(a, App) and a.name == 'cell?':
                return Rat.atom(App('read', [mirror(x) if isinstance(x, Rat) else x for x in a.args[:-1]]))
            return None
        return subst(r, f) if isinstance(r, Rat) else r
    for fname in ('_left_rotate', '_right_rotate', '_insert_into_tree', '_delete_from_tree'):
        f = m.funcs.get(fname)
        if f is None:
            raise AnalysisIncomplete('%s not found' % fname)
        k = interpret(prog, f, strict=False)
        child, parent = set(), set()
        shown_c, shown_p = [], []
        for st in k.stores:
            if isinstance(st.idx, str) or len(st.idx) != 2 or not isinstance(st.value, Rat) or st.arr.name != f.params[1]:
                continue
            if st.idx[1] in (LEFT, RIGHT):
                child.add((strip(st.idx[0]).canon_key(), strip(st.value).canon_key()))
                shown_c.append(norm(st.node))
            elif st.idx[1] == PARENT:
                parent.add((strip(st.value).canon_key(), strip(st.idx[0]).canon_key()))
                shown_p.append(norm(st.node))
        ok = bool(child) and child == parent
        rep.add('T9', f, entry, '%s: %d child links, %d parent links' % (fname, len(shown_c), len(shown_p)), f.node.lineno, ok,
                'every `node.left/right = c` must be matched by `c.parent = node` for the same pair and vice versa (child stores %s; '
                'parent stores %s)' % (shown_c, shown_p))
    for fname in ('_rb_insert_fixup', '_rb_delete_fixup'):
        f = m.funcs.get(fname)
        if f is None:
            raise AnalysisIncomplete('%s not found' % fname)
        k = interpret(prog, f, strict=False)
        lefts = sorted(repr(strip(c[1][3]).canon_key()) for c in k.calls if c[0] == '_left_rotate' and len(c[1]) == 4 and isinstance(c[1][3], Rat))
        rights_m = sorted(repr(mirror(c[1][3]).canon_key()) for c in k.calls if c[0] == '_right_rotate' and len(c[1]) == 4 and isinstance(c[1][3], Rat))
        nl = sum(1 for c in k.calls if c[0] == '_left_rotate')
        nr = sum(1 for c in k.calls if c[0] == '_right_rotate')
        ok = nl == nr and nl >= 2 and lefts == rights_m
        rep.add('T9', f, entry, '%s: %d left / %d right rotations, mirror-image arguments' % (fname, nl, nr), f.node.lineno, ok,
                'the fix-up treats "parent is a left child" and "parent is a right child" by mirror-image code: the nodes rotated '
                'left in one half must be the LEFT<->RIGHT mirror images of the nodes rotated right in the other')
        # colour stores are mirror-symmetric too
        COLOR = Rat.const(C.get('TN_COLOR_ID', 0))
        cols = [(strip(st.idx[0]), strip(st.value)) for st in k.stores if not isinstance(st.idx, str) and len(st.idx) == 2 and
                st.idx[1] == COLOR and st.loops and st.arr.name == f.params[1] and isinstance(st.value, Rat)]
        a_ = sorted((repr(n.canon_key()), repr(v.canon_key())) for n, v in cols)
        b_ = sorted((repr(mirror(n).canon_key()), repr(mirror(v).canon_key())) for n, v in cols)
        rep.add('T9', f, entry, '%s: %d recolourings closed under the LEFT<->RIGHT mirror' % (fname, len(cols)), f.node.lineno,
                bool(cols) and a_ == b_, 'every recolouring in one half of the fix-up must have its mirror image in the other half')


def check_query_exits(prog, rep, m):
    """T12: the visibility test in the sweep is `max gradient of nearer cells <= own gradient`.  The tree query may
    return before it has seen every nearer cell only when the caller's answer can no longer change, i.e. when the value
    it returns is already STRICTLY above the queried gradient; an early return on `>=` reports a tie as the maximum
    while a taller blocker is still unseen."""
    entry = 'viewshed status tree'
    f = m.funcs.get('_find_max_value_within_key')
    if f is None:
        raise AnalysisIncomplete('_find_max_value_within_key not found')
    k = interpret(prog, f, strict=False)
    gname = f.params[-1]
    G = Rat.sym(gname)
    n = 0
    for v, guards in k.returns:
        if not isinstance(v, Rat):
            continue
        for g in guards:
            if g[0] != 'cmp' or g[1] not in ('<', '<='):
                continue
            if _pos_multiple(g[3], G - v):
                n += 1
                rep.add('T12', f, entry, 'early return of %s under %s' % (show(v, 50), cond_repr_short(g)), f.node.lineno,
                        g[1] == '<', 'an early return is admissible only when the returned maximum is strictly greater than the '
                        'queried gradient (the caller tests max <= gradient: on a tie it would report the cell visible although a '
                        'taller, not yet visited blocker may exist)')
            elif _pos_multiple(g[3], v - G):
                n += 1
                rep.add('T12', f, entry, 'early return of %s under %s' % (show(v, 50), cond_repr_short(g)), f.node.lineno, False,
                        'a return taken because the running maximum is still below the queried gradient ends the search before the '
                        'nearer cells have been examined')
    return n


def cond_repr_short(g):
    from ..kai import cond_repr
    return cond_repr(g)[:90]


def check(prog, rep):
    m = prog.module('viewshed')
    check_sweep_skeleton(prog, rep, m)
    check_tree_links(prog, rep, m)
    check_query_exits(prog, rep, m)
    check_tables(prog, rep, m)
    check_layouts(prog, rep, m)
    check_encoding(prog, rep, m)
    check_axes(prog, rep, m)
    check_corner_heights(prog, rep, m)
    rep.floor('T14', 2)
    rep.floor('T1', 17)
    rep.floor('T2', 16)
    rep.floor('T3', 2)
    rep.floor('T4', 12)
    rep.floor('T5', 6)
    rep.floor('T6', 5)
    rep.floor('T7', 2)
    rep.floor('T10', 2)
    rep.floor('T11', 7)
    rep.floor('T9', 8)
    rep.floor('T13', 1)
    rep.floor('T12', 2)
