"""C05 - viewshed marks a cell visible exactly when the line-of-sight model says so  (partial: event geometry,
record layouts, output encoding, axis roles, observer elevation; the radial sweep over the augmented red-black tree is
declined).

T1 for all 8 sectors x {ENTER, EXIT} the event position offsets are exactly half the event row/col offsets; T2 the
ENTER / EXIT corner is the first / last of the cell's four corners in the sweep order (exact rational cross products);
T3 the angle function equals atan2(-(dy), dx) mod 2pi on the axis cases and all four quadrants; T4 record layouts:
AE_x == E_x - 3, the [:, :3] / [:, 3:] split, every constant field index inside the allocated width of its array,
field constants unique per record; T5 output encoding: INVISIBLE == -1 fill, observer cell 180, visible cells get the
vertical angle whose three branches are {90}, (0, 90), (90, 180]; T6 ew_res multiplies column differences and ns_res
row differences, resolutions from width-1 / height-1; T7 events sorted by angle then type with EXIT < CENTER < ENTER;
T8 observer cell by nearest-coordinate selection; T10 the observer elevation is formed after widening.
"""
import ast
import math
from fractions import Fraction

from ..astutil import calls, const, kw, short
from ..kai import TupleV, interpret
from ..kutil import CannotEvaluate, evaluate, eval_cond_full, show
from ..program import AnalysisIncomplete, Func, norm
from ..sym import App, Rat, Sym, walk_atoms

SECTORS = [(-1, -1), (-1, 0), (-1, 1), (0, 1), (1, 1), (1, 0), (1, -1), (0, -1)]   # (sign row, sign col) vs viewpoint


def T(n):
    return norm(n).replace(' ', '').replace('\n', '')


def eval_returns(k, env, bind_atan=True):
    """value of the (first) return whose guards hold under env; tuples -> list of Fractions"""
    for _pass in range(3) if bind_atan else ():
        for v, g in k.returns:
            vals = v.items if isinstance(v, TupleV) else [v]
            for x in vals:
                if isinstance(x, Rat):
                    for a in walk_atoms(x):
                        if isinstance(a, App) and a.name in ('arctan', 'sqrt') and a not in env:
                            try:
                                p = float(evaluate(a.args[0], env))
                                env[a] = Fraction(math.atan(p)) if a.name == 'arctan' else Fraction(math.sqrt(p))
                            except (CannotEvaluate, ValueError, ZeroDivisionError):
                                pass
    for v, g in k.returns:
        try:
            if all(eval_cond_full(c, env) for c in g):
                if isinstance(v, TupleV):
                    return [evaluate(x if isinstance(x, Rat) else Rat.sym(x[1]), env) for x in v.items]
                if isinstance(v, Rat):
                    return evaluate(v, env)
                if isinstance(v, tuple) and v and v[0] == 'param':
                    return evaluate(Rat.sym(v[1]), env)
        except CannotEvaluate:
            continue
    return None


def angle_of(dy, dx):
    """sweep angle of a point at (row offset dy, col offset dx) from the viewpoint: atan2(-dy, dx) mod 2pi"""
    a = math.atan2(-float(dy), float(dx))
    return a % (2 * math.pi)


def check_tables(prog, rep, m):
    entry = 'viewshed events'
    fpos = m.funcs.get('_calc_event_pos')
    frc = m.funcs.get('_calculate_event_row_col')
    fang = m.funcs.get('_calculate_angle')
    if fpos is None or frc is None or fang is None:
        raise AnalysisIncomplete('viewshed event helpers not found')
    kpos, krc, kang = interpret(prog, fpos), interpret(prog, frc), interpret(prog, fang)
    ENTER = const(m.assigns['ENTERING_EVENT'][0])
    EXIT = const(m.assigns['EXITING_EVENT'][0])
    CENTER = const(m.assigns['CENTER_EVENT'][0])
    rep.add('T7', m, entry, 'EXITING_EVENT=%s < CENTER_EVENT=%s < ENTERING_EVENT=%s' % (EXIT, CENTER, ENTER), 1,
            EXIT < CENTER < ENTER, 'with equal angles an exit must be processed before a centre and an enter')
    vp = (Fraction(10), Fraction(10))
    P = {n: Sym(n) for n in fpos.params}
    for (sr, sc) in SECTORS:
        er, ec = vp[0] + 3 * sr, vp[1] + 3 * sc
        for et, label in ((ENTER, 'ENTER'), (EXIT, 'EXIT')):
            env = {Sym(fpos.params[0]): Fraction(et), Sym(fpos.params[1]): er, Sym(fpos.params[2]): ec,
                   Sym(fpos.params[3]): vp[0], Sym(fpos.params[4]): vp[1]}
            pos = eval_returns(kpos, dict(env))
            env2 = {Sym(frc.params[0]): Fraction(et), Sym(frc.params[1]): er, Sym(frc.params[2]): ec,
                    Sym(frc.params[3]): vp[0], Sym(frc.params[4]): vp[1]}
            rc = eval_returns(krc, dict(env2))
            site = 'sector (row %+d, col %+d) %s' % (sr, sc, label)
            if pos is None or rc is None:
                rep.add('T1', fpos, entry, site, fpos.node.lineno, None, 'table entry not evaluable')
                continue
            dpos = (pos[0] - er, pos[1] - ec)
            drc = (rc[0] - er, rc[1] - ec)
            ok = dpos[0] * 2 == drc[0] and dpos[1] * 2 == drc[1] and abs(drc[0]) == 1 and abs(drc[1]) == 1
            rep.add('T1', fpos, entry, '%s: position offset %s, neighbour offset %s' % (site, tuple(map(str, dpos)), tuple(map(str, drc))),
                    fpos.node.lineno, ok, 'the event lies on the cell corner shared with the neighbour used for its '
                    'elevation: position offset must be exactly half the row/col offset (both +-1)')
            # T2 geometry: ENTER is the first, EXIT the last corner in sweep order
            corners = [(er + a, ec + b) for a in (Fraction(-1, 2), Fraction(1, 2)) for b in (Fraction(-1, 2), Fraction(1, 2))]
            angs = {}
            for c in corners:
                a = angle_of(c[0] - vp[0], c[1] - vp[1])
                if sr == 0 and sc == 1 and a > math.pi:
                    a -= 2 * math.pi        # the sector on the positive x axis straddles angle 0
                angs[c] = a
            first = min(angs, key=angs.get)
            last = max(angs, key=angs.get)
            want = first if et == ENTER else last
            ok2 = (pos[0], pos[1]) == want
            rep.add('T2', fpos, entry, '%s: corner (%s, %s), expected (%s, %s)' % (site, pos[0] - er, pos[1] - ec, want[0] - er, want[1] - ec),
                    fpos.node.lineno, ok2, 'a cell enters the sweep at its first corner and leaves at its last corner in '
                    'the sweep order (counter-clockwise from the positive x axis, rows growing downwards)')
    # CENTER events sit on the cell itself
    env = {Sym(fpos.params[0]): Fraction(CENTER), Sym(fpos.params[1]): Fraction(7), Sym(fpos.params[2]): Fraction(13),
           Sym(fpos.params[3]): vp[0], Sym(fpos.params[4]): vp[1]}
    pos = eval_returns(kpos, env)
    rep.add('T1', fpos, entry, 'CENTER event position %s' % (pos,), fpos.node.lineno, pos == [Fraction(7), Fraction(13)],
            'the centre event lies on the cell centre')
    # T3 angle function
    bad = []
    n = 0
    for (dy, dx) in [(0, 1), (-1, 1), (-1, 0), (-1, -1), (0, -1), (1, -1), (1, 0), (1, 1), (-2, 5), (3, -7), (Fraction(-5, 2), Fraction(7, 2))]:
        env = {Sym(fang.params[0]): vp[1] + dx, Sym(fang.params[1]): vp[0] + dy, Sym(fang.params[2]): vp[1], Sym(fang.params[3]): vp[0]}
        got = eval_returns(kang, env)
        want = angle_of(dy, dx)
        n += 1
        if got is None or abs(float(got) - want) > 1e-9:
            bad.append(((str(dy), str(dx)), None if got is None else round(float(got), 6), round(want, 6)))
    rep.add('T3', fang, entry, 'angle function at %d directions' % n, fang.node.lineno, not bad,
            'the sweep angle of (x, y) must be atan2(-(y - vy), x - vx) mod 2pi (5 axis cases + 4 quadrants); mismatches '
            '((dy, dx), got, want): %s' % bad[:4])
    # call sites pass (x, y) = (col, row)
    okc = True
    nsites = 0
    for f in m.funcs.values():
        for c in calls(f.node):
            if c in f.own_nodes() and short(c) == '_calculate_angle':
                nsites += 1
                if [T(a) for a in c.args] != ['ax', 'ay', 'vp_col', 'vp_row']:
                    okc = False
            if c in f.own_nodes() and short(c) == '_calc_event_pos':
                p = pm_assign_target(f, c)
                if p is not None and p != ['ay', 'ax']:
                    okc = False
    rep.add('T3', m, entry, '%d angle call sites pass (ax, ay, vp_col, vp_row); positions unpacked as (ay, ax)' % nsites, 1,
            okc and nsites >= 6, 'x is the column coordinate and y the row coordinate at every call site')


def pm_assign_target(f, call):
    for n in f.own_nodes():
        if isinstance(n, ast.Assign) and n.value is call and isinstance(n.targets[0], ast.Tuple):
            return [T(e) for e in n.targets[0].elts]
    return None


def check_layouts(prog, rep, m):
    entry = 'viewshed records'
    consts = {n: const(v[0]) for n, v in m.assigns.items() if len(v) == 1 and isinstance(const(v[0]), int)}
    fam = {'E': ['E_ROW_ID', 'E_COL_ID', 'E_TYPE_ID', 'E_ANG_ID', 'E_ELEV_0', 'E_ELEV_1', 'E_ELEV_2'],
           'AE': ['AE_ANG_ID', 'AE_ELEV_0', 'AE_ELEV_1', 'AE_ELEV_2'],
           'TNV': ['TN_KEY_ID', 'TN_GRAD_0', 'TN_GRAD_1', 'TN_GRAD_2', 'TN_ANG_0', 'TN_ANG_1', 'TN_ANG_2', 'TN_MAX_GRAD_ID'],
           'TNS': ['TN_COLOR_ID', 'TN_LEFT_ID', 'TN_RIGHT_ID', 'TN_PARENT_ID']}
    for fname, names in fam.items():
        vals = [consts.get(n) for n in names]
        ok = None not in vals and sorted(vals) == list(range(len(names)))
        rep.add('T4', m, entry, 'record %s fields %s' % (fname, dict(zip(names, vals))), 1, ok,
                'field indices of one record must be distinct and contiguous from 0')
    for a, e in (('AE_ANG_ID', 'E_ANG_ID'), ('AE_ELEV_0', 'E_ELEV_0'), ('AE_ELEV_1', 'E_ELEV_1'), ('AE_ELEV_2', 'E_ELEV_2')):
        ok = consts.get(a) is not None and consts.get(e) is not None and consts[a] == consts[e] - 3
        rep.add('T4', m, entry, '%s == %s - 3' % (a, e), 1, ok, 'the float half of an event is the event record from column 3 on')
    cpu = m.funcs.get('_viewshed_cpu')
    t = {T(s) for s in cpu.own_nodes() if isinstance(s, ast.Assign)}
    ok = 'event_rcts=np.array(event_list[:,:3],dtype=np.int64)' in t and 'event_aes=np.array(event_list[:,3:],dtype=np.float64)' in t
    rep.add('T4', cpu, entry, 'event split [:, :3] / [:, 3:]', cpu.node.lineno, ok, 'row/col/type go to the integer half, angle and elevations to the float half')
    ok = consts.get('E_TYPE_ID') == 2 and consts.get('E_ANG_ID') == 3
    rep.add('T4', m, entry, 'E_TYPE_ID is the last integer field, E_ANG_ID the first float field', 1, ok, '')
    # widths of the arrays that the constants index
    widths = {}
    for f in m.funcs.values():
        for n in f.own_nodes():
            if isinstance(n, ast.Assign) and isinstance(n.targets[0], ast.Name) and isinstance(n.value, ast.Call) and \
                    short(n.value) == 'zeros' and n.value.args:
                shp = const(n.value.args[0]) if not isinstance(n.value.args[0], ast.Tuple) else None
                a0 = n.value.args[0]
                if isinstance(a0, ast.Tuple) and isinstance(const(a0.elts[-1]), int):
                    widths[n.targets[0].id] = const(a0.elts[-1])
    need = {'event_list': 7, 'status_values': 8, 'status_struct': 4, 'status_node': 7, 'e': 7}
    for name, w in need.items():
        rep.add('T4', m, entry, 'array %s allocated with width %s' % (name, widths.get(name)), 1, widths.get(name) == w,
                'record width must cover every field index used on it (needs %d)' % w)
    # every constant subscript on these arrays within bounds
    limit = {'e': ('E', 7), 'e_rct': ('E', 3), 'e_ae': ('AE', 4), 'status_node': ('TNV', 7), 'node_value': ('TNV', 8)}
    nsub = 0
    bad = []
    for f in m.funcs.values():
        for n in f.own_nodes():
            if isinstance(n, ast.Subscript) and isinstance(n.value, ast.Name) and n.value.id in limit and isinstance(n.slice, ast.Name):
                c = consts.get(n.slice.id)
                famname, w = limit[n.value.id]
                nsub += 1
                if c is None or c >= w or n.slice.id not in fam[famname]:
                    bad.append('%s[%s] in %s' % (n.value.id, n.slice.id, f.qualname))
    rep.add('T4', m, entry, '%d constant field subscripts checked' % nsub, 1, not bad and nsub >= 40,
            'a field constant must belong to the record it indexes and lie inside its width: %s' % bad[:5])


def check_encoding(prog, rep, m):
    entry = 'viewshed output'
    consts = {n: const(v[0]) for n, v in m.assigns.items() if len(v) == 1}
    rep.add('T5', m, entry, 'INVISIBLE = %s' % consts.get('INVISIBLE'), 1, consts.get('INVISIBLE') == -1, 'invisible cells are -1')
    cpu = m.funcs.get('_viewshed_cpu')
    t = [T(s) for s in cpu.own_nodes() if isinstance(s, (ast.Assign, ast.Expr))]
    ok = 'visibility_grid.fill(INVISIBLE)' in t and 'visibility_grid=np.empty(shape=raster.shape,dtype=np.float64)' in t
    rep.add('T5', cpu, entry, 'visibility grid filled with INVISIBLE', cpu.node.lineno, ok, 'every cell starts invisible')
    init = m.funcs.get('_init_event_list')
    ok = any(isinstance(n, ast.If) and T(n.test) == 'i==vp_rowandj==vp_col' and
             any(T(s) == '_set_visibility(visibility_grid,i,j,180)' for s in n.body) and isinstance(n.body[-1], ast.Continue)
             for n in init.own_nodes())
    rep.add('T5', init, entry, 'observer cell = 180 and generates no events', init.node.lineno, ok, '')
    sv = m.funcs.get('_set_visibility')
    ok = sv is not None and any(T(s) == 'visibility_grid[i][j]=value' or T(s) == 'visibility_grid[i,j]=value' for s in sv.own_nodes())
    rep.add('T5', sv or m, entry, '_set_visibility stores at [i][j]', sv.node.lineno if sv else 1, ok, '')
    sweep = m.funcs.get('_viewshed_cpu_sweep')
    stores = [c for c in calls(sweep.node) if short(c) == '_set_visibility']
    ok = len(stores) == 1 and [T(a) for a in stores[0].args] == ['visibility_grid', 'status_row', 'status_col', 'vert_ang']
    vis = [n for n in sweep.own_nodes() if isinstance(n, ast.If) and T(n.test) in ('max<=status_node[TN_GRAD_1]',)]
    ok = ok and len(vis) == 1 and stores[0] in list(ast.walk(vis[0]))
    rep.add('T5', sweep, entry, 'visible cells: _set_visibility(grid, row, col, vertical angle) under max gradient <= own gradient',
            sweep.node.lineno, ok, 'a cell is written only when no nearer cell has a greater gradient, with its own row/col')
    va = [n for n in sweep.own_nodes() if isinstance(n, ast.Assign) and T(n.targets[0]) == 'vert_ang']
    ok = len(va) == 1 and T(va[0].value) == '_get_vertical_ang(vp_elev,status_node[TN_KEY_ID],e_ae[AE_ELEV_1]+vp_target)'
    rep.add('T5', sweep, entry, norm(va[0])[:120] if va else 'vertical angle', sweep.node.lineno, ok,
            'the vertical angle is taken from the observer elevation, the squared distance key and the cell elevation plus target height')
    # _get_vertical_ang branches
    f = m.funcs.get('_get_vertical_ang')
    k = interpret(prog, f)
    ve, d2, el = [Sym(p) for p in f.params[:3]]
    bad = []
    n = 0
    for (dv, dist2) in [(0, 4), (3, 16), (-3, 16), (Fraction(1, 2), 100), (-50, 1), (50, 1)]:
        env = {ve: Fraction(100), el: Fraction(100) - dv, d2: Fraction(dist2)}
        got = eval_returns(k, env)
        # dv = viewpoint - elev: >0 cell below observer -> angle in (0, 90); <0 above -> (90, 180)
        want = 90.0 if dv == 0 else (math.degrees(math.atan(math.sqrt(dist2) / float(dv))) if dv > 0
                                     else math.degrees(math.atan(abs(float(dv)) / math.sqrt(dist2))) + 90)
        n += 1
        if got is None or abs(float(got) - want) > 1e-6:
            bad.append((str(dv), dist2, None if got is None else round(float(got), 4), round(want, 4)))
    rep.add('T5', f, entry, 'vertical angle at %d cases' % n, f.node.lineno, not bad,
            'level = 90, below the observer atan(dist / dz) in (0, 90), above atan(dz / dist) + 90 in (90, 180), with dist = '
            'sqrt(squared distance); mismatches (dz, dist2, got, want): %s' % bad[:3])


def check_axes(prog, rep, m):
    entry = 'viewshed geometry'
    for fn in ('_calc_event_grad', '_calc_dist_n_grad'):
        f = m.funcs.get(fn)
        t = {T(s) for s in f.own_nodes() if isinstance(s, ast.Assign)}
        rowp, colp = f.params[0], f.params[1]
        ok = 'dx=(%s-viewpoint_col)*ew_res' % colp in t and 'dy=(%s-viewpoint_row)*ns_res' % rowp in t and \
            'distance_to_viewpoint=dx*dx+dy*dy' in {x.replace('(', '').replace(')', '') for x in t} and \
            'diff_elev=elev-viewpoint_elev' in t
        rep.add('T6', f, entry, '%s: dx = dcol * ew_res, dy = drow * ns_res, dist2 = dx^2 + dy^2' % fn, f.node.lineno, ok,
                'the east-west resolution scales column differences and the north-south resolution row differences')
        ok = any(T(s.value) == 'atan(diff_elev/sqrt(distance_to_viewpoint))' for s in f.own_nodes() if isinstance(s, ast.Assign))
        rep.add('T6', f, entry, '%s: gradient = atan(dz / dist)' % fn, f.node.lineno, ok, 'the gradient is the elevation angle of the point')
    cpu = m.funcs.get('_viewshed_cpu')
    t = {T(s) for s in cpu.own_nodes() if isinstance(s, ast.Assign)}
    ok = 'ew_res=(x_range[1]-x_range[0])/(width-1)' in t and 'ns_res=(y_range[1]-y_range[0])/(height-1)' in t and \
        'height,width=raster.shape' in t and 'x_range=(x_coords[0],x_coords[-1])' in t and 'y_range=(y_coords[0],y_coords[-1])' in t
    rep.add('T6', cpu, entry, 'ew_res = dx/(width-1), ns_res = dy/(height-1)', cpu.node.lineno, ok,
            'resolutions from the coordinate extents and the matching axis length')
    sweepcall = [c for c in calls(cpu.node) if short(c) == '_viewshed_cpu_sweep']
    sw = m.funcs.get('_viewshed_cpu_sweep')
    ok = len(sweepcall) == 1 and [T(a) for a in sweepcall[0].args][:7] == ['raster.values', 'viewpoint_row', 'viewpoint_col', 'viewpoint_elev',
                                                                           'viewpoint_target', 'ew_res', 'ns_res'] and \
        sw.params[:7] == ['raster', 'vp_row', 'vp_col', 'vp_elev', 'vp_target', 'ew_res', 'ns_res']
    rep.add('T6', cpu, entry, 'sweep called with (row, col, elev, target, ew_res, ns_res) in the kernel\'s order', cpu.node.lineno, ok, '')
    # T7 sort
    ls = [c for c in calls(cpu.node) if short(c) == 'lexsort']
    ok = len(ls) == 1 and T(ls[0].args[0]) == '(event_list[:,E_TYPE_ID],event_list[:,E_ANG_ID])'
    rep.add('T7', cpu, entry, norm(ls[0])[:100] if ls else 'lexsort', cpu.node.lineno, ok,
            'events are ordered by angle (last lexsort key = primary) and, for equal angles, by type')
    # T8 observer cell
    ok = "selection=raster.sel(x=[x],y=[y],method='nearest')" in t and 'y_view=np.where(y_coords==y)[0][0]' in t and \
        'x_view=np.where(x_coords==x)[0][0]' in t and 'viewpoint_row=y_view' in t and 'viewpoint_col=x_view' in t
    rep.add('T8', cpu, entry, 'observer cell = nearest coordinate on each axis', cpu.node.lineno, ok,
            'the observer stands on the cell whose centre is nearest (row from y, column from x)')
    # T10 widening before the addition
    ve = [s for s in cpu.own_nodes() if isinstance(s, ast.Assign) and T(s.targets[0]) == 'viewpoint_elev']
    ok = False
    if len(ve) == 1 and isinstance(ve[0].value, ast.BinOp) and isinstance(ve[0].value.op, ast.Add):
        l = ve[0].value.left
        ok = isinstance(l, ast.Call) and T(l.func) in ('float', 'np.float64') and T(l.args[0]) in ('raster.values[y_view,x_view]', 'raster.data[y_view,x_view]') \
            and T(ve[0].value.right) == 'observer_elev'
        if not ok:
            # or the raster was widened before
            wid = [s for s in cpu.own_nodes() if isinstance(s, ast.Assign) and T(s) in ('raster.values=raster.values.astype(np.float64)',)]
            ok = bool(wid) and wid[0].lineno < ve[0].lineno and T(l) in ('raster.values[y_view,x_view]',)
    rep.add('T10', cpu, entry, norm(ve[0]) if ve else 'viewpoint_elev', ve[0].lineno if ve else cpu.node.lineno, ok,
            'the observer elevation must be formed in floating point: terrain value widened BEFORE observer_elev is added '
            '(uint8 250 + 10 wraps to 4)')
    tg = any(isinstance(n, ast.If) and T(n.test) == 'target_elev>0' and T(n.body[0]) == 'viewpoint_target=target_elev' for n in cpu.own_nodes())
    rep.add('T10', cpu, entry, 'target height applied when positive', cpu.node.lineno, tg and 'viewpoint_target=0.0' in t, '')
    ok = 'raster.values=raster.values.astype(np.float64)' in t
    rep.add('T10', cpu, entry, 'kernels receive float64 terrain', cpu.node.lineno, ok, 'the event generation and the sweep work on float64 values')


def check_sweep_skeleton(prog, rep, m):
    """T11: structural premises of the sweep (not its correctness): event dispatch insert/delete/query with the right
    keys, node fields filled from the matching event type, and the 2*pi fix-ups that keep a node's three angles ordered
    for cells straddling bearing 0."""
    entry = 'viewshed sweep'
    f = m.funcs.get('_viewshed_cpu_sweep')
    if f is None:
        raise AnalysisIncomplete('_viewshed_cpu_sweep not found')
    A0, A1, A2 = 'status_node[TN_ANG_0]', 'status_node[TN_ANG_1]', 'status_node[TN_ANG_2]'
    # event loop dispatch
    disp = [n for n in f.own_nodes() if isinstance(n, ast.If) and T(n.test) == 'etype==ENTERING_EVENT']
    if len(disp) != 1:
        rep.add('T11', f, entry, 'event dispatch', f.node.lineno, None, '`if etype == ENTERING_EVENT` not found')
        return
    ent = disp[0]
    ex = ent.orelse[0] if ent.orelse and isinstance(ent.orelse[0], ast.If) else None
    ce = ex.orelse[0] if ex is not None and ex.orelse and isinstance(ex.orelse[0], ast.If) else None
    ok = ex is not None and T(ex.test) == 'etype==EXITING_EVENT' and ce is not None and T(ce.test) == 'etype==CENTER_EVENT'
    rep.add('T11', f, entry, 'dispatch ENTER -> insert, EXIT -> delete, CENTER -> query', ent.lineno, ok,
            'each event type must be handled by its own branch')
    if not ok:
        return
    te = [T(s) for s in ast.walk(ent) if isinstance(s, (ast.Assign, ast.AugAssign, ast.Expr))]
    ok = 'id=_pop(idle)' in te and 'root=_insert_into_tree(status_values,status_struct,root,id,status_node)' in te
    rep.add('T11', f, entry, 'ENTER: node inserted under a free slot id', ent.lineno, ok, '')
    tx = [T(s) for s in ast.walk(ex) if isinstance(s, (ast.Assign, ast.Expr))]
    ok = 'root,deleted=_delete_from_tree(status_values,status_struct,root,status_node[TN_KEY_ID])' in tx and '_push(idle,deleted)' in tx
    rep.add('T11', f, entry, 'EXIT: node deleted by its distance key and its slot recycled', ex.lineno, ok, '')
    tc = [T(s) for s in ast.walk(ce) if isinstance(s, (ast.Assign, ast.Expr))]
    ok = 'max=_max_grad_in_status_struct(status_values,status_struct,root,status_node[TN_KEY_ID],e_ae[AE_ANG_ID],status_node[TN_GRAD_1])' in tc
    rep.add('T11', f, entry, 'CENTER: max gradient among nearer cells (key, bearing, own gradient)', ce.lineno, ok,
            'the query must use the cell\'s distance key, the event\'s bearing and the cell\'s centre gradient')
    # node fields from the matching event
    need = ['%s=e_ae[AE_ANG_ID]' % A0, '%s=_calculate_angle(ax,ay,vp_col,vp_row)' % A1, '%s=_calculate_angle(ax,ay,vp_col,vp_row)' % A2,
            'status_node[TN_GRAD_0]=_calc_event_grad(ay,ax,e_ae[AE_ELEV_0],vp_row,vp_col,vp_elev,ew_res,ns_res)',
            'status_node[TN_GRAD_2]=_calc_event_grad(ay,ax,e_ae[AE_ELEV_2],vp_row,vp_col,vp_elev,ew_res,ns_res)',
            'status_node[TN_KEY_ID],status_node[TN_GRAD_1]=_calc_dist_n_grad(status_row,status_col,e_ae[AE_ELEV_1],vp_row,vp_col,vp_elev,ew_res,ns_res)']
    missing = [x for x in need if x not in te]
    rep.add('T11', f, entry, 'ENTER: enter/centre/exit angles and gradients from the matching elevations', ent.lineno, not missing,
            'gradient k must be computed from elevation k at the position of event k: missing %s' % missing[:2])
    # 2*pi fix-ups
    fix = [n for n in ast.walk(ent) if isinstance(n, ast.If) and T(n.test) == 'e_ae[AE_ANG_ID]<PI']
    ok = False
    if len(fix) == 1:
        n = fix[0]
        b = [x for x in n.body if isinstance(x, ast.If)]
        o = [x for x in n.orelse if isinstance(x, ast.If)]
        ok = len(b) == 1 and len(o) == 1 and T(b[0].test) == '%s>%s' % (A0, A1) and [T(x) for x in b[0].body] == ['%s-=2*PI' % A0] and \
            T(o[0].test) == '%s>%s' % (A0, A1) and sorted(T(x) for x in o[0].body) == sorted(['%s+=2*PI' % A1, '%s+=2*PI' % A2])
    rep.add('T11', f, entry, 'ENTER: 2*pi fix-up for cells straddling bearing 0', ent.lineno, ok,
            'when the enter angle exceeds the centre angle the cell straddles bearing 0: before pi the enter angle is '
            'shifted down by 2*pi, afterwards the centre AND exit angles are shifted up by 2*pi, so that enter <= centre <= '
            'exit holds in the frame of the current sweep position')
    init = [n for n in f.own_nodes() if isinstance(n, ast.If) and n not in list(ast.walk(ent)) and T(n.test) == '%s>%s' % (A0, A1)]
    ok = len(init) == 1 and [T(x) for x in init[0].body] == ['%s-=2*PI' % A0]
    rep.add('T11', f, entry, 'initial sweepline cells: enter angle shifted down by 2*pi', f.node.lineno, ok,
            'cells on the positive x axis start inside the sweep: their enter angle lies below 0')
    vis = [n for n in ast.walk(ce) if isinstance(n, ast.If) and T(n.test) == 'max<=status_node[TN_GRAD_1]']
    rep.add('T11', f, entry, 'CENTER: visible iff max gradient of nearer cells <= own gradient', ce.lineno, len(vis) == 1, '')


def check(prog, rep):
    m = prog.module('viewshed')
    check_sweep_skeleton(prog, rep, m)
    check_tables(prog, rep, m)
    check_layouts(prog, rep, m)
    check_encoding(prog, rep, m)
    check_axes(prog, rep, m)
    rep.floor('T1', 17)
    rep.floor('T2', 16)
    rep.floor('T3', 2)
    rep.floor('T4', 12)
    rep.floor('T5', 6)
    rep.floor('T6', 5)
    rep.floor('T7', 2)
    rep.floor('T10', 2)
    rep.floor('T11', 7)
