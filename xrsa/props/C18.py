"""C18 - trim and crop return the minimal window, cells and coordinates intact.

Premises of the bounding-box argument (DESIGN §4 C18), decided structurally on the scan kernels reached from the
public functions: T2 four scans (rows ascending -> top, rows descending -> bottom, columns ascending -> left, columns
descending -> right), each assigning its bound before looking at the line, stopping at the first line holding a kept
cell, scanning the whole line with axis-correct indexing; T1 NaN-aware equality wherever the exclusion list may
contain NaN (trim's default); T3 the result is the basic slice [top:bottom+1, left:right+1] of the right raster.
"""
import ast

from ..astutil import calls, const, parent_map, short
from ..nanq import is_nan_aware_eq, is_plain_eq
from ..program import AnalysisIncomplete, Func, norm

EXPECT = [('R', 'asc'), ('R', 'desc'), ('C', 'asc'), ('C', 'desc')]
BOUND_NAMES = ['top', 'bottom', 'left', 'right']


def shape_names(kern):
    """rows, cols = data.shape  ->  {'rows': 'R', 'cols': 'C'}, data name"""
    for s in kern.node.body:
        if isinstance(s, ast.Assign) and isinstance(s.targets[0], ast.Tuple) and isinstance(s.value, ast.Attribute) \
                and s.value.attr == 'shape' and len(s.targets[0].elts) == 2:
            a, b = s.targets[0].elts
            return {a.id: 'R', b.id: 'C'}, norm(s.value.value)
    raise AnalysisIncomplete('%s: `rows, cols = data.shape` not found' % kern.qualname)


def range_dir(it, ext):
    """range(n) / range(0, n) -> (axis, 'asc'); range(n - 1, -1, -1) -> (axis, 'desc')"""
    if not (isinstance(it, ast.Call) and norm(it.func) in ('range', 'prange', 'nb.prange')):
        return None
    a = it.args
    if len(a) == 1 and isinstance(a[0], ast.Name) and a[0].id in ext:
        return ext[a[0].id], 'asc'
    if len(a) == 2 and const(a[0]) == 0 and isinstance(a[1], ast.Name) and a[1].id in ext:
        return ext[a[1].id], 'asc'
    if len(a) == 3 and const(a[1]) == -1 and const(a[2]) == -1 and isinstance(a[0], ast.BinOp) and \
            isinstance(a[0].op, ast.Sub) and const(a[0].right) == 1 and isinstance(a[0].left, ast.Name) and a[0].left.id in ext:
        return ext[a[0].left.id], 'desc'
    if len(a) == 3 and const(a[0]) == 0 and const(a[2]) == 1 and isinstance(a[1], ast.Name) and a[1].id in ext:
        return ext[a[1].id], 'asc'
    return None


def analyse_scan(prog, rep, kern, entry, loop, ext, data, listparam, mode, earlier=None):
    """one directional scan; returns (axis, direction, bound variable) or None"""
    rd = range_dir(loop.iter, ext)
    site = 'for %s in %s' % (norm(loop.target), norm(loop.iter))
    if rd is None or not isinstance(loop.target, ast.Name):
        rep.add('T2-scan', kern, entry, site, loop.lineno, False, 'outer scan loop must run over all rows or all '
                'columns, ascending or descending to -1')
        return None
    axis, direction = rd
    lv = loop.target.id
    body = loop.body
    # 1. break guard first, on a flag
    flag = None
    gpos = None
    for i, s in enumerate(body):
        if isinstance(s, ast.If) and len(s.body) == 1 and isinstance(s.body[0], ast.Break) and not s.orelse and \
                isinstance(s.test, ast.Name):
            flag, gpos = s.test.id, i
            break
    # 2. bound assignment `b = lv` at top level
    bpos, bound = None, None
    for i, s in enumerate(body):
        if isinstance(s, ast.Assign) and isinstance(s.targets[0], ast.Name) and isinstance(s.value, ast.Name) and s.value.id == lv:
            bpos, bound = i, s.targets[0].id
            break
    inner = [(i, s) for i, s in enumerate(body) if isinstance(s, ast.For)]
    ok = flag is not None and bound is not None and gpos < bpos and len(inner) == 1 and bpos < inner[0][0]
    rep.add('T2-stop', kern, entry, site, loop.lineno, ok,
            'each scan must first stop if a kept cell was already found (`if flag: break`), then record the current '
            'line as its bound, then examine the line: flag=%s bound=%s' % (flag, bound))
    if not ok:
        return axis, direction, bound
    il = inner[0][1]
    ird = range_dir(il.iter, ext)
    other = 'C' if axis == 'R' else 'R'
    if ird is None and earlier and isinstance(il.iter, ast.Call) and norm(il.iter.func) == 'range' and \
            len(il.iter.args) == 2:
        # optimisation: lines outside the already found bounds of the other axis are known to hold no kept cell
        a, b = il.iter.args
        lo_ok = isinstance(a, ast.Name) and a.id == earlier.get((other, 'asc'))
        hi_ok = isinstance(b, ast.BinOp) and isinstance(b.op, ast.Add) and const(b.right) == 1 and \
            isinstance(b.left, ast.Name) and b.left.id == earlier.get((other, 'desc'))
        if lo_ok and hi_ok:
            ird = (other, 'asc')
    rep.add('T2-line', kern, entry, site + ': for %s in %s' % (norm(il.target), norm(il.iter)), il.lineno,
            ird is not None and ird[0] == other and isinstance(il.target, ast.Name),
            'the whole line must be examined: inner loop over the full extent of the other axis')
    if ird is None or not isinstance(il.target, ast.Name):
        return axis, direction, bound
    iv = il.target.id
    rowv, colv = (lv, iv) if axis == 'R' else (iv, lv)
    # 3. reads of data are data[row, col]
    reads = [n for n in ast.walk(il) if isinstance(n, ast.Subscript) and norm(n.value) == data]
    good = bool(reads) and all(isinstance(r.slice, ast.Tuple) and len(r.slice.elts) == 2 and
                               norm(r.slice.elts[0]) == rowv and norm(r.slice.elts[1]) == colv for r in reads)
    rep.add('T2-index', kern, entry, site + ': ' + ', '.join(sorted({norm(r) for r in reads})), il.lineno, good,
            'cells must be read as %s[row, col] with the row index from the row loop and the column index from the '
            'column loop' % data)
    valname = None
    for s in il.body:
        if isinstance(s, ast.Assign) and isinstance(s.targets[0], ast.Name) and any(r in list(ast.walk(s.value)) for r in reads):
            valname = s.targets[0].id
    # 4. the flag is set exactly when the cell is kept
    helper_keep = keep_via_helper(prog, kern, il, data, rowv, colv, listparam, flag, mode)
    if helper_keep is not None:
        nanaware, kok = helper_keep
        if mode == 'trim':
            rep.add('T1', kern, entry, site + ': membership helper', il.lineno, nanaware,
                    'the exclusion list may contain NaN (it does by default): the membership test must be NaN-aware')
        rep.add('T2-keep', kern, entry, site + ': keep test via helper', il.lineno, kok,
                'a cell is kept iff it equals no excluded value (trim) / selected iff it equals a listed id (crop); the '
                'first such cell must set the stop flag')
        return axis, direction, bound
    vloops = [s for s in il.body if isinstance(s, ast.For) and norm(s.iter) == listparam]
    if len(vloops) != 1 or valname is None:
        rep.add('T2-keep', kern, entry, site, il.lineno, None, 'loop over the value list `%s` not found' % listparam)
        return axis, direction, bound
    vl = vloops[0]
    ev = vl.target.id
    tests = [s for s in vl.body if isinstance(s, ast.If)]
    if len(tests) != 1:
        rep.add('T2-keep', kern, entry, site, vl.lineno, None, 'value loop must contain one equality test')
        return axis, direction, bound
    t = tests[0]
    nanaware = is_nan_aware_eq(prog, kern, t.test, ev, valname)
    plain = is_plain_eq(t.test, ev, valname)
    if mode == 'trim':
        rep.add('T1', kern, entry, site + ': if ' + norm(t.test), t.lineno, nanaware,
                'the exclusion list may contain NaN (it does by default) and `NaN == NaN` is False: the test must be '
                'NaN-aware (`e == val or (isnan(e) and isnan(val))`), otherwise NaN borders are never trimmed')
        # is_nodata protocol: nodata flag False per cell, True on match; keep when not nodata
        sets = [s for s in t.body if isinstance(s, ast.Assign) and norm(s.value) == 'True']
        nd = sets[0].targets[0].id if sets else None
        resets = [s for s in il.body if isinstance(s, ast.Assign) and norm(s.targets[0]) == nd and norm(s.value) == 'False']
        keep = [s for s in il.body if isinstance(s, ast.If) and norm(s.test) in ('not %s' % nd, '%s == False' % nd,
                                                                               '%s is False' % nd)]
        kok = bool(nd) and len(resets) == 1 and len(keep) == 1 and il.body.index(resets[0]) < il.body.index(vl) < \
            il.body.index(keep[0]) and any(norm(s) == '%s = True' % flag for s in keep[0].body) and \
            (nanaware or plain)
        rep.add('T2-keep', kern, entry, site + ': keep test', il.lineno, kok,
                'a cell is kept iff it equals no excluded value; the first kept cell must set the stop flag')
    else:
        hit = any(norm(s) == '%s = True' % flag for s in t.body)
        rep.add('T2-keep', kern, entry, site + ': if ' + norm(t.test), t.lineno, hit and (plain or nanaware),
                'a cell is selected iff it equals one of the given zone ids; the first selected cell must set the stop flag')
    return axis, direction, bound


def membership_helper(prog, scope, call):
    """`H(value, values)` where H is `for e in values: if e == value [nan-aware]: return True` + `return False`.
    Returns 'nan-aware' | 'plain' | None."""
    t = prog.resolve_callable(scope, scope.module, call.func)
    if not isinstance(t, Func) or len(t.params) != 2 or len(call.args) != 2:
        return None
    body = [s for s in t.node.body if not (isinstance(s, ast.Expr) and isinstance(s.value, ast.Constant))]
    if len(body) != 2 or not isinstance(body[0], ast.For) or not isinstance(body[1], ast.Return) or norm(body[1].value) != 'False':
        return None
    lp = body[0]
    if not (isinstance(lp.iter, ast.Name) and lp.iter.id in t.params and isinstance(lp.target, ast.Name) and len(lp.body) == 1
            and isinstance(lp.body[0], ast.If) and len(lp.body[0].body) == 1 and isinstance(lp.body[0].body[0], ast.Return)
            and norm(lp.body[0].body[0].value) == 'True' and not lp.body[0].orelse):
        return None
    vparam = [p for p in t.params if p != lp.iter.id][0]
    # the call must pass (value, list) in the helper's parameter order
    test = lp.body[0].test
    if is_nan_aware_eq(prog, t, test, lp.target.id, vparam):
        kind = 'nan-aware'
    elif is_plain_eq(test, lp.target.id, vparam):
        kind = 'plain'
    else:
        return None
    return kind, t.params.index(vparam), t.params.index(lp.iter.id)


def keep_via_helper(prog, kern, il, data, rowv, colv, listparam, flag, mode):
    """`if [not] H(data[row, col], values): flag = True; break` in the line loop -> (nan-aware?, keep-test ok?)"""
    for s in il.body:
        if not isinstance(s, ast.If):
            continue
        test = s.test
        neg = False
        if isinstance(test, ast.UnaryOp) and isinstance(test.op, ast.Not):
            neg, test = True, test.operand
        if not isinstance(test, ast.Call):
            continue
        mh = membership_helper(prog, kern, test)
        if mh is None:
            continue
        kind, vi, li = mh
        val = test.args[vi]
        lst = test.args[li]
        # the value is the cell (directly or through a local)
        if isinstance(val, ast.Name):
            defs = [x.value for x in il.body if isinstance(x, ast.Assign) and norm(x.targets[0]) == val.id]
            val = defs[0] if len(defs) == 1 else val
        cell_ok = norm(val).replace(' ', '') == '%s[%s,%s]' % (data, rowv, colv)
        sets = any(norm(x) == '%s = True' % flag for x in s.body) and not s.orelse
        want_neg = (mode == 'trim')
        ok = cell_ok and norm(lst) == listparam and sets and (neg == want_neg)
        return kind == 'nan-aware', ok and (kind == 'nan-aware' or mode == 'crop')
    return None


class _Win:
    """tiny symbolic evaluator for the wrapper: which window of which raster is returned"""
    def __init__(self, prog, kernels):
        self.prog = prog
        self.kernels = kernels
        self.kcall = None

    def ev(self, f, e, env, depth=0):
        if isinstance(e, ast.Name):
            return env.get(e.id, ('name', e.id))
        if isinstance(e, ast.Constant):
            return ('const', e.value)
        if isinstance(e, ast.Tuple):
            return ('tuple', [self.ev(f, x, env, depth) for x in e.elts])
        if isinstance(e, ast.BinOp) and isinstance(e.op, ast.Add):
            return ('add', self.ev(f, e.left, env, depth), self.ev(f, e.right, env, depth))
        if isinstance(e, ast.Slice):
            return ('slice', self.ev(f, e.lower, env, depth) if e.lower else None, self.ev(f, e.upper, env, depth) if e.upper else None)
        if isinstance(e, ast.Subscript):
            base = self.ev(f, e.value, env, depth)
            idx = self.ev(f, e.slice, env, depth)
            if base[0] == 'tuple' and idx[0] == 'const' and isinstance(idx[1], int):
                return base[1][idx[1]]
            if base[0] == 'kres' and base[1] is None and idx[0] == 'const':
                return ('kres', idx[1])
            return ('index', base, idx)
        if isinstance(e, ast.Attribute):
            return ('attr', self.ev(f, e.value, env, depth), e.attr)
        if isinstance(e, ast.Call):
            if isinstance(e.func, ast.Name) and e.func.id == 'slice' and len(e.args) == 2:
                return ('slice', self.ev(f, e.args[0], env, depth), self.ev(f, e.args[1], env, depth))
            t = self.prog.resolve_callable(f, f.module, e.func)
            if isinstance(t, Func) and t.jit is not None and len(e.args) + len(e.keywords) == 2 and len(t.params) == 2:
                # the scan kernel: arguments bound to its two parameters, positionally or by keyword
                b = dict(zip(t.params, e.args))
                b.update({k.arg: k.value for k in e.keywords if k.arg in t.params})
                if len(b) == 2:
                    self.kcall = (e, t, [self.ev(f, b[p], env, depth) for p in t.params])
                    return ('kres', None)
            if isinstance(t, Func) and depth < 3:
                benv = {}
                for p, a in list(zip(t.params, e.args)) + [(k.arg, k.value) for k in e.keywords if k.arg]:
                    benv[p] = self.ev(f, a, env, depth)
                return self.run(t, benv, depth + 1)
            return ('call', norm(e.func))
        return ('other', norm(e))

    def run(self, f, env, depth=0):
        self.mut = getattr(self, 'mut', [])
        env, ret = self.block(f, f.node.body, dict(env), depth)
        return ret

    def block(self, f, stmts, env, depth):
        """straight-line evaluation; if/else branches are evaluated separately and merged (differing values become phi)"""
        ret = None
        for s in stmts:
            if isinstance(s, ast.Assign):
                v = self.ev(f, s.value, env, depth)
                t = s.targets[0]
                if isinstance(t, ast.Name):
                    env[t.id] = v
                elif isinstance(t, ast.Tuple):
                    if v[0] == 'tuple':
                        for x, vv in zip(t.elts, v[1]):
                            env[x.id] = vv
                    elif v[0] == 'kres' and v[1] is None:
                        for i, x in enumerate(t.elts):
                            env[x.id] = ('kres', i)
                    else:
                        for i, x in enumerate(t.elts):
                            if isinstance(x, ast.Name):
                                env[x.id] = ('unpack', v, i)
                elif isinstance(t, ast.Attribute):
                    self.mut.append((norm(t), env.get(norm(t.value)), t.attr))
                elif isinstance(t, ast.Subscript):
                    self.mut.append((norm(t), env.get(norm(t.value)), '[]'))
            elif isinstance(s, ast.Expr):
                self.ev(f, s.value, env, depth)
            elif isinstance(s, ast.If):
                e1, r1 = self.block(f, s.body, dict(env), depth)
                e2, r2 = self.block(f, s.orelse, dict(env), depth)
                for k in set(e1) | set(e2):
                    a, b_ = e1.get(k, ('undef',)), e2.get(k, ('undef',))
                    env[k] = a if a == b_ else ('phi', a, b_)
                if r1 is not None or r2 is not None:
                    ret = r1 if r1 == r2 else ('phi', r1, r2) if ret is None else ret
            elif isinstance(s, ast.Return) and s.value is not None:
                ret = self.ev(f, s.value, env, depth)
                break
        return env, ret


def analyse(prog, rep, pubname, mode):
    m = prog.module('zonal')
    pub = m.funcs.get(pubname)
    if pub is None:
        raise AnalysisIncomplete('zonal.%s not found' % pubname)
    # the scan kernel call and the window returned by the wrapper (through helpers, any local names)
    w = _Win(prog, None)
    penv = {p: ('param', p) for p in pub.params}
    retval = w.run(pub, penv)
    if w.kcall is None:
        raise AnalysisIncomplete('%s: scan kernel call not found' % pubname)
    kcall_node, kern, kargs = w.kcall
    entry = pubname
    ext, data = shape_names(kern)
    listparam = kern.params[1]
    loops = [s for s in kern.node.body if isinstance(s, ast.For)]
    results = []
    earlier = {}
    for lp in loops:
        r = analyse_scan(prog, rep, kern, entry, lp, ext, data, listparam, mode, dict(earlier))
        results.append(r)
        if r and r[2]:
            earlier[(r[0], r[1])] = r[2]
    got = [(r[0], r[1]) for r in results if r]
    rep.add('T2-scan', kern, entry, 'scan directions %s' % got, kern.node.lineno, got == EXPECT or sorted(got) == sorted(EXPECT),
            'exactly four scans are needed: rows ascending, rows descending, columns ascending, columns descending')
    role = {}
    for r in results:
        if r and r[2]:
            role[(r[0], r[1])] = r[2]
    # return order
    rets = [n for n in kern.own_nodes() if isinstance(n, ast.Return)]
    okr = len(rets) == 1 and isinstance(rets[0].value, ast.Tuple) and \
        [norm(e) for e in rets[0].value.elts] == [role.get(k) for k in EXPECT]
    rep.add('T3-order', kern, entry, norm(rets[0]) if rets else 'return', rets[0].lineno if rets else kern.node.lineno, okr,
            'the kernel must return (top, bottom, left, right) = bounds of (rows asc, rows desc, cols asc, cols desc); '
            'bounds by scan: %s' % role)
    # wrapper: scanned raster, value list, returned window
    scan_p = pub.params[0]
    list_p = pub.params[{'trim': 1, 'crop': 2}[mode]]
    ok_in = len(kargs) == 2 and kargs[0] in (('attr', ('param', scan_p), 'data'), ('attr', ('param', scan_p), 'values')) and \
        kargs[1] == ('param', list_p)
    rep.add('T3-input', pub, entry, norm(kcall_node), kcall_node.lineno, ok_in,
            'the scan must read the `%s` raster and the caller\'s value list `%s`' % (scan_p, list_p))
    sliced = pub.params[0] if mode == 'trim' else pub.params[1]
    kr = lambda i: ('kres', i)   # noqa
    want = ('index', ('param', sliced), ('tuple', [('slice', kr(0), ('add', kr(1), ('const', 1))),
                                                  ('slice', kr(2), ('add', kr(3), ('const', 1)))]))
    rep.add('T3-slice', pub, entry, 'returned window: %s' % (retval,), pub.node.lineno, retval == want,
            'the result must be the basic slice [top:bottom+1, left:right+1] (inclusive upper bounds, rows then columns) '
            'of `%s`, built from the kernel\'s (top, bottom, left, right)' % sliced)
    bad = [m for m in getattr(w, 'mut', []) if m[2] != 'name']
    rep.add('T3-return', pub, entry, 'only the name of the window is set: %s' % [m[0] for m in getattr(w, 'mut', [])],
            pub.node.lineno, not bad,
            'the function must return that slice itself (cells, coordinates and attributes of the original), only its '
            'name may be set')


def check(prog, rep):
    analyse(prog, rep, 'trim', 'trim')
    analyse(prog, rep, 'crop', 'crop')
    rep.floor('T2-stop', 8)
    rep.floor('T2-index', 8)
    rep.floor('T2-keep', 8)
    rep.floor('T1', 4)
    rep.floor('T3-slice', 2)
