"""C18 - trim and crop return the minimal window, cells and coordinates intact.

Premises of the bounding-box argument (DESIGN §4 C18), decided structurally on the scan kernels reached from the
public functions: T2 four scans (rows ascending -> top, rows descending -> bottom, columns ascending -> left, columns
descending -> right), each assigning its bound before looking at the line, stopping at the first line holding a kept
cell, scanning the whole line with axis-correct indexing; T1 NaN-aware equality wherever the exclusion list may
contain NaN (trim's default); T3 the result is the basic slice [top:bottom+1, left:right+1] of the right raster.
"""
import ast
import os

from ..astutil import calls, const, parent_map, short
from ..nanq import is_nan_aware_eq, is_plain_eq
from ..program import AnalysisIncomplete, Func, norm
from ..sym import Rat

EXPECT = [('R', 'asc'), ('R', 'desc'), ('C', 'asc'), ('C', 'desc')]
BOUND_NAMES = ['top', 'bottom', 'left', 'right']


def shape_names(kern):
    """rows, cols = data.shape  ->  {'rows': 'R', 'cols': 'C'}, data name"""
    for s in kern.node.body:
        if isinstance(s, ast.Assign) and isinstance(s.targets[0], ast.Tuple) and isinstance(s.value, ast.Attribute) \
                and s.value.attr == 'shape' and len(s.targets[0].elts) == 2:
            a, b = s.targets[0].elts
            return {a.id: 'R', b.id: 'C'}, norm(s.value.value)
    raise AnalysisIncomplete('%s: `rows, cols = data.shape` not found' % kern.qualname)


def range_dir(it, ext):
    """range(n) / range(0, n) -> (axis, 'asc'); range(n - 1, -1, -1) -> (axis, 'desc')"""
    if not (isinstance(it, ast.Call) and norm(it.func) in ('range', 'prange', 'nb.prange')):
        return None
    a = it.args
    if len(a) == 1 and isinstance(a[0], ast.Name) and a[0].id in ext:
        return ext[a[0].id], 'asc'
    if len(a) == 2 and const(a[0]) == 0 and isinstance(a[1], ast.Name) and a[1].id in ext:
        return ext[a[1].id], 'asc'
    if len(a) == 3 and const(a[1]) == -1 and const(a[2]) == -1 and isinstance(a[0], ast.BinOp) and \
            isinstance(a[0].op, ast.Sub) and const(a[0].right) == 1 and isinstance(a[0].left, ast.Name) and a[0].left.id in ext:
        return ext[a[0].left.id], 'desc'
    if len(a) == 3 and const(a[0]) == 0 and const(a[2]) == 1 and isinstance(a[1], ast.Name) and a[1].id in ext:
        return ext[a[1].id], 'asc'
    return None


class _Unrecognised(Exception):
    pass


class _NanUnknown(Exception):
    pass


def analyse_scan_k(prog, rep, kern, entry, k, O, mode, earlier, data=None, listparam=None):
    """one directional scan on the interpreted kernel (kai): returns (axis, direction, bound variable).

    Facts used: the outer loop's range; the value of every assigned name at the end of an iteration and on each `break`
    path; "flag-setting" summaries of the inner loops (a flag that is only ever set is true after the loop iff it was true
    before or some iteration took a setting path).  The control flow may be arranged in any way (stop test at the head or
    at the tail of the line loop, flag polarity, helper temporaries)."""
    from fractions import Fraction as Fr
    from ..kai import cond_repr
    from ..kutil import CannotEvaluate, eval_cond_full, flag_setting_paths, guard_atoms
    from ..sym import App, Rat, Sym, walk_atoms
    R, C = Rat.atom(App('shape', [data, 0])), Rat.atom(App('shape', [data, 1]))
    site = 'for %s in %s' % (norm(O.node.target), norm(O.node.iter))

    def rng(L):
        for ax, n in (('R', R), ('C', C)):
            if L.kind in ('range', 'prange') and L.lo == Rat.const(0) and L.hi == n and L.step == Rat.const(1):
                return ax, 'asc'
            if L.kind in ('range', 'prange') and L.lo == n - Rat.const(1) and L.hi == Rat.const(-1) and L.step == Rat.const(-1):
                return ax, 'desc'
        return None
    rd = rng(O)
    if rd is None:
        raise _Unrecognised('outer range')
    axis, direction = rd
    ov = Rat.sym(O.var)
    # the bound: the name whose value at the end of an iteration is the line index
    bounds = [n for n, v in O.end_env.items() if isinstance(v, Rat) and v == ov and n != O.node.target.id]
    flags = [n for n in getattr(O, 'carried', {}) if O.pre.get(n) in (('const', False), Rat.const(0))]
    inner = [L for L in k.loops if L is not O and L.node in [x for s in O.node.body for x in ast.walk(s)] and
             not any(L.node in [x for s2 in M.node.body for x in ast.walk(s2)] for M in k.loops if M is not O and M is not L and
                     M.node in [x for s in O.node.body for x in ast.walk(s)])]
    local = False
    if len(bounds) == 1 and not flags and len(inner) == 1:
        # a flag of the line alone: cleared for every line before the line loop, tested after it (it never has to survive
        # to the next line, because the scan is left as soon as it is set)
        flags = [n for n in getattr(inner[0], 'carried', {}) if inner[0].pre.get(n) in (('const', False), Rat.const(0)) and
                 n not in getattr(O, 'carried', {})]
        local = True
    if len(bounds) != 1 or len(flags) != 1 or len(inner) != 1:
        raise _Unrecognised('bound %s, flag %s, %d line loops' % (bounds, flags, len(inner)))
    bound, flag, X = bounds[0], flags[0], inner[0]
    fphi = O.carried[flag][0] if not local else None
    # ---- T2-stop: once a kept cell was found no later line changes the bound
    fend = O.end_env.get(flag)
    lo_atoms = [a for a in (walk_atoms(fend[1]) if isinstance(fend, tuple) and fend[0] == 'truth' else set())
                if isinstance(a, App) and a.name == 'loopout']
    stops = []
    for g, envb, nb in O.breaks:
        try:
            head = [eval_cond_full(x, {next(iter(fphi.atoms())): Fr(v)}) for v in (1, 0) for x in g] if len(g) == 1 and not local else None
        except CannotEvaluate:
            head = None
        if head == [True, False] and envb.get(bound) != ov:
            stops.append('head')
            continue
        try:
            tail = [eval_cond_full(x, {a: Fr(v) for a in lo_atoms}) for v in (1, 0) for x in g] if len(g) == 1 and lo_atoms else None
        except CannotEvaluate:
            tail = None
        if tail == [True, False] and envb.get(bound) == ov:
            stops.append('tail')
            continue
        stops.append('other: %s' % [cond_repr(x)[:60] for x in g])
    through = (local or (isinstance(X.pre.get(flag), tuple) and X.pre.get(flag) == ('truth', fphi))) and isinstance(fend, tuple) and \
        len(lo_atoms) == 1 and lo_atoms[0].args[1] == Rat.sym(X.var)
    ok = bool(stops) and all(s in ('head', 'tail') for s in stops) and through
    rep.add('T2-stop', kern, entry, site, O.node.lineno, ok,
            'each scan records the current line as its bound and stops as soon as a kept cell has been found - before the '
            'next line is recorded (stop test at the head of the loop) or right after the line that holds it (at the tail): '
            'bound=%s flag=%s stops=%s, flag carried through the line loop: %s' % (bound, flag, stops, through))
    if not ok:
        return axis, direction, bound
    # ---- T2-line: the whole line is examined
    ird = rng(X)
    other = 'C' if axis == 'R' else 'R'
    if ird is None and earlier and X.kind in ('range', 'prange') and X.step == Rat.const(1):
        # optimisation: lines outside the already found bounds of the other axis are known to hold no kept cell
        lo_n, hi_n = earlier.get((other, 'asc')), earlier.get((other, 'desc'))
        a_lo, a_hi = _single_sym(X.lo), _single_sym(X.hi - Rat.const(1))
        if lo_n and hi_n and a_lo and a_hi and a_lo.split('(')[-1].startswith(lo_n) and a_hi.split('(')[-1].startswith(hi_n):
            ird = (other, 'asc')
    rep.add('T2-line', kern, entry, site + ': for %s in %s' % (norm(X.node.target), norm(X.node.iter)), X.node.lineno,
            ird is not None and ird[0] == other,
            'the whole line must be examined: inner loop over the full extent of the other axis')
    if ird is None or ird[0] != other:
        return axis, direction, bound
    rowv, colv = (ov, Rat.sym(X.var)) if axis == 'R' else (Rat.sym(X.var), ov)
    cell = App('read', [data, rowv, colv])
    # ---- the per-cell hit: under which condition does the cell at (row, col) set the flag
    fx = flag_setting_paths(X, flag)
    vloops = [L for L in k.loops if L is not X and L.node in [x for s in X.node.body for x in ast.walk(s)]]
    if fx is not None and fx[1] and fx[0] == 1:
        paths = fx[1]                       # trim-like: a per-cell flag computed by a loop over the list, then tested
    elif len(vloops) == 1 and flag in getattr(vloops[0], 'carried', {}):
        # crop-like: the list loop sets the scan flag itself
        fv = flag_setting_paths(vloops[0], flag)
        if fv is None or fv[0] != 1:
            raise _Unrecognised('list loop does not only set the flag')
        paths = [[('exists', vloops[0], fv[1])]]
    else:
        raise _Unrecognised('flag is not set by the line loop')
    # ---- the keep test as a whole, evaluated in small models: the cell is a number V or NaN, the list holds up to two
    # values out of {V, another number, NaN}.  Every flag that is only ever set by a loop over the list ("exists") - the
    # per-cell one, one computed once before the scans (`has_nan = any(isnan(e) for e in list)`), nested ones - is resolved
    # by its flag-setting summary: true iff it was true before or some element takes a setting path.
    used_loops = []
    V, W, NANV = Fr(5), Fr(7), Fr(101)
    # 'N': a number next to V but not V (exact arithmetic: closer than any tolerance a `isclose`-like test could use)
    KINDS = (('V', V, 0), ('W', W, 0), ('N', V + Fr(1, 10 ** 40), 0), ('nan', NANV, 1))

    def elem_atoms(L2, conds):
        ats_ = set()
        for pth in conds:
            ats_ |= guard_atoms(pth)
        lst_ = [a for a in ats_ if isinstance(a, App) and a.name in ('elem', 'read', 'cell?') and a.args[0] != data and
                listparam in repr(a.args[0]) and Sym(L2.var) in walk_atoms(Rat.atom(a))]
        return ats_, lst_

    def exists_over(L2, conds, env_cell, lst, depth=0):
        if not any(L2 is x for x in used_loops):
            used_loops.append(L2)
        ats_, lat = elem_atoms(L2, conds)
        if len(lat) > 1:
            raise _Unrecognised('several list elements in one test')
        for kind, val, isn in lst:
            env = dict(env_cell)
            for a in lat:
                env[a] = val
            for a in ats_:
                if isinstance(a, App) and a.name == 'isnan' and lat and a.args[0] == Rat.atom(lat[0]):
                    env[a] = Fr(isn)
            if any(all(ev_guard(g, env, lst, depth + 1) for g in pth) for pth in conds):
                return True
        return False

    def flag_value(a, env_cell, lst, depth):
        L2 = next((L for L in k.loops if Rat.sym(L.var) == a.args[1]), None)
        nm = next(iter(a.args[0].atoms())).name if isinstance(a.args[0], Rat) else str(a.args[0])
        f2 = flag_setting_paths(L2, nm) if L2 is not None else None
        pre2 = L2.pre.get(nm) if L2 is not None else None
        p0 = 1 if pre2 in (('const', True), Rat.const(1)) else 0 if pre2 in (('const', False), Rat.const(0)) else None
        if p0 is None and isinstance(pre2, tuple) and pre2 and pre2[0] in ('truth', 'cmp', 'and', 'or', 'not') and depth <= 3:
            # the flag may already be set when the loop starts (`if nan_listed and isnan(v): r = True` before the search)
            p0 = 1 if ev_guard(pre2, env_cell, lst, depth + 1) else 0
        if (f2 is None or f2[0] is None) and p0 is not None and L2 is not None and depth <= 3 and not getattr(L2, 'breaks', None) and \
                (nm in getattr(L2, 'carried', {}) or getattr(L2, 'end_env', {}).get(nm) is not None):
            # not a set-only flag: a value rewritten by every element (`seen = isnan(e)`).  On a model list the loop is simply
            # run: the value after it is what the update makes of the previous value, element by element
            from ..kutil import evaluate
            if nm in getattr(L2, 'carried', {}):
                phi_, post_ = L2.carried[nm]
                ph_atoms = list(phi_.atoms()) if isinstance(phi_, Rat) else []
            else:
                post_, ph_atoms = L2.end_env[nm], [None]        # rewritten without looking at its previous value
            itb = getattr(L2, 'iterable', None)
            over_list = itb == ('param', listparam) or getattr(itb, 'name', None) == listparam or \
                (L2.kind == 'range' and L2.lo == Rat.const(0) and listparam in repr(L2.hi))
            if over_list and len(ph_atoms) == 1 and (isinstance(post_, Rat) or isinstance(post_, tuple)):
                if not any(L2 is x for x in used_loops):
                    used_loops.append(L2)
                cur = Fr(p0)
                for kind, val, isn in lst:
                    env = dict(env_cell)
                    if ph_atoms[0] is not None:
                        env[ph_atoms[0]] = cur
                    pa = guard_atoms([post_]) if isinstance(post_, tuple) else set(walk_atoms(post_))
                    el = [x for x in pa if isinstance(x, App) and x.name in ('elem', 'read') and listparam in repr(x.args[0])]
                    for x in el:
                        env[x] = val
                    for x in pa:
                        if isinstance(x, App) and x.name == 'isnan' and el and x.args[0] == Rat.atom(el[0]):
                            env[x] = Fr(isn)
                    r_ = eval_cond_full(post_, env) if isinstance(post_, tuple) else evaluate(post_, env)
                    cur = Fr(1 if r_ is True else 0 if r_ is False else r_)
                return 1 if cur != 0 else 0
        if f2 is None or p0 is None or f2[0] is None or depth > 3:
            raise _Unrecognised('flag %s is not a set-only flag of a loop over the list' % nm)
        return int(f2[0]) if exists_over(L2, f2[1], env_cell, lst, depth) else p0

    def ev_guard(g, env, lst, depth=0):
        if g[0] == 'exists':
            return exists_over(g[1], g[2], env, lst, depth)
        e2 = dict(env)
        for a in guard_atoms([g]):
            if isinstance(a, App) and a.name == 'loopout' and a not in e2:
                e2[a] = Fr(flag_value(a, env, lst, depth))
        for a in guard_atoms([g]):
            if isinstance(a, App) and a.name.split('.')[-1] == 'isclose' and a.name.startswith('ext:') and len(a.args) == 2 and a not in e2:
                # library model of isclose on numbers: |a - b| <= atol + rtol*|b| with the default tolerances; what it says
                # about NaN depends on a keyword the term does not keep, so NaN operands are not modelled
                from ..kutil import evaluate
                va, vb = evaluate(a.args[0], e2), evaluate(a.args[1], e2)
                if va in (NANV, Fr(202)) or vb in (NANV, Fr(202)):
                    raise _NanUnknown()
                e2[a] = Fr(1 if abs(va - vb) <= Fr(1, 10 ** 8) + Fr(1, 10 ** 5) * abs(vb) else 0)
        return eval_cond_full(g, e2)
    all_atoms = set()
    for pth in paths:
        for g in pth:
            if g[0] != 'exists':
                all_atoms |= guard_atoms([g])
            else:
                for p2 in g[2]:
                    all_atoms |= guard_atoms(p2)
    # atoms of the flags' own loops too (cell reads inside the list loops)
    for L2 in k.loops:
        for nm_, (phi_, post_) in getattr(L2, 'carried', {}).items():
            f2 = flag_setting_paths(L2, nm_)
            if f2 is not None and f2[1]:
                for p2 in f2[1]:
                    if any(listparam in repr(a) for a in guard_atoms(p2)):
                        all_atoms |= guard_atoms(p2)
    reads = [a for a in all_atoms if isinstance(a, App) and a.name in ('read', 'cell?') and a.args[0] == data]
    own = [a for a in reads if Sym(X.var) in walk_atoms(Rat.atom(a)) or Sym(O.var) in walk_atoms(Rat.atom(a))]
    good = bool(own) and all(tuple(a.args[1:3]) == (rowv, colv) for a in own)
    rep.add('T2-index', kern, entry, site + ': ' + ', '.join(sorted({repr(a)[:40] for a in own})), X.node.lineno, good,
            'cells must be read as %s[row, col] with the row index from the row loop and the column index from the '
            'column loop' % data)
    if not own:
        raise _Unrecognised('the keep test does not read the cell')
    cellat = own[0]
    import itertools
    table = []
    try:
        for ck, cv, cn in (('V', V, 0), ('nan', Fr(202), 1)):
            env_cell = {a: cv for a in own}
            for a in all_atoms:
                if isinstance(a, App) and a.name == 'isnan' and any(a.args[0] == Rat.atom(r_) for r_ in own):
                    env_cell[a] = Fr(cn)
            for n_ in (0, 1, 2):
                for lst in itertools.product(KINDS, repeat=n_):
                    matches_plain = any(kd == ck and kd != 'nan' for kd, v_, isn in lst)
                    matches_nan = matches_plain or (ck == 'nan' and any(kd == 'nan' for kd, v_, isn in lst))
                    try:
                        got = any(all(ev_guard(g, env_cell, lst) for g in pth) for pth in paths)
                    except _NanUnknown:
                        got = None
                    table.append((ck, tuple(kd for kd, v_, isn in lst), got, matches_plain, matches_nan))
    except CannotEvaluate as e:
        raise _Unrecognised(str(e))
    if not used_loops:
        raise _Unrecognised('no list loop')
    whole = True
    for L2 in used_loops:
        itb = getattr(L2, 'iterable', None)
        whole = whole and (itb == ('param', listparam) or getattr(itb, 'name', None) == listparam or
                           (L2.kind == 'range' and L2.lo == Rat.const(0) and repr(L2.hi) in (
                               "len(%s)" % listparam, "shape('%s', 0)" % listparam, "len(arr('%s'))" % listparam)))
    if mode == 'trim':
        # the flag is set (the scan stops) for a cell that matches NO excluded value, NaN matching NaN
        plain_rows = [r_ for r_ in table if r_[0] != 'nan' and 'nan' not in r_[1]]
        bad_plain = [(r_[0], r_[1]) for r_ in plain_rows if r_[2] != (not r_[3])]
        bad_nan = [(r_[0], r_[1]) for r_ in table if r_[2] is not None and r_[2] != (not r_[4])]
        unknown = [r_ for r_ in table if r_[2] is None]
        rep.add('T2-keep', kern, entry, site + ': keep test', X.node.lineno, not bad_plain,
                'a cell is kept iff it equals no excluded value; the first such cell must set the stop flag; wrong for (cell, list): %s'
                % bad_plain[:4])
        rep.add('T1', kern, entry, site + ': equality with an excluded value', used_loops[-1].node.lineno,
                (not bad_nan and whole) if (bad_nan or not whole or not unknown) else None,
                'the exclusion list may contain NaN (it does by default) and `NaN == NaN` is False: the test must be NaN-aware, for '
                'every value of the list - a NaN cell is excluded exactly when NaN is listed, otherwise NaN borders are never '
                'trimmed or always trimmed; wrong for (cell, list): %s; whole list examined: %s' % (bad_nan[:4], whole))
    else:
        rows = [r_ for r_ in table if r_[0] != 'nan' and 'nan' not in r_[1]]
        bad = [(r_[0], r_[1]) for r_ in rows if r_[2] != r_[3]]
        rep.add('T2-keep', kern, entry, site + ': keep test', X.node.lineno, not bad,
                'a cell is selected iff it equals a listed id; the first such cell must set the stop flag; wrong for (cell, list): %s' % bad[:4])
        rep.add('T2-keep', kern, entry, site + ': equality with a listed id', used_loops[-1].node.lineno, not bad and whole,
                'a cell is selected iff it equals one of the listed ids (every id is compared): whole list examined: %s' % whole)
    return axis, direction, bound


def _single_sym(r):
    from ..sym import Rat
    if isinstance(r, Rat) and r.d.is_const() and len(r.n.t) == 1:
        (mm, c), = r.n.t.items()
        if len(mm) == 1 and mm[0][1] == 1 and c == r.d.const_value():
            return repr(mm[0][0])
    return None


def analyse_scan(prog, rep, kern, entry, loop, ext, data, listparam, mode, earlier=None):
    """one directional scan; returns (axis, direction, bound variable) or None"""
    if not isinstance(loop, ast.For):
        raise AnalysisIncomplete('%s: scan loop at line %d is not a for loop the syntactic fallback reads' % (entry, loop.lineno))
    rd = range_dir(loop.iter, ext)
    site = 'for %s in %s' % (norm(loop.target), norm(loop.iter))
    if rd is None or not isinstance(loop.target, ast.Name):
        rep.add('T2-scan', kern, entry, site, loop.lineno, False, 'outer scan loop must run over all rows or all '
                'columns, ascending or descending to -1')
        return None
    axis, direction = rd
    lv = loop.target.id
    body = loop.body
    # 1. break guard first, on a flag
    flag = None
    gpos = None
    for i, s in enumerate(body):
        if isinstance(s, ast.If) and len(s.body) == 1 and isinstance(s.body[0], ast.Break) and not s.orelse and \
                isinstance(s.test, ast.Name):
            flag, gpos = s.test.id, i
            break
    # 2. bound assignment `b = lv` at top level
    bpos, bound = None, None
    for i, s in enumerate(body):
        if isinstance(s, ast.Assign) and isinstance(s.targets[0], ast.Name) and isinstance(s.value, ast.Name) and s.value.id == lv:
            bpos, bound = i, s.targets[0].id
            break
    inner = [(i, s) for i, s in enumerate(body) if isinstance(s, ast.For)]
    ok = flag is not None and bound is not None and gpos < bpos and len(inner) == 1 and bpos < inner[0][0]
    rep.add('T2-stop', kern, entry, site, loop.lineno, ok,
            'each scan must first stop if a kept cell was already found (`if flag: break`), then record the current '
            'line as its bound, then examine the line: flag=%s bound=%s' % (flag, bound))
    if not ok:
        return axis, direction, bound
    il = inner[0][1]
    ird = range_dir(il.iter, ext)
    other = 'C' if axis == 'R' else 'R'
    if ird is None and earlier and isinstance(il.iter, ast.Call) and norm(il.iter.func) == 'range' and \
            len(il.iter.args) == 2:
        # optimisation: lines outside the already found bounds of the other axis are known to hold no kept cell
        a, b = il.iter.args
        lo_ok = isinstance(a, ast.Name) and a.id == earlier.get((other, 'asc'))
        hi_ok = isinstance(b, ast.BinOp) and isinstance(b.op, ast.Add) and const(b.right) == 1 and \
            isinstance(b.left, ast.Name) and b.left.id == earlier.get((other, 'desc'))
        if lo_ok and hi_ok:
            ird = (other, 'asc')
    rep.add('T2-line', kern, entry, site + ': for %s in %s' % (norm(il.target), norm(il.iter)), il.lineno,
            ird is not None and ird[0] == other and isinstance(il.target, ast.Name),
            'the whole line must be examined: inner loop over the full extent of the other axis')
    if ird is None or not isinstance(il.target, ast.Name):
        return axis, direction, bound
    iv = il.target.id
    rowv, colv = (lv, iv) if axis == 'R' else (iv, lv)
    # 3. reads of data are data[row, col]
    reads = [n for n in ast.walk(il) if isinstance(n, ast.Subscript) and norm(n.value) == data]
    good = bool(reads) and all(isinstance(r.slice, ast.Tuple) and len(r.slice.elts) == 2 and
                               norm(r.slice.elts[0]) == rowv and norm(r.slice.elts[1]) == colv for r in reads)
    rep.add('T2-index', kern, entry, site + ': ' + ', '.join(sorted({norm(r) for r in reads})), il.lineno, good,
            'cells must be read as %s[row, col] with the row index from the row loop and the column index from the '
            'column loop' % data)
    valname = None
    for s in il.body:
        if isinstance(s, ast.Assign) and isinstance(s.targets[0], ast.Name) and any(r in list(ast.walk(s.value)) for r in reads):
            valname = s.targets[0].id
    # 4. the flag is set exactly when the cell is kept
    helper_keep = keep_via_helper(prog, kern, il, data, rowv, colv, listparam, flag, mode)
    if helper_keep is not None:
        nanaware, kok = helper_keep
        if mode == 'trim':
            rep.add('T1', kern, entry, site + ': membership helper', il.lineno, nanaware,
                    'the exclusion list may contain NaN (it does by default): the membership test must be NaN-aware')
        rep.add('T2-keep', kern, entry, site + ': keep test via helper', il.lineno, kok,
                'a cell is kept iff it equals no excluded value (trim) / selected iff it equals a listed id (crop); the '
                'first such cell must set the stop flag')
        return axis, direction, bound
    vloops = [s for s in il.body if isinstance(s, ast.For) and norm(s.iter) == listparam]
    if len(vloops) != 1 or valname is None:
        rep.add('T2-keep', kern, entry, site, il.lineno, None, 'loop over the value list `%s` not found' % listparam)
        return axis, direction, bound
    vl = vloops[0]
    ev = vl.target.id
    tests = [s for s in vl.body if isinstance(s, ast.If)]
    if len(tests) != 1:
        rep.add('T2-keep', kern, entry, site, vl.lineno, None, 'value loop must contain one equality test')
        return axis, direction, bound
    t = tests[0]
    nanaware = is_nan_aware_eq(prog, kern, t.test, ev, valname)
    plain = is_plain_eq(t.test, ev, valname)
    if mode == 'trim':
        rep.add('T1', kern, entry, site + ': if ' + norm(t.test), t.lineno, nanaware,
                'the exclusion list may contain NaN (it does by default) and `NaN == NaN` is False: the test must be '
                'NaN-aware (`e == val or (isnan(e) and isnan(val))`), otherwise NaN borders are never trimmed')
        # is_nodata protocol: nodata flag False per cell, True on match; keep when not nodata
        sets = [s for s in t.body if isinstance(s, ast.Assign) and norm(s.value) == 'True']
        nd = sets[0].targets[0].id if sets else None
        resets = [s for s in il.body if isinstance(s, ast.Assign) and norm(s.targets[0]) == nd and norm(s.value) == 'False']
        keep = [s for s in il.body if isinstance(s, ast.If) and norm(s.test) in ('not %s' % nd, '%s == False' % nd,
                                                                               '%s is False' % nd)]
        kok = bool(nd) and len(resets) == 1 and len(keep) == 1 and il.body.index(resets[0]) < il.body.index(vl) < \
            il.body.index(keep[0]) and any(norm(s) == '%s = True' % flag for s in keep[0].body) and \
            (nanaware or plain)
        rep.add('T2-keep', kern, entry, site + ': keep test', il.lineno, kok,
                'a cell is kept iff it equals no excluded value; the first kept cell must set the stop flag')
    else:
        hit = any(norm(s) == '%s = True' % flag for s in t.body)
        rep.add('T2-keep', kern, entry, site + ': if ' + norm(t.test), t.lineno, hit and (plain or nanaware),
                'a cell is selected iff it equals one of the given zone ids; the first selected cell must set the stop flag')
    return axis, direction, bound


def membership_helper(prog, scope, call):
    """`H(value, values)` where H is `for e in values: if e == value [nan-aware]: return True` + `return False`.
    Returns 'nan-aware' | 'plain' | None."""
    t = prog.resolve_callable(scope, scope.module, call.func)
    if not isinstance(t, Func) or len(t.params) != 2 or len(call.args) != 2:
        return None
    body = [s for s in t.node.body if not (isinstance(s, ast.Expr) and isinstance(s.value, ast.Constant))]
    if len(body) != 2 or not isinstance(body[0], ast.For) or not isinstance(body[1], ast.Return) or norm(body[1].value) != 'False':
        return None
    lp = body[0]
    if not (isinstance(lp.iter, ast.Name) and lp.iter.id in t.params and isinstance(lp.target, ast.Name) and len(lp.body) == 1
            and isinstance(lp.body[0], ast.If) and len(lp.body[0].body) == 1 and isinstance(lp.body[0].body[0], ast.Return)
            and norm(lp.body[0].body[0].value) == 'True' and not lp.body[0].orelse):
        return None
    vparam = [p for p in t.params if p != lp.iter.id][0]
    # the call must pass (value, list) in the helper's parameter order
    test = lp.body[0].test
    if is_nan_aware_eq(prog, t, test, lp.target.id, vparam):
        kind = 'nan-aware'
    elif is_plain_eq(test, lp.target.id, vparam):
        kind = 'plain'
    else:
        return None
    return kind, t.params.index(vparam), t.params.index(lp.iter.id)


def keep_via_helper(prog, kern, il, data, rowv, colv, listparam, flag, mode):
    """`if [not] H(data[row, col], values): flag = True; break` in the line loop -> (nan-aware?, keep-test ok?)"""
    for s in il.body:
        if not isinstance(s, ast.If):
            continue
        test = s.test
        neg = False
        if isinstance(test, ast.UnaryOp) and isinstance(test.op, ast.Not):
            neg, test = True, test.operand
        if not isinstance(test, ast.Call):
            continue
        mh = membership_helper(prog, kern, test)
        if mh is None:
            continue
        kind, vi, li = mh
        val = test.args[vi]
        lst = test.args[li]
        # the value is the cell (directly or through a local)
        if isinstance(val, ast.Name):
            defs = [x.value for x in il.body if isinstance(x, ast.Assign) and norm(x.targets[0]) == val.id]
            val = defs[0] if len(defs) == 1 else val
        cell_ok = norm(val).replace(' ', '') == '%s[%s,%s]' % (data, rowv, colv)
        sets = any(norm(x) == '%s = True' % flag for x in s.body) and not s.orelse
        want_neg = (mode == 'trim')
        ok = cell_ok and norm(lst) == listparam and sets and (neg == want_neg)
        return kind == 'nan-aware', ok and (kind == 'nan-aware' or mode == 'crop')
    return None


class _Win:
    """tiny symbolic evaluator for the wrapper: which window of which raster is returned"""
    def __init__(self, prog, kernels):
        self.prog = prog
        self.kernels = kernels
        self.kcall = None

    def ev(self, f, e, env, depth=0):
        if isinstance(e, ast.Name):
            return env.get(e.id, ('name', e.id))
        if isinstance(e, ast.Constant):
            return ('const', e.value)
        if isinstance(e, ast.Tuple):
            return ('tuple', [self.ev(f, x, env, depth) for x in e.elts])
        if isinstance(e, ast.BinOp) and isinstance(e.op, ast.Add):
            return ('add', self.ev(f, e.left, env, depth), self.ev(f, e.right, env, depth))
        if isinstance(e, ast.Slice):
            return ('slice', self.ev(f, e.lower, env, depth) if e.lower else None, self.ev(f, e.upper, env, depth) if e.upper else None)
        if isinstance(e, ast.Subscript):
            base = self.ev(f, e.value, env, depth)
            idx = self.ev(f, e.slice, env, depth)
            if base[0] == 'tuple' and idx[0] == 'const' and isinstance(idx[1], int):
                return base[1][idx[1]]
            if base[0] == 'kres' and base[1] is None and idx[0] == 'const':
                return ('kres', idx[1])
            return ('index', base, idx)
        if isinstance(e, ast.Attribute):
            return ('attr', self.ev(f, e.value, env, depth), e.attr)
        if isinstance(e, ast.Call):
            if isinstance(e.func, ast.Name) and e.func.id == 'slice' and len(e.args) == 2:
                return ('slice', self.ev(f, e.args[0], env, depth), self.ev(f, e.args[1], env, depth))
            t = self.prog.resolve_callable(f, f.module, e.func)
            if isinstance(t, Func) and t.jit is not None and len(e.args) + len(e.keywords) == 2 and len(t.params) == 2:
                # the scan kernel: arguments bound to its two parameters, positionally or by keyword
                b = dict(zip(t.params, e.args))
                b.update({k.arg: k.value for k in e.keywords if k.arg in t.params})
                if len(b) == 2:
                    self.kcall = (e, t, [self.ev(f, b[p], env, depth) for p in t.params])
                    return ('kres', None)
            if isinstance(t, Func) and depth < 3:
                benv = {}
                for p, a in list(zip(t.params, e.args)) + [(k.arg, k.value) for k in e.keywords if k.arg]:
                    benv[p] = self.ev(f, a, env, depth)
                return self.run(t, benv, depth + 1)
            return ('call', norm(e.func))
        return ('other', norm(e))

    def run(self, f, env, depth=0):
        self.mut = getattr(self, 'mut', [])
        env, ret = self.block(f, f.node.body, dict(env), depth)
        return ret

    def block(self, f, stmts, env, depth):
        """straight-line evaluation; if/else branches are evaluated separately and merged (differing values become phi)"""
        ret = None
        for s in stmts:
            if isinstance(s, ast.Assign):
                v = self.ev(f, s.value, env, depth)
                t = s.targets[0]
                if isinstance(t, ast.Name):
                    env[t.id] = v
                elif isinstance(t, ast.Tuple):
                    if v[0] == 'tuple':
                        for x, vv in zip(t.elts, v[1]):
                            env[x.id] = vv
                    elif v[0] == 'kres' and v[1] is None:
                        for i, x in enumerate(t.elts):
                            env[x.id] = ('kres', i)
                    else:
                        for i, x in enumerate(t.elts):
                            if isinstance(x, ast.Name):
                                env[x.id] = ('unpack', v, i)
                elif isinstance(t, ast.Attribute):
                    self.mut.append((norm(t), env.get(norm(t.value)), t.attr))
                elif isinstance(t, ast.Subscript):
                    self.mut.append((norm(t), env.get(norm(t.value)), '[]'))
            elif isinstance(s, ast.Expr):
                self.ev(f, s.value, env, depth)
            elif isinstance(s, ast.If):
                e1, r1 = self.block(f, s.body, dict(env), depth)
                e2, r2 = self.block(f, s.orelse, dict(env), depth)
                for k in set(e1) | set(e2):
                    a, b_ = e1.get(k, ('undef',)), e2.get(k, ('undef',))
                    env[k] = a if a == b_ else ('phi', a, b_)
                if r1 is not None or r2 is not None:
                    ret = r1 if r1 == r2 else ('phi', r1, r2) if ret is None else ret
            elif isinstance(s, ast.Return) and s.value is not None:
                ret = self.ev(f, s.value, env, depth)
                break
        return env, ret


def analyse(prog, rep, pubname, mode):
    m = prog.module('zonal')
    pub = m.funcs.get(pubname)
    if pub is None:
        raise AnalysisIncomplete('zonal.%s not found' % pubname)
    # the scan kernel call and the window returned by the wrapper (through helpers, any local names)
    w = _Win(prog, None)
    penv = {p: ('param', p) for p in pub.params}
    retval = w.run(pub, penv)
    if w.kcall is None:
        raise AnalysisIncomplete('%s: scan kernel call not found' % pubname)
    kcall_node, kern, kargs = w.kcall
    # a kernel that first classifies every cell into a boolean scratch array and then scans that array is read as the scan
    # over the classification itself (maskview.py; exact or not done at all)
    from ..maskview import unmask_view
    kern = unmask_view(prog, kern)
    entry = pubname
    # parameter roles from what the kernel does with them: the raster is the one indexed [row, col] / asked for its shape,
    # the list is the other one
    def is_raster(fn, p, depth=0):
        for x in ast.walk(fn.node):
            if (isinstance(x, ast.Subscript) and isinstance(x.value, ast.Name) and x.value.id == p and
                    isinstance(x.slice, ast.Tuple) and len(x.slice.elts) == 2) or \
                    (isinstance(x, ast.Attribute) and x.attr == 'shape' and isinstance(x.value, ast.Name) and x.value.id == p):
                return True
            if isinstance(x, ast.Call) and depth < 3:
                g_ = prog.resolve_callable(fn, fn.module, x.func)
                if isinstance(g_, Func) and g_ is not fn:
                    for q, a in list(zip(g_.params, x.args)) + [(k_.arg, k_.value) for k_ in x.keywords if k_.arg]:
                        if isinstance(a, ast.Name) and a.id == p and q in g_.params and is_raster(g_, q, depth + 1):
                            return True
        return False
    dcand = [p for p in kern.params if is_raster(kern, p)]
    if len(kern.params) != 2 or len(dcand) != 1:
        raise AnalysisIncomplete('%s: raster / list parameters of the scan kernel not identified (%s)' % (kern.qualname, dcand))
    data = dcand[0]
    listparam = [p for p in kern.params if p != data][0]
    try:
        ext, data_ = shape_names(kern)
    except AnalysisIncomplete:
        ext = {}
    loops = [s for s in kern.node.body if isinstance(s, ast.For)]
    results = []
    unread = []
    earlier = {}
    from ..kai import interpret
    try:
        # phases of a split kernel (row scans / column scans in functions of their own) are executed in place
        kk = interpret(prog, kern, strict=False, inline_all=lambda g_: g_.jit is not None and prog.same_unit(kern.module, g_.module))
    except AnalysisIncomplete:
        kk = None
    ktops = []
    if kk is not None:
        # the outermost loops of the interpretation, in program order (wherever their text lives)
        allnodes = {id(L.node): L for L in kk.loops}
        for L in kk.loops:
            if not any(M is not L and any(x is L.node for x in ast.walk(M.node)) for M in kk.loops):
                ktops.append(L)
    if not loops and ktops:
        loops = [L.node for L in ktops]
    for lp in loops:
        r = None
        O = next((L for L in kk.loops if L.node is lp), None) if kk is not None else None
        if O is not None and (getattr(O, 'iterable', None) == ('param', listparam) or getattr(getattr(O, 'iterable', None), 'name', None) == listparam):
            continue          # a pass over the value list (something computed once before the scans), not a scan of the raster
        if O is not None:
            mark = len(rep.obs)
            try:
                r = analyse_scan_k(prog, rep, kern, entry, kk, O, mode, dict(earlier), data, listparam)
            except (_Unrecognised, KeyError, AttributeError, IndexError, TypeError) as ex_:
                if os.environ.get('XRSA_DEBUG'):
                    import traceback
                    traceback.print_exc()
                del rep.obs[mark:]          # not a shape the interpreted rule models: the syntactic rule decides
                r = None
        if r is None:
            mark = len(rep.obs)
            r = analyse_scan(prog, rep, kern, entry, lp, ext, data, listparam, mode, dict(earlier))
            if O is not None:
                # the syntactic rule knows one arrangement of a scan; on a loop the interpreter did read but the semantic rule
                # does not model, its "not that arrangement" is no refutation: the scan stays undecided
                from ..report import REFUTED, UNDECIDED
                for ob in rep.obs[mark:]:
                    if ob.status == REFUTED:
                        ob.status = UNDECIDED
                        unread.append(lp)
        results.append(r)
        if r and r[2]:
            earlier[(r[0], r[1])] = r[2]
    got = [(r[0], r[1]) for r in results if r]
    okscan = got == EXPECT or sorted(got) == sorted(EXPECT)
    rep.add('T2-scan', kern, entry, 'scan directions %s' % got, kern.node.lineno, okscan if okscan or not unread else None,
            'exactly four scans are needed: rows ascending, rows descending, columns ascending, columns descending')
    role = {}
    for r in results:
        if r and r[2]:
            role[(r[0], r[1])] = r[2]
    # return order
    rets = [n for n in kern.own_nodes() if isinstance(n, ast.Return)]
    okr = len(rets) == 1 and isinstance(rets[0].value, ast.Tuple) and \
        [norm(e) for e in rets[0].value.elts] == [role.get(k) for k in EXPECT]
    if not okr and kk is not None and len(kk.returns) == 1 and hasattr(kk.returns[0][0], 'items') and len(kk.returns[0][0].items) == 4:
        # by value: component i of the returned tuple is the bound left by the i-th expected scan
        from ..sym import App as _App
        seq = []
        for it_ in kk.returns[0][0].items:
            a_ = None
            if isinstance(it_, Rat) and it_.d.is_const() and len(it_.n.t) == 1:
                (mm_, cc_), = it_.n.t.items()
                a_ = mm_[0][0] if len(mm_) == 1 and mm_[0][1] == 1 else None
            L_ = next((L for L in kk.loops if isinstance(a_, _App) and a_.name == 'loopout' and Rat.sym(L.var) == a_.args[1]), None)
            nm_ = next(iter(a_.args[0].atoms())).name if L_ is not None and isinstance(a_.args[0], Rat) else None
            r_ = next((r for r, lp_ in zip(results, loops) if r and L_ is not None and lp_ is L_.node), None)
            seq.append((r_[0], r_[1]) if r_ and r_[2] == nm_ else None)
        okr = seq == EXPECT
    rep.add('T3-order', kern, entry, norm(rets[0]) if rets else 'return', rets[0].lineno if rets else kern.node.lineno, okr,
            'the kernel must return (top, bottom, left, right) = bounds of (rows asc, rows desc, cols asc, cols desc); '
            'bounds by scan: %s' % role)
    # wrapper: scanned raster, value list, returned window
    scan_p = pub.params[0]
    list_p = pub.params[{'trim': 1, 'crop': 2}[mode]]
    di, li = kern.params.index(data), kern.params.index(listparam)
    ok_in = len(kargs) == 2 and kargs[di] in (('attr', ('param', scan_p), 'data'), ('attr', ('param', scan_p), 'values')) and \
        kargs[li] == ('param', list_p)
    rep.add('T3-input', pub, entry, norm(kcall_node), kcall_node.lineno, ok_in,
            'the scan must read the `%s` raster and the caller\'s value list `%s`' % (scan_p, list_p))
    sliced = pub.params[0] if mode == 'trim' else pub.params[1]
    kr = lambda i: ('kres', i)   # noqa
    want = ('index', ('param', sliced), ('tuple', [('slice', kr(0), ('add', kr(1), ('const', 1))),
                                                  ('slice', kr(2), ('add', kr(3), ('const', 1)))]))
    rep.add('T3-slice', pub, entry, 'returned window: %s' % (retval,), pub.node.lineno, retval == want,
            'the result must be the basic slice [top:bottom+1, left:right+1] (inclusive upper bounds, rows then columns) '
            'of `%s`, built from the kernel\'s (top, bottom, left, right)' % sliced)
    bad = [m for m in getattr(w, 'mut', []) if m[2] != 'name']
    rep.add('T3-return', pub, entry, 'only the name of the window is set: %s' % [m[0] for m in getattr(w, 'mut', [])],
            pub.node.lineno, not bad,
            'the function must return that slice itself (cells, coordinates and attributes of the original), only its '
            'name may be set')


def check(prog, rep):
    analyse(prog, rep, 'trim', 'trim')
    analyse(prog, rep, 'crop', 'crop')
    rep.floor('T2-stop', 8)
    rep.floor('T2-index', 8)
    rep.floor('T2-keep', 8)
    rep.floor('T1', 4)
    rep.floor('T3-slice', 2)
