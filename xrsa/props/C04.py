"""C04 - cross-tabulation is a true contingency table under any zone/category selection.

Decided on the functions reachable from zonal.crosstab (both backends): Z1 the category cursor advances for every
category (selected or not), Z2 rows labelled in the order they are computed, Z3 validity mask at every counting /
aggregation site and in category discovery, counts keyed by their own category, total taken before selection,
percentage = count / total * 100 after the merge, 3-D aggregate from the default table, Z4/Z4b shared bookkeeping.
"""
from .. import zonalrules as Z


def check(prog, rep):
    m, pub, fs = Z.zonal_funcs(prog, 'crosstab')
    entry = lambda f: 'crosstab'   # noqa
    Z.check_cursors(rep, fs, 'C04', entry, prog=prog)
    Z.check_zone_labels(prog, rep, fs, entry)
    Z.check_validity(prog, rep, fs, entry)
    Z.check_selection(prog, rep, fs, entry, 'zone_ids')
    Z.check_selection(prog, rep, fs, entry, 'cat_ids')
    Z.check_unique_zones(prog, rep, fs, entry)
    Z.check_index_space(prog, rep, fs, entry)
    Z.check_flatten_order(prog, rep, fs, entry)
    Z.check_positional_id_use(prog, rep, fs, entry)
    Z.check_crosstab_keys(prog, rep, m, 'crosstab')
    from ..sharedrules import check_values_keep_dtype, check_value_truthiness
    check_values_keep_dtype(prog, rep, 'Z3-dtype', pub, 'crosstab')
    check_value_truthiness(prog, rep, 'Z3-truth', pub, 'crosstab')
    rep.floor('Z3-truth', 1)
    rep.floor('Z3-dtype', 1)
    Z.check_crosstab_merge(prog, rep, m, 'crosstab')
    Z.check_strides(prog, rep, m, 'crosstab')      # the stride routine (its cursor is decided there, semantically)
    Z.check_alignment(prog, rep, m, 'crosstab', 'crosstab[dask]')       # the blocks that are paired are the aligned ones
    Z.check_layer_dim(prog, rep, m.funcs['crosstab'], 'crosstab')
    Z.cursor_floor(prog, rep, pub, 1)
    rep.floor('X-layer', 1)
    rep.floor('Z2', 2)
    rep.floor('Z3', 3)
    rep.floor('Z4', 2)
    rep.floor('X-key', 3)
