"""C14 - A* returns a valid, shortest path between the cells the caller named  (chain validity and end points decided;
optimality declined).

A1 coordinate -> cell is round-to-nearest with the cell size and origin of its own axis; A2 step cost and heuristic are
the same Euclidean metric (admissible, consistent); A3 neighbourhood tables are exactly the 8 / 4 unit offsets, consumed
in (row, col) order; A4 the path image receives g-costs (never f = g + h), start = 0, NaN-initialised; A5 a neighbour is
relaxed only after the bounds, crossable and closed tests, with g = g[current] + distance(current, neighbour), parent =
current; A6 snapping is an argmin over crossable cells whose running minimum starts above every attainable distance.
"""
import ast

from ..astutil import calls, const, kw, parent_map, short
from ..kai import cond_key, cmp_cond, interpret
from ..kutil import Spec, show
from ..program import AnalysisIncomplete, Func, norm
from ..sym import App, Rat

UNIT8 = {(-1, -1), (-1, 0), (-1, 1), (0, -1), (0, 1), (1, -1), (1, 0), (1, 1)}
UNIT4 = {(0, -1), (-1, 0), (1, 0), (0, 1)}
# argmin loops whose initial value is not +inf, accepted with their reason (DESIGN C14-A6)
ARGMIN_TABLE = {'_min_cost_pixel_id': ('(height + width) ** 2',
                                       'f = g + h <= sqrt(2)*h*w + diagonal < 4*h*w <= (h+w)^2 for every reachable cell')}


def check_pixel_id(prog, rep, m):
    f = m.funcs.get('_get_pixel_id')
    if f is None:
        raise AnalysisIncomplete('_get_pixel_id not found')
    entry = 'a_star_search'
    res = {}
    for n in f.own_nodes():
        if isinstance(n, ast.Assign) and isinstance(n.value, ast.Call):
            t = prog.resolve_callable(f, m, n.value.func)
            if isinstance(t, Func) and t.name == 'get_dataarray_resolution' and isinstance(n.targets[0], ast.Tuple):
                res[n.targets[0].elts[0].id] = Rat.sym('cellsize_x')
                res[n.targets[0].elts[1].id] = Rat.sym('cellsize_y')
    coords = {}
    for n in f.own_nodes():
        if isinstance(n, ast.Assign) and isinstance(n.targets[0], ast.Name) and 'coords[' in norm(n.value):
            t = norm(n.value)
            if 'ydim' in t:
                coords[n.targets[0].id] = 'y'
            elif 'xdim' in t:
                coords[n.targets[0].id] = 'x'
    rets = [n for n in f.own_nodes() if isinstance(n, ast.Return)]
    if len(rets) != 1 or not isinstance(rets[0].value, ast.Tuple) or len(rets[0].value.elts) != 2 or len(res) != 2:
        rep.add('A1', f, entry, '_get_pixel_id', f.node.lineno, None, 'expected `return py, px` and the resolution unpacking')
        return
    env = dict(res)
    env['point'] = Rat.sym('point')   # subscripted below
    from ..kai import TupleV
    env['point'] = TupleV([Rat.sym('point_y'), Rat.sym('point_x')])
    for cn, ax in coords.items():
        env[cn] = TupleV([Rat.sym('origin_' + ax)])
    sp = Spec(prog, env, m)
    for axis, (retname, ax) in enumerate(zip(rets[0].value.elts, ('y', 'x'))):
        vals = [v for v in f.local_assigns().get(norm(retname), []) if isinstance(v, ast.AST)]
        if len(vals) != 1:
            rep.add('A1', f, entry, 'pixel index %s' % norm(retname), f.node.lineno, None, 'single definition not found')
            continue
        v = vals[0]
        ok = False
        why = ''
        try:
            got = sp.it.as_scalar(sp.it.ev(v))
            q = sp.it.app('abs', [Rat.sym('point_' + ax) - Rat.sym('origin_' + ax)]) / Rat.sym('cellsize_' + ax)
            at = None
            if got.d.is_const() and len(got.n.t) == 1:
                (mm, c), = got.n.t.items()
                if len(mm) == 1 and isinstance(mm[0][0], App) and c == got.d.const_value():
                    at = mm[0][0]
            if at is not None and at.name == 'int':
                # int(round(q)) / int(np.rint(q))
                inner = at.args[0]
                if inner.d.is_const() and len(inner.n.t) == 1:
                    (m2, c2), = inner.n.t.items()
                    if len(m2) == 1 and isinstance(m2[0][0], App) and m2[0][0].name == 'round' and c2 == inner.d.const_value():
                        at = m2[0][0]
            if at is not None and at.name == 'int':
                d = at.args[0] - q
                ok = d.is_const() and d.const_value() == 0.5 or (d.is_const() and str(d.const_value()) == '1/2')
                why = 'int(q %+s): truncation maps a cell\'s own coordinate to the previous cell when q is e.g. 6.9999' % (
                    d.const_value() if d.is_const() else '?')
            elif at is not None and at.name == 'round':
                inner = at.args[0]
                if inner.d.is_const() and len(inner.n.t) == 1:
                    pass
                ok = (at.args[0] - q).is_const() and (at.args[0] - q).const_value() == 0
                why = 'round(q)'
            else:
                why = 'unrecognised form %s' % show(got, 120)
        except AnalysisIncomplete as e:
            why = str(e)
        rep.add('A1', f, entry, '%s = %s' % (norm(retname), norm(v)), v.lineno, ok,
                'a coordinate denotes the cell whose centre is nearest: the %s index must be round-to-nearest of '
                '|point_%s - origin_%s| / cellsize_%s (int(q + 0.5), round); %s' % ('row' if ax == 'y' else 'column', ax, ax, ax, why))


def check_metric(prog, rep, m):
    entry = 'a_star_search'
    d = m.funcs.get('_distance')
    h = m.funcs.get('_heuristic')
    if d is None or h is None:
        raise AnalysisIncomplete('_distance / _heuristic not found')
    kd = interpret(prog, d)
    want = Spec(prog, {p: Rat.sym(p) for p in d.params}).expr('sqrt((%s - %s) ** 2 + (%s - %s) ** 2)' % (
        d.params[0], d.params[2], d.params[1], d.params[3]))
    got = kd.returns[0][0] if kd.returns else None
    rep.add('A2', d, entry, '_distance = %s' % show(got, 120), d.node.lineno, isinstance(got, Rat) and got == want,
            'the step cost must be the Euclidean distance between the two pixels (1 for edge steps, sqrt 2 for diagonals)')
    kh = interpret(prog, h)
    goth = kh.returns[0][0] if kh.returns else None
    wanth = Spec(prog, {p: Rat.sym(p) for p in h.params}).expr('sqrt((%s - %s) ** 2 + (%s - %s) ** 2)' % (
        h.params[0], h.params[2], h.params[1], h.params[3]))
    ok = isinstance(goth, Rat) and (goth == wanth or goth == Rat.const(0))
    if isinstance(goth, Rat) and not ok and not wanth.n.is_zero():
        r = goth / wanth
        ok = r.is_const() and 0 <= r.const_value() <= 1
    rep.add('A2', h, entry, '_heuristic = %s' % show(goth, 120), h.node.lineno, ok,
            'the heuristic must never overestimate the remaining cost: Euclidean distance (or a fraction of it, or 0); '
            'e.g. Manhattan distance is inadmissible with diagonal steps and loses optimality')


def check_tables(prog, rep, m):
    entry = 'a_star_search'
    f = m.funcs.get('_neighborhood_structure')
    if f is None:
        raise AnalysisIncomplete('_neighborhood_structure not found')
    ifs = [n for n in f.node.body if isinstance(n, ast.If)]
    ok = len(ifs) == 1 and norm(ifs[0].test).replace(' ', '') == 'connectivity==8'
    if not ok:
        rep.add('A3', f, entry, 'connectivity branch', f.node.lineno, None, '`if connectivity == 8` not found')
        return
    for label, body, want in (('8', ifs[0].body, UNIT8), ('4', ifs[0].orelse, UNIT4)):
        tab = {}
        for s in body:
            if isinstance(s, ast.Assign) and isinstance(s.targets[0], ast.Name):
                tab[s.targets[0].id] = const(s.value)
        ys, xs = tab.get('neighbor_ys'), tab.get('neighbor_xs')
        good = isinstance(ys, list) and isinstance(xs, list) and len(ys) == len(xs) == len(want) and \
            set(zip(ys, xs)) == want
        rep.add('A3', f, entry, '%s-connectivity offsets %s' % (label, sorted(zip(ys or [], xs or []))), ifs[0].lineno, good,
                'the %s-neighbourhood must be exactly the %s unit offsets' % (label, len(want)))
    rets = [n for n in f.own_nodes() if isinstance(n, ast.Return)]
    ok = len(rets) == 1 and norm(rets[0].value).replace(' ', '') == '(np.array(neighbor_ys),np.array(neighbor_xs))'
    rep.add('A3', f, entry, norm(rets[0]) if rets else 'return', f.node.lineno, ok, 'tables are returned as (rows, cols)')
    pub = m.funcs.get('a_star_search')
    ok = any(isinstance(n, ast.Assign) and norm(n).replace(' ', '') ==
             'neighbor_ys,neighbor_xs=_neighborhood_structure(connectivity)' for n in pub.own_nodes())
    rep.add('A3', pub, entry, 'neighbor_ys, neighbor_xs = _neighborhood_structure(connectivity)', pub.node.lineno, ok,
            'tables are unpacked as (rows, cols) with the caller\'s connectivity')
    ok = any(isinstance(n, ast.If) and norm(n.test).replace(' ', '') == 'connectivity!=4andconnectivity!=8' for n in pub.own_nodes())
    rep.add('A3', pub, entry, 'connectivity validated', pub.node.lineno, ok, 'only 4 and 8 are meaningful')


def check_search(prog, rep, m):
    entry = 'a_star_search'
    f = m.funcs.get('_a_star_search')
    pub = m.funcs.get('a_star_search')
    if f is None:
        raise AnalysisIncomplete('_a_star_search not found')
    loops = [n for n in f.own_nodes() if isinstance(n, ast.For) and 'zip(' in norm(n.iter)]
    if len(loops) != 1:
        rep.add('A5', f, entry, 'neighbour loop', f.node.lineno, None, 'loop over the neighbour offsets not found')
        return
    lp = loops[0]
    ok = norm(lp.iter).replace(' ', '') == 'zip(neighbor_ys,neighbor_xs)' and norm(lp.target).replace(' ', '') in ('(y,x)', 'y,x')
    body = lp.body
    ny = nx = None
    for s in body:
        if isinstance(s, ast.Assign) and norm(s.value).replace(' ', '') == 'py+y':
            ny = s.targets[0].id
        if isinstance(s, ast.Assign) and norm(s.value).replace(' ', '') == 'px+x':
            nx = s.targets[0].id
    rep.add('A3', f, entry, 'neighbour = (py + y, px + x) for (y, x) in zip(rows table, cols table)', lp.lineno,
            ok and ny is not None and nx is not None, 'row offsets must be added to the row index and column offsets to the column index')
    if ny is None or nx is None:
        return
    # guards (continue) in order
    guards = [(i, s) for i, s in enumerate(body) if isinstance(s, ast.If) and len(s.body) == 1 and isinstance(s.body[0], ast.Continue)]
    stores = [(i, s) for i, s in enumerate(body) if isinstance(s, ast.Assign) and isinstance(s.targets[0], ast.Subscript)]
    first_store = min([i for i, s in stores], default=None)
    env = {ny: Rat.sym('ny'), nx: Rat.sym('nx'), 'height': Rat.sym('H'), 'width': Rat.sym('W')}
    sp = Spec(prog, env, m)

    def bounds_ok(test):
        try:
            c = sp.it.cond_of(sp.it.ev(test), test)
        except AnalysisIncomplete:
            return False
        if c[0] != 'or':
            return False
        keys = {cond_key(x) for x in c[1:]}
        NY, NX, H, W = Rat.sym('ny'), Rat.sym('nx'), Rat.sym('H'), Rat.sym('W')
        one = Rat.const(1)
        zero = Rat.const(0)
        alts = [
            {cond_key(cmp_cond('>', NY, H - one)), cond_key(cmp_cond('>=', NY, H))},
            {cond_key(cmp_cond('<', NY, zero)), cond_key(cmp_cond('<=', NY, -one))},
            {cond_key(cmp_cond('>', NX, W - one)), cond_key(cmp_cond('>=', NX, W))},
            {cond_key(cmp_cond('<', NX, zero)), cond_key(cmp_cond('<=', NX, -one))},
        ]
        return len(keys) == 4 and all(keys & a for a in alts)
    kinds = []
    for i, s in guards:
        if first_store is not None and i > first_store:
            continue
        t = norm(s.test).replace(' ', '')
        if bounds_ok(s.test):
            kinds.append('bounds')
        elif t in ('_is_not_crossable(data[%s][%s],barriers)' % (ny, nx), '_is_not_crossable(data[%s,%s],barriers)' % (ny, nx)):
            kinds.append('crossable')
        elif t in ('is_closed[%s,%s]' % (ny, nx), 'is_closed[%s][%s]' % (ny, nx)):
            kinds.append('closed')
        else:
            kinds.append('other:' + t[:50])
    rep.add('A5', f, entry, 'guards before relaxation: %s' % kinds, lp.lineno,
            kinds[:1] == ['bounds'] and set(kinds) >= {'bounds', 'crossable', 'closed'} and kinds.index('bounds') == 0,
            'a neighbour may be relaxed only after (1) the in-raster test on both axes with their own extents, (2) the '
            'crossable test (barrier / NaN), (3) the closed-set test; the bounds test must come first')
    # g update
    dvals = [s for s in body if isinstance(s, ast.Assign) and isinstance(s.targets[0], ast.Name) and '_distance(' in norm(s.value)]
    okd = False
    gname = None
    if len(dvals) == 1:
        v = dvals[0].value
        t = norm(v).replace(' ', '')
        for g in ('d_from_start',):
            pass
        if isinstance(v, ast.BinOp) and isinstance(v.op, ast.Add) and isinstance(v.left, ast.Subscript):
            gname = norm(v.left.value)
            okd = norm(v.left.slice).replace(' ', '') in ('(py,px)', 'py,px') and \
                norm(v.right).replace(' ', '') in ('_distance(px,py,%s,%s)' % (nx, ny), '_distance(%s,%s,px,py)' % (nx, ny))
    rep.add('A5', f, entry, norm(dvals[0]) if dvals else 'tentative cost', lp.lineno, okd,
            'the tentative cost of a neighbour is g[current] + distance(current, neighbour) with (x, y) arguments in '
            'the metric\'s order')
    if gname:
        dn = dvals[0].targets[0].id
        st = {norm(s.targets[0]).replace(' ', ''): norm(s.value).replace(' ', '') for i, s in stores}
        okg = st.get('%s[%s,%s]' % (gname, ny, nx)) == dn
        okp = st.get('parent_ys[%s,%s]' % (ny, nx)) == 'py' and st.get('parent_xs[%s,%s]' % (ny, nx)) == 'px'
        rep.add('A5', f, entry, 'g[neighbour] = d; parent[neighbour] = (py, px)', lp.lineno, okg and okp,
                'relaxation must record the tentative cost and the current cell as the parent (rows with rows, columns with columns)')
        # better-path test
        bt = [s for i, s in guards if 'is_open' in norm(s.test)]
        okb = len(bt) == 1 and norm(bt[0].test).replace(' ', '') in (
            'is_open[%s,%s]andd>%s[%s,%s]' % (ny, nx, gname, ny, nx), 'is_open[%s,%s]andd>=%s[%s,%s]' % (ny, nx, gname, ny, nx))
        rep.add('A5', f, entry, norm(bt[0].test) if bt else 'open-list test', lp.lineno, okb,
                'a cell already in the open list is updated only when the new cost is not larger')
        # A4: the path image receives g
        rc = [c for c in calls(f.node) if short(c) == '_reconstruct_path']
        ok4 = len(rc) == 1 and len(rc[0].args) >= 4 and norm(rc[0].args[3]) == gname and norm(rc[0].args[0]) == f.params[1]
        rep.add('A4', f, entry, norm(rc[0])[:120] if rc else '_reconstruct_path call', lp.lineno, ok4,
                'the path image must be filled from the cost-from-start array (g), not from f = g + heuristic')
        s0 = any(isinstance(s, ast.Assign) and norm(s.targets[0]).replace(' ', '') == '%s[start_py,start_px]' % gname and
                 const(s.value) == 0 for s in f.own_nodes())
        rep.add('A4', f, entry, '%s[start] = 0' % gname, f.node.lineno, s0, 'the start cell has cost 0')
    # goal test / termination
    gt = [n for n in f.own_nodes() if isinstance(n, ast.If) and norm(n.test).replace(' ', '') == '(py,px)==(goal_py,goal_px)']
    rep.add('A5', f, entry, 'goal test on the popped cell', f.node.lineno, len(gt) == 1 and
            any(isinstance(x, ast.Return) for x in gt[0].body), 'the search stops when the goal is popped (its cost is final then)')
    # reconstruct
    r = m.funcs.get('_reconstruct_path')
    if r is not None:
        t = {norm(s).replace(' ', '') for s in r.own_nodes() if isinstance(s, ast.Assign)}
        ok = 'path_img[current_y,current_x]=cost[current_y,current_x]' in t and \
            'path_img[start_py,start_px]=cost[start_py,start_px]' in t and \
            'parent_y=parent_ys[current_y,current_x]' in t and 'parent_x=parent_xs[current_y,current_x]' in t and \
            'current_y=parent_y' in t and 'current_x=parent_x' in t
        rep.add('A4', r, entry, 'back-pointer walk copies cost[cell] into path_img[cell]', r.node.lineno, ok,
                'the path is the chain of parent pointers from goal to start; each path cell holds its cumulative cost')
    # wrapper: NaN initialised image
    t = [norm(s).replace(' ', '') for s in pub.own_nodes() if isinstance(s, ast.Assign)]
    ok = 'path_img[:]=np.nan' in t and any(x.startswith('path_img=np.zeros_like(surface') for x in t)
    rep.add('A4', pub, entry, 'path image NaN-initialised', pub.node.lineno, ok, 'cells off the path (and everything when '
            'no route exists) must be NaN')
    # crossable predicate
    c = m.funcs.get('_is_not_crossable')
    if c is not None:
        ifs = [n for n in c.node.body if isinstance(n, ast.If)]
        oknan = bool(ifs) and norm(ifs[0].test).replace(' ', '') == 'np.isnan(cell_value)' and norm(ifs[0].body[0]) == 'return True'
        okb = any(isinstance(n, ast.If) and norm(n.test).replace(' ', '') in ('cell_value==i', 'i==cell_value') and
                  norm(n.body[0]) == 'return True' for n in c.own_nodes())
        last = norm(c.node.body[-1]) == 'return False'
        rep.add('A5', c, entry, '_is_not_crossable: NaN or any barrier value', c.node.lineno, oknan and okb and last,
                'NaN cells and cells equal to a barrier value are not crossable; everything else is')


def check_argmin(prog, rep, m):
    entry = 'a_star_search'
    n = 0
    for f in m.funcs.values():
        if f.jit is None:
            continue
        # running-minimum loops: `if <...> X < m: m = X; record`
        for i in [x for x in f.own_nodes() if isinstance(x, ast.If)]:
            tests = i.test.values if isinstance(i.test, ast.BoolOp) and isinstance(i.test.op, ast.And) else [i.test]
            for t in tests:
                if isinstance(t, ast.Compare) and len(t.ops) == 1 and isinstance(t.ops[0], (ast.Lt, ast.LtE)) and \
                        isinstance(t.comparators[0], ast.Name):
                    mv = t.comparators[0].id
                    if any(isinstance(s, ast.Assign) and norm(s.targets[0]) == mv and norm(s.value) == norm(t.left) for s in i.body):
                        inits = [v for v in f.local_assigns().get(mv, []) if isinstance(v, ast.AST) and norm(v) != norm(t.left)]
                        txt = norm(inits[0]) if inits else None
                        ok = txt in ('np.inf', 'numpy.inf', "float('inf')", 'math.inf', 'inf')
                        table = ARGMIN_TABLE.get(f.name)
                        if not ok and table and table[0] == txt:
                            ok = True
                        n += 1
                        rep.add('A6', f, entry, '%s: running minimum `%s` starts at %s' % (f.name, mv, txt), i.lineno, ok,
                                'an argmin with a strict `<` test finds nothing when its initial value is attainable: it must '
                                'start at +inf (a corner-to-corner distance IS attained by the opposite corner, so the only '
                                'crossable cell there is never snapped to)')
    f = m.funcs.get('_find_nearest_pixel')
    if f is not None:
        t = [norm(s).replace(' ', '') for s in f.own_nodes()]
        okself = any(isinstance(s, ast.If) and norm(s.test).replace(' ', '') == 'not_is_not_crossable(data[py,px],barriers)'
                     and isinstance(s.body[0], ast.Return) and norm(s.body[0].value).replace(' ', '') in ('(py,px)', 'py,px') for s in f.own_nodes())
        okc = any(isinstance(s, ast.If) and norm(s.test).replace(' ', '') == 'not_is_not_crossable(data[y,x],barriers)' for s in f.own_nodes())
        okd = any(isinstance(s, ast.Assign) and norm(s.value).replace(' ', '') in ('_distance(x,y,px,py)', '_distance(px,py,x,y)') for s in f.own_nodes())
        rep.add('A6', f, entry, 'snapping: crossable end point kept; candidates are crossable cells; Euclidean pixel distance',
                f.node.lineno, okself and okc and okd,
                'snapping moves an end point to the nearest crossable cell and leaves a crossable end point alone')
    return n


def check(prog, rep):
    m = prog.module('pathfinding')
    check_pixel_id(prog, rep, m)
    check_metric(prog, rep, m)
    check_tables(prog, rep, m)
    check_search(prog, rep, m)
    check_argmin(prog, rep, m)
    rep.floor('A1', 2)
    rep.floor('A2', 2)
    rep.floor('A3', 5)
    rep.floor('A4', 4)
    rep.floor('A5', 5)
    rep.floor('A6', 3)
