"""C14 - A* returns a valid, shortest path between the cells the caller named  (chain validity and end points decided;
optimality declined).

Decided on the abstract interpretation of the numba helpers (stores, guards, loop-carried updates, inlined helper
records) by exact evaluation over finite decision tables, and on the wrapper's dataflow:
A1 coordinate -> cell is round-to-nearest with the cell size and origin of its own axis; A2 step cost and heuristic are
the same Euclidean metric (admissible, consistent); A3 neighbourhood tables are exactly the 8 / 4 unit offsets, row
offsets reach the row index and column offsets the column index; A4 the path image receives g-costs (never f = g + h),
start = 0, NaN-initialised, the back-pointer walk copies cost[cell] along parent pointers from goal to start; A5 a
neighbour is relaxed exactly when it is inside the raster, crossable, not closed and (not open or not worse), with
g = g[current] + distance(current, neighbour), f = g + admissible heuristic, parent = current, the array reads guarded by
the bounds test; the current cell is the min-f open cell, popped and closed; the search stops at the goal; A6 argmin
loops (min-cost open cell, snapping) scan every cell with a strict running minimum that starts above every attainable
value.
"""
import ast
from fractions import Fraction

from ..astutil import calls, const, kw, short
from ..kai import Arr, TupleV, cond_repr, flatten_and, interpret
from ..kutil import CannotEvaluate, Spec, eval_cond_full, evaluate, guard_atoms, show
from ..program import AnalysisIncomplete, Func, norm
from ..sym import App, Rat, Sym, subst, walk_atoms

UNIT8 = {(-1, -1), (-1, 0), (-1, 1), (0, -1), (0, 1), (1, -1), (1, 0), (1, 1)}
UNIT4 = {(0, -1), (-1, 0), (1, 0), (0, 1)}
# argmin loops whose initial value is not +inf, accepted with their reason (DESIGN C14-A6); keyed by the normalised
# initial value as the interpreter sees it
ARGMIN_TABLE = {"2*shape('cost', 0)*shape('cost', 1) + shape('cost', 0)^2 + shape('cost', 1)^2":
                'f = g + h <= sqrt(2)*h*w + diagonal < 4*h*w <= (h+w)^2 for every reachable cell'}
ENTRY = 'a_star_search'


def F(x):
    return Fraction(x)


def _all(guards, env):
    return all(eval_cond_full(g, env) for g in guards)


# ------------------------------------------------------------------------------------------------ A1
def check_pixel_id(prog, rep, m, c):
    """A1 on the wrapper terms of the public function: what reaches the search kernel as (start row, start column, goal row,
    goal column) is, without snapping, round-to-nearest of |point[axis] - coords[axis-dim][0]| / cellsize[axis], each
    from its own axis.  Helper names, parameter names and orders do not matter: the helpers are evaluated in place."""
    from ..wterm import WT, resolve, to_rat, atom_term, single_atom_term, show as tshow, key as tkey, mentions
    pub, kern = c.pub, c.kernel
    res = prog.module('utils').funcs.get('get_dataarray_resolution')
    if res is None or res.params[1:3] != ['xdim', 'ydim']:
        raise AnalysisIncomplete('utils.get_dataarray_resolution(agg, xdim, ydim) not found')
    w = WT(prog, depth=4, keep=[res])
    w.run(pub)
    recs = [x for x in w.calls if x.callee is kern]
    if len(recs) != 1:
        raise AnalysisIncomplete('a_star_search: %d calls of the search kernel in the wrapper terms' % len(recs))
    rec = recs[0]
    if not getattr(c, 'start_params', None) or not getattr(c, 'goal_params', None):
        rep.add('A1', pub, ENTRY, 'start / goal cell handed to the kernel', rec.node.lineno, None, 'kernel start / goal parameters not identified')
        return
    surf = ('param', pub.params[0])
    rescalls = {tkey(x.result): x for x in w.calls if x.callee is res}
    for point, params in (('start', c.start_params), ('goal', c.goal_params)):
        for ax, kp in zip(('y', 'x'), params):
            term = rec.bound.get(kp)
            label = '%s %s index (kernel parameter %s)' % (point, 'row' if ax == 'y' else 'column', kp)
            if term is None:
                rep.add('A1', pub, ENTRY, label, rec.node.lineno, None, 'not bound in the kernel call')
                continue
            for given in (True, False):
                def decide(cnd, given=given):
                    if cnd[0] == 'param' and cnd[1].startswith('snap_'):
                        return False
                    if cnd[0] == 'cmp' and cnd[1] in ('Is', 'IsNot') and ('const', None) in (cnd[2], cnd[3]):
                        other = cnd[3] if cnd[2] == ('const', None) else cnd[2]
                        if other in (('param', 'x'), ('param', 'y')):
                            return (cnd[1] == 'Is') != given
                    return None
                t = resolve(term, decide)
                ok, why = _nearest_cell(t, point, ax, given, surf, rescalls, res)
                if ok is None:
                    mv = _pixel_models(t, point, ax, surf, rescalls, pub)
                    if mv is not None:
                        ok = not mv
                        why = ('agrees with the nearest cell centre on every model raster' if ok else
                               'on a raster with %s coordinates %s (cell size %s) the point %s=%s is the centre of cell %d, the formula gives %s' % mv[0])
                rep.add('A1', pub, ENTRY, '%s, dimension names %s' % (label, 'given' if given else 'defaulted'), rec.node.lineno, ok,
                        'a coordinate denotes the cell whose centre is nearest: the %s index must be round-to-nearest of '
                        '|%s[%d] - %s-coordinate[0]| / cellsize_%s (int(q + 0.5), round); %s'
                        % ('row' if ax == 'y' else 'column', point, 0 if ax == 'y' else 1, ax, ax, why))


def _pixel_models(t, point, ax, surf, rescalls, pub):
    """the pixel-index term evaluated on model rasters: coordinates ascending and descending, two cell sizes, the point on
    every cell centre (and a little off it).  [] when it is the nearest cell each time, a list of counterexamples
    (axis, coords, cell size, axis, value, expected index, computed) otherwise, None when the term cannot be evaluated."""
    from ..wterm import eval_term, key as tkey, walk as twalk, mentions
    pointp = next((p_ for p_ in pub.params if p_ == point or p_.startswith(point)), None)
    resnames = {c_.callee.name for c_ in rescalls.values()}
    if pointp is None:
        return None

    def axis_of(d):
        """which axis a dimension-name term names: the caller's x / y parameter, or dims[-1] / dims[-2]"""
        if d[0] == 'param' and d[1] in ('x', 'y'):
            return d[1]
        if d[0] == 'index' and d[1] == ('attr', surf, 'dims') and d[2][0] == 'const':
            return {-1: 'x', 1: 'x', -2: 'y', 0: 'y'}.get(d[2][1])
        return None

    def coords_axis(c_):
        """'x' / 'y' when the term is the coordinate array of that axis of the surface"""
        while isinstance(c_, tuple) and c_ and c_[0] in ('data', 'cast'):
            c_ = c_[1]
        if isinstance(c_, tuple) and c_ and c_[0] == 'attr' and c_[2] in ('values', 'data'):
            c_ = c_[1]
        if isinstance(c_, tuple) and c_ and c_[0] == 'coord' and c_[1] == surf:
            return c_[2]
        if isinstance(c_, tuple) and c_ and c_[0] == 'index' and c_[1] in (('attr', surf, 'coords'), surf, ('attr', surf, 'indexes')):
            return axis_of(c_[2])
        return None
    bad = []
    try:
        for cs in ([10, 20, 30, 40, 50], [50, 40, 30, 20, 10], [-3, -1, 1, 3], [7.5, 5.0, 2.5, 0.0, -2.5, -5.0]):
            other = [100, 200, 300]
            size = abs(cs[1] - cs[0])
            for i_, centre in enumerate(cs):
                for v in (centre, centre + Fraction(size) / 5, centre - Fraction(size) / 5):
                    def hook(x, cs=cs, v=v, other=other, size=size):
                        if not isinstance(x, tuple) or not x:
                            return None
                        if x[0] == 'index' and x[1] == ('param', pointp) and x[2][0] == 'const':
                            return v if (x[2][1] == 0) == (ax == 'y') else other[1]
                        if x[0] == 'index' and x[2][0] == 'const' and isinstance(x[2][1], int):
                            a_ = coords_axis(x[1])
                            if a_ is not None:
                                arr = cs if a_ == ax else other
                                return arr[x[2][1]] if -len(arr) <= x[2][1] < len(arr) else None
                            if (tkey(x[1]) in rescalls or (x[1][0] == 'call' and x[1][1] in resnames)) and x[2][1] in (0, 1):
                                # (cellsize_x, cellsize_y): positive cell sizes of the two axes
                                return size if (x[2][1] == 0) == (ax == 'x') else 100
                        if x[0] == 'call' and isinstance(x[1], tuple) and x[1][0] == 'method' and x[1][2] in ('min', 'max') and not x[2]:
                            a_ = coords_axis(x[1][1])
                            if a_ is not None:
                                arr = cs if a_ == ax else other
                                return min(arr) if x[1][2] == 'min' else max(arr)
                        if x[0] == 'call' and x[1] in ('numpy.min', 'numpy.max', 'numpy.nanmin', 'numpy.nanmax', 'builtins.len') and len(x[2]) == 1:
                            a_ = coords_axis(x[2][0])
                            if a_ is not None:
                                arr = cs if a_ == ax else other
                                return {'min': min(arr), 'max': max(arr), 'nanmin': min(arr), 'nanmax': max(arr), 'len': len(arr)}[x[1].split('.')[-1]]
                        return None
                    r = eval_term(t, {'__hook__': hook})
                    if r != i_:
                        bad.append((ax, cs, size, ax, v, i_, r))
    except (ValueError, ZeroDivisionError, KeyError, TypeError, IndexError) as e_:
        import os
        if os.environ.get('XRSA_DEBUG'):
            print('pixel model not evaluable:', e_)
        return None
    return bad


def _nearest_cell(t, point, ax, given, surf, rescalls, res):
    from ..wterm import to_rat, atom_term, single_atom_term, show as tshow, key as tkey
    def call_of(x, names):
        return isinstance(x, tuple) and x and x[0] == 'call' and (x[1] in names or (isinstance(x[1], tuple) and x[1][0] == 'global' and x[1][1] in names)) \
            and len(x[2]) == 1
    shift = None
    if call_of(t, ('int', 'builtins.int')):
        inner = t[2][0]
        it_ = single_atom_term(to_rat(inner)) if inner[0] == 'arith' else inner
        if call_of(it_, ('round', 'builtins.round', 'numpy.round', 'numpy.rint')):
            q, shift = to_rat(it_[2][0]), 0
        else:
            q, shift = to_rat(inner) - Rat.const(Fraction(1, 2)), Fraction(1, 2)
    elif call_of(t, ('round', 'builtins.round')):
        q, shift = to_rat(t[2][0]), 0
    else:
        return None, 'unrecognised form %s' % tshow(t, 160)

    def quotient(q):
        # q = X / Y with X = abs(..) and Y a resolution component
        n, d = single_atom_term(Rat(q.n)), single_atom_term(Rat(q.d))
        if n is None or d is None:
            return None
        return n, d
    qd = quotient(q)
    if qd is None and shift:
        q0 = q + Rat.const(shift)
        if quotient(q0) is not None:
            return False, 'int(q) without the half-cell shift: truncation maps a coordinate just below a cell centre to the previous cell'
    if qd is None:
        return None, 'rounded quantity not of the form |..| / cellsize: %s' % tshow(('arith', q), 160)
    n, d = qd
    if not call_of(n, ('abs', 'builtins.abs', 'numpy.abs', 'numpy.absolute', 'numpy.fabs')):
        return None, 'numerator %s is not an absolute difference' % tshow(n, 120)
    diff = to_rat(n[2][0])
    ats = [atom_term(a) for a in diff.atoms()]
    if len(ats) != 2 or any(a is None for a in ats):
        return None, 'difference %s' % tshow(n[2][0], 120)
    pt = [a for a in ats if a[0] == 'index' and a[1] == ('param', point)]
    co = [a for a in ats if a not in pt]
    if len(pt) != 1 or len(co) != 1:
        return None, 'difference %s is not point - coordinate' % tshow(n[2][0], 120)
    p_, c_ = to_rat(pt[0]), to_rat(co[0])
    if diff != p_ - c_ and diff != c_ - p_:
        return False, 'the offset from the origin must be point - first coordinate; got %s' % tshow(n[2][0], 120)
    want_dim = ('param', ax) if given else ('index', ('attr', surf, 'dims'), ('const', -2 if ax == 'y' else -1))
    want_k = 0 if ax == 'y' else 1
    if pt[0][2] != ('const', want_k):
        return False, 'component %s of the (y, x) point used for the %s axis' % (tshow(pt[0][2]), ax)
    # coordinate: surface.coords[dim].data[0] (or .values / indexes)
    cc = co[0]
    if not (cc[0] == 'index' and cc[2] == ('const', 0)):
        return None, 'coordinate term %s' % tshow(cc, 120)
    base = cc[1]
    while base[0] in ('data', 'cast') or (base[0] == 'attr' and base[2] in ('data', 'values')):
        base = base[1]
    dim = None
    if base[0] == 'index' and base[1][0] == 'attr' and base[1][1] == surf and base[1][2] in ('coords', 'indexes'):
        dim = base[2]
    elif base[0] == 'index' and base[1] == surf:
        dim = base[2]
    elif base[0] == 'coord' and base[1] == surf:
        dim = ('param', base[2]) if given else None
    if dim is None:
        return None, 'coordinate array %s not recognised' % tshow(base, 120)
    if tkey(dim) != tkey(want_dim):
        return False, 'the %s index is measured along dimension %s' % ('row' if ax == 'y' else 'column', tshow(dim, 80))
    # cell size: component of get_dataarray_resolution(surface, xdim, ydim) -> (cellsize_x, cellsize_y)
    if not (d[0] == 'index' and d[2][0] == 'const' and d[1][0] == 'call' and d[1][1] == res.qualname):
        return None, 'divisor %s is not a component of get_dataarray_resolution(..)' % tshow(d, 120)
    b = dict(zip(res.params, d[1][2]))
    b.update(dict(d[1][3]))
    dims = {'x': ('param', 'x') if given else ('index', ('attr', surf, 'dims'), ('const', -1)),
            'y': ('param', 'y') if given else ('index', ('attr', surf, 'dims'), ('const', -2))}
    if b.get(res.params[0]) != surf or tkey(b.get('xdim')) != tkey(dims['x']) or tkey(b.get('ydim')) != tkey(dims['y']):
        return False, 'cell sizes taken from get_dataarray_resolution(%s): the x / y dimension names must reach xdim / ydim' % \
            ', '.join('%s=%s' % (k_, tshow(v_, 50)) for k_, v_ in b.items())
    if d[2][1] != (1 if ax == 'y' else 0):
        return False, 'cell size component %s (x is 0, y is 1) divides the %s offset' % (d[2][1], ax)
    return True, 'int(q + 1/2)' if shift else 'round(q)'


def _single_atom(r):
    """the App a with r == a (coefficient 1), else None"""
    if isinstance(r, Rat) and r.d.is_const() and len(r.n.t) == 1:
        (mm, c), = r.n.t.items()
        if len(mm) == 1 and mm[0][1] == 1 and isinstance(mm[0][0], App) and c == r.d.const_value():
            return mm[0][0]
    return None


# ------------------------------------------------------------------------------------------------ A2
def check_metric(prog, rep, m, c):
    """A2 on every metric helper reachable from the search kernel: a jit function of four scalars that returns one
    scalar expression.  Each must be the Euclidean distance between two of its parameter pairs, or a constant fraction
    (0..1) of it - an admissible heuristic; which pair is which point is decided where the helper is used (A5: the g and f
    updates are evaluated with the helpers folded in)."""
    seen, todo, cands = set(), [c.kernel], []
    while todo:
        g = todo.pop()
        if g in seen:
            continue
        seen.add(g)
        for n in g.own_nodes():
            if isinstance(n, ast.Call):
                t = prog.resolve_callable(g, g.module, n.func)
                if isinstance(t, Func) and prog.same_unit(m, t.module) and t not in seen:
                    todo.append(t)
    for g in sorted(seen, key=lambda g_: g_.node.lineno):
        if g is c.kernel or len(g.params) != 4 or g.jit is None or any(isinstance(x, (ast.For, ast.While, ast.Subscript)) for x in g.own_nodes()):
            continue
        try:
            kg = interpret(prog, g)
        except AnalysisIncomplete:
            continue
        if len(kg.returns) != 1 or not isinstance(kg.returns[0][0], Rat) or kg.stores:
            continue
        cands.append((g, kg.returns[0][0]))
    if not cands:
        raise AnalysisIncomplete('no distance helper (four scalars -> scalar) reachable from the search kernel')
    for g, got in cands:
        p = [Rat.sym(x) for x in g.params]
        ok, which = False, ''
        for (a, b), (c_, d_) in (((0, 1), (2, 3)), ((0, 2), (1, 3)), ((0, 3), (1, 2))):
            want = Spec(prog, {x: Rat.sym(x) for x in g.params}).expr('sqrt((%s - %s) ** 2 + (%s - %s) ** 2)' % (
                g.params[a], g.params[b], g.params[c_], g.params[d_]))
            if got == want or got == Rat.const(0):
                ok, which = True, 'Euclidean'
                break
            if not want.n.is_zero():
                r = got / want
                if r.is_const() and 0 <= r.const_value() <= 1:
                    ok, which = True, '%s x Euclidean' % r.const_value()
                    break
        rep.add('A2', g, ENTRY, '%s = %s' % (g.name, show(got, 120)), g.node.lineno, ok,
                'step cost and heuristic must be the Euclidean distance between two pixels (1 for edge steps, sqrt 2 for diagonals); '
                'a heuristic may be a fraction of it, never more: e.g. Manhattan distance is inadmissible with diagonal steps and '
                'loses optimality; ' + which)


# ------------------------------------------------------------------------------------------------ A3 tables
def check_tables(prog, rep, m, c):
    """neighbourhood tables by position: returns {'8': (list0, list1), '4': ...} of the structure function's result"""
    pub = getattr(c, 'kscope', None) or c.pub        # the function that calls the kernel (the public one or its helper)
    # the call whose two results reach the kernel's table parameters
    tcall = None
    for n in pub.own_nodes():
        if isinstance(n, ast.Assign) and isinstance(n.value, ast.Call) and isinstance(n.targets[0], ast.Tuple) and \
                len(n.targets[0].elts) == 2 and all(isinstance(e, ast.Name) for e in n.targets[0].elts):
            names = [e.id for e in n.targets[0].elts]
            if set(names) == {c.kargs.get(c.rows_param), c.kargs.get(c.cols_param)}:
                t = prog.resolve_callable(pub, m, n.value.func)
                if isinstance(t, Func):
                    tcall = (n, t, names)
    if tcall is None:
        rep.add('A3', pub, ENTRY, 'neighbourhood tables passed to the search', pub.node.lineno, None,
                'the two table arguments are not the unpacked result of one structure function')
        return
    n, f, names = tcall
    pos_rows = names.index(c.kargs[c.rows_param])
    pos_cols = names.index(c.kargs[c.cols_param])
    conn_ok = len(n.value.args) == 1 and norm(n.value.args[0]) == 'connectivity' or \
        (kw(n.value, 'connectivity') is not None and norm(kw(n.value, 'connectivity')) == 'connectivity')
    rep.add('A3', pub, ENTRY, norm(n), n.lineno, conn_ok, 'the tables must be built for the caller\'s connectivity')
    # the tables are constants: the structure function is evaluated for the two meaningful arguments (consteval.py)
    from ..consteval import CannotFold, fold_call
    for label, conn, want in (('8', 8, UNIT8), ('4', 4, UNIT4)):
        try:
            res = fold_call(prog, f, [conn])
            ys, xs = list(res[pos_rows]), list(res[pos_cols])
            good = len(res) == 2 and len(ys) == len(xs) == len(want) and set(zip(ys, xs)) == want
            shown = sorted(zip(ys, xs))
        except (CannotFold, TypeError, IndexError) as e:
            rep.add('A3', f, ENTRY, '%s-connectivity offsets' % label, f.node.lineno, None, 'the structure function is not a constant table: %s' % e)
            continue
        rep.add('A3', f, ENTRY, '%s-connectivity (row, col) offsets %s' % (label, shown), f.node.lineno, good,
                'the %s-neighbourhood must be exactly the %s unit offsets (row offsets from result %d, column offsets from '
                'result %d of the structure function)' % (label, len(want), pos_rows, pos_cols))
    # connectivity validated: the public function raises exactly for values other than 4 and 8
    from ..wterm import WT, eval_cond
    pub = c.pub
    w = WT(prog, depth=2)
    w.run(pub)
    cparam = 'connectivity' if 'connectivity' in pub.params else None
    ok = None
    why = ''
    if cparam:
        res = {}
        for v in (4, 8, 6, 0):
            hit = False
            for guards, node in w.raises:
                # conditions on other arguments (shape, dims, end points inside the raster) are taken as passed
                vals = []
                for g in guards:
                    try:
                        vals.append(eval_cond(g, {cparam: v}))
                    except (ValueError, KeyError):
                        continue
                if vals and all(vals) and ("('param', '%s')" % cparam) in repr(guards[-1]):
                    hit = True
            res[v] = hit
        ok = res == {4: False, 8: False, 6: True, 0: True}
        why = 'raises for %s' % sorted(v for v, h in res.items() if h)
    rep.add('A3', pub, ENTRY, 'connectivity validated', pub.node.lineno, ok, 'only 4 and 8 are meaningful; ' + why)


# ------------------------------------------------------------------------------------------------ helpers on kernels
def first_return(k, env):
    for v, g in k.returns:
        if _all(g, env):
            return v
    return None


def check_crossable(prog, rep, m, f):
    """_is_not_crossable(v, barriers): True for NaN, True when v equals some barrier, else False"""
    k = interpret(prog, f, strict=False)
    v = Sym(f.params[0])
    atoms = set()
    for val, g in k.returns:
        atoms |= guard_atoms(g)
    nan = [a for a in atoms if isinstance(a, App) and a.name == 'isnan' and a.args[0] == Rat.atom(v)]
    bar = [a for a in atoms if isinstance(a, App) and a.name in ('elem', 'read') and len(f.params) > 1 and
           f.params[1] in repr(a.args[0])]
    rest = [a for a in atoms if a not in nan + bar + [v] and not (isinstance(a, Sym) and '@' in a.name)
            and not (isinstance(a, Sym) and a.name in f.params)]
    # arithmetic on the two compared values alone (`abs(value - barrier)`) is evaluated with them
    rest = [a for a in rest if not (isinstance(a, App) and a.name == 'abs' and len(bar) == 1 and
                                    all(x in (v, bar[0]) or (isinstance(x, Sym) and ('@' in x.name or x.name in f.params)) for r_ in a.args if isinstance(r_, Rat)
                                        for x in walk_atoms(r_) if x is not a))]
    tolerant = [a for a in rest if isinstance(a, App) and a.name.split('.')[-1] in ('isclose', 'allclose')]
    if tolerant:
        rep.add('A5', f, ENTRY, '%s: NaN or any barrier value' % f.name, f.node.lineno, False,
                'a cell is a barrier exactly when it EQUALS a barrier value: %s accepts every value within a tolerance, so crossable '
                'cells next to a barrier value (large ids, elevations) become walls' % show(tolerant, 80))
        return
    if len(nan) != 1 or len(bar) != 1 or rest:
        rep.add('A5', f, ENTRY, '%s: NaN or any barrier value' % f.name, f.node.lineno, None if rest else False,
                'the crossable test must look at isnan(value) and value == barrier only (NaN tests %d, barrier reads %d, other %s)' % (
                    len(nan), len(bar), show(rest, 100)))
        return
    # the barrier comparison sits in a loop over all barriers
    loops_ok = len(k.loops) == 1 and (getattr(k.loops[0], 'iterable', None) == ('param', f.params[1]) or
                                      (k.loops[0].kind == 'range' and k.loops[0].lo == Rat.const(0) and
                                       k.loops[0].hi == Rat.atom(App('shape', [f.params[1], 0]))))
    res = []
    try:
        for title, isn, val, b, want in (('NaN', 1, 5, 7, True), ('NaN equal to nothing', 1, 5, 5, True),
                                         ('value equals the barrier', 0, 5, 5, True), ('value differs', 0, 5, 7, False),
                                         ('value differs (barrier smaller)', 0, 5, 3, False),
                                         ('value next to the barrier', 0, 5, Fraction(5) + Fraction(1, 10 ** 40), False)):
            r = first_return(k, {nan[0]: F(isn), v: F(val), bar[0]: F(b)})
            got = r[1] if isinstance(r, tuple) and r[0] == 'const' else None
            res.append((title, got, want))
    except CannotEvaluate as e:
        rep.add('A5', f, ENTRY, '%s: NaN or any barrier value' % f.name, f.node.lineno, None, 'not evaluable: %s' % e)
        return
    bad = [(t, g) for t, g, w in res if g != w]
    rep.add('A5', f, ENTRY, '%s: NaN or any barrier value' % f.name, f.node.lineno, not bad and loops_ok,
            'NaN cells and cells equal to a barrier value are not crossable; everything else is (wrong for %s%s)' % (
                bad, '' if loops_ok else '; the comparison must run over every barrier'))


def check_argmin(prog, rep, m, g, role):
    """generic running-minimum scan: for every cell (full range of both axes) the minimum and its coordinates are
    replaced exactly when the cell is eligible and its value is strictly smaller; returns role facts"""
    k = interpret(prog, g, strict=False)
    inner = [L for L in k.loops if getattr(L, 'carried', None) and
             any(isinstance(p, Rat) and _single_atom(p) is not None and _single_atom(p).name == 'ite' for _, p in L.carried.values())]
    inner = [L for L in inner if L.kind == 'range']
    if not inner:
        rep.add('A6', g, ENTRY, '%s: running minimum scan' % g.name, g.node.lineno, None, 'no loop-carried running minimum found')
        return None
    L = inner[-1]
    outer = [Lo for Lo in k.loops if Lo.kind == 'range' and Lo is not L and any(n in getattr(Lo, 'phi', {}) for n in L.carried)]
    facts = {'k': k}
    # which carried name is the minimum: the one whose loop-phi is compared (<) with a candidate inside its own update
    def leaves(r):
        at = _single_atom(r)
        if at is not None and at.name == 'ite':
            return leaves(at.args[1]) + leaves(at.args[2])
        return [r]

    def conds(r):
        at = _single_atom(r)
        if at is not None and at.name == 'ite':
            return [at.args[0]] + conds(at.args[1]) + conds(at.args[2])
        return []
    cands = {n: (phi, post) for n, (phi, post) in L.carried.items()
             if _single_atom(post) is not None and _single_atom(post).name == 'ite'}
    mins = []
    for n, (phi, post) in cands.items():
        pa = next(iter(phi.atoms()))
        if any(x[1] in ('<', '<=') and pa in walk_atoms(x[2]) for cnd in conds(post) for x in _cmps(cnd)):
            mins.append(n)
    if len(mins) != 1:
        rep.add('A6', g, ENTRY, '%s: running minimum scan' % g.name, g.node.lineno, None, 'running minimum not identified (%s)' % mins)
        return None
    mn = mins[0]
    phi, post = cands[mn]
    M = next(iter(phi.atoms()))
    vs = [v for v in leaves(post) if v != phi]
    if len({repr(v) for v in vs}) != 1:
        rep.add('A6', g, ENTRY, '%s: running minimum scan' % g.name, g.node.lineno, None, 'candidate value not unique: %s' % show(vs, 120))
        return None
    V = vs[0]
    coords = [n for n in cands if n != mn]
    # full scan
    ok_range = len(outer) == 1
    if ok_range:
        Lo = outer[0]
        ha, hb = _single_atom(Lo.hi), _single_atom(L.hi)
        ok_range = Lo.lo == Rat.const(0) and L.lo == Rat.const(0) and Lo.step == Rat.const(1) and L.step == Rat.const(1) and \
            ha is not None and hb is not None and ha.name == 'shape' and hb.name == 'shape' and ha.args[1] == 0 and \
            hb.args[1] == 1 and ha.args[0] == hb.args[0]
        facts['cell'] = (Rat.sym(Lo.var), Rat.sym(L.var))
        facts['scanned'] = ha.args[0] if ha is not None and ha.name == 'shape' else None
    rep.add('A6', g, ENTRY, '%s: scan covers every cell (rows x columns)' % g.name, L.node.lineno, ok_range,
            'the argmin must look at every cell: rows 0..shape[0], columns 0..shape[1]')
    if not ok_range:
        return None
    # early exits from the scan: a `break` skips cells - sound only if no skipped cell can beat the running minimum
    brk = [(Lo, gb) for gb, envb, nb in getattr(Lo, 'breaks', [])] + [(L, gb) for gb, envb, nb in getattr(L, 'breaks', [])]
    if brk:
        vat = _single_atom(V)
        verdict, whyb = None, 'the scanned value is not a distance to a fixed cell: pruning cannot be justified'
        if vat is not None and vat.name == 'sqrt':
            ysym, xsym = next(iter(facts['cell'][0].atoms())), next(iter(facts['cell'][1].atoms()))
            others = [a for a in walk_atoms(vat.args[0]) if isinstance(a, Sym) and a not in (ysym, xsym)]
            try:
                verdict = True
                for (Lb, gb) in brk:
                    ats = guard_atoms(gb)
                    free = [a for a in ats if isinstance(a, App) and a.name not in ('abs', 'sqrt', 'min', 'max')]
                    for mval in (Fraction(3, 2), Fraction(3), Fraction(8)):
                        for yy in range(0, 21):
                            for xx in (range(0, 21) if Lb is L else (0,)):
                                for bit in ((0, 1) if free else (0,)):
                                    env = {ysym: F(yy), xsym: F(xx), M: mval}
                                    for Lp in (Lo, L):
                                        ph = getattr(Lp, 'phi', {}).get(mn)
                                        if isinstance(ph, Rat):
                                            env[next(iter(ph.atoms()))] = mval
                                    for a in others:
                                        env[a] = F(10)
                                    for a in free:
                                        env[a] = F(bit)
                                    if not _all(gb, env):
                                        continue
                                    # cells skipped: this row from xx on (inner break) or every row from yy on (outer break)
                                    cells_ = [(yy, x2) for x2 in range(xx, 21)] if Lb is L else \
                                        [(y2, x2) for y2 in range(yy, 21) for x2 in range(0, 21)]
                                    for (y2, x2) in cells_:
                                        d2 = evaluate(vat.args[0], {**env, ysym: F(y2), xsym: F(x2)})
                                        if d2 < mval * mval:
                                            verdict = False
                                            whyb = 'with the requested cell at (10, 10) and running minimum %s the scan stops at (%d, %d) ' \
                                                   'although cell (%d, %d) at squared distance %s is nearer' % (mval, yy, xx, y2, x2, d2)
                                            raise StopIteration
            except StopIteration:
                pass
            except CannotEvaluate as e:
                verdict, whyb = None, 'pruning condition not evaluable: %s' % e
            if verdict:
                whyb = 'no skipped cell can be nearer (checked on a 21x21 grid for 3 values of the running minimum)'
        rep.add('A6', g, ENTRY, '%s: %d early exit(s) from the scan' % (g.name, len(brk)), L.node.lineno, verdict,
                'a `break` in the argmin scan skips cells: it is admissible only when none of the skipped cells can be nearer than '
                'the running minimum; ' + whyb)
    # eligibility atoms: the truth(...) leaves of the update conditions
    elig_atoms = []
    for cnd in conds(post):
        for a, pol in _top_truths(cnd):
            if a not in elig_atoms:
                elig_atoms.append(a)
    facts['V'] = V
    vtop = _single_atom(V)
    rows = []
    try:
        if vtop is None:
            raise CannotEvaluate('candidate value is not a single quantity: %s' % show(V, 80))
        import itertools
        for bits in itertools.product((0, 1), repeat=len(elig_atoms)):
            for vv in (5, 15):
                env = {M: F(10), vtop: F(vv)}
                for a, bt in zip(elig_atoms, bits):
                    env[a] = F(bt)
                newm = evaluate(post, env)
                cs = []
                for n in coords:
                    p2, post2 = cands[n]
                    env2 = dict(env)
                    env2[next(iter(p2.atoms()))] = F(77)
                    cell = facts['cell']
                    env2[next(iter(cell[0].atoms()))] = F(3)
                    env2[next(iter(cell[1].atoms()))] = F(4)
                    cs.append(evaluate(post2, env2))
                rows.append((bits, vv, newm, cs))
    except CannotEvaluate as e:
        rep.add('A6', g, ENTRY, '%s: running minimum update' % g.name, L.node.lineno, None, 'not evaluable: %s' % e)
        return None
    upd = [bits for bits, vv, newm, cs in rows if vv == 5 and newm == 5]
    bad = [(bits, vv) for bits, vv, newm, cs in rows if (vv == 15 and newm != 10) or (vv == 5 and newm not in (5, 10))]
    okone = len(upd) == 1
    badc = [(bits, vv, cs) for bits, vv, newm, cs in rows
            if len(cs) != 2 or (sorted(cs) != [3, 4] if (vv == 5 and newm == 5) else cs != [77, 77])]
    rep.add('A6', g, ENTRY, '%s: minimum replaced exactly by eligible strictly smaller cells; coordinates follow' % g.name,
            L.node.lineno, okone and not bad and not badc,
            'an eligible cell with a smaller value must replace the running minimum and both coordinates; an ineligible or '
            'larger one must change nothing (eligible settings %s, wrong minimum %s, wrong coordinates %s)' % (upd, bad, badc[:2]))
    if not okone:
        return None
    facts['elig'] = [(a, bool(bt)) for a, bt in zip(elig_atoms, upd[0])]
    # coordinates recorded as (row, col)
    rowname = [n for n in coords if facts['cell'][0] in leaves(cands[n][1])]
    colname = [n for n in coords if facts['cell'][1] in leaves(cands[n][1])]
    facts['rowname'], facts['colname'] = (rowname[0] if rowname else None), (colname[0] if colname else None)
    outs = []
    for v, gd in k.returns:
        if isinstance(v, TupleV) and len(v.items) == 2 and all(
                isinstance(i, Rat) and _single_atom(i) is not None and _single_atom(i).name == 'loopout' for i in v.items):
            outs.append([next(iter(_single_atom(i).args[0].atoms())).name for i in v.items])
    rep.add('A6', g, ENTRY, '%s: returns (row, column) of the minimum: %s' % (g.name, outs), g.node.lineno,
            len(outs) == 1 and outs[0] == [facts['rowname'], facts['colname']],
            'the result is used as (row, column): the first element must be the row of the minimal cell, the second its column')
    # initial value above every attainable one
    init = outer[0].pre.get(mn)
    txt = repr(init)
    va = _single_atom(facts['V']) if isinstance(facts.get('V'), Rat) else None
    if va is not None and va.name in ('read', 'cell?') and isinstance(va.args[0], str):
        txt = txt.replace("'%s'" % va.args[0], "'cost'")     # the table is keyed with the scanned array called `cost`
    accepted = None
    if va is not None and va.name in ('read', 'cell?') and isinstance(va.args[0], str) and isinstance(init, Rat):
        h_, w_ = Rat.atom(App('shape', [va.args[0], 0])), Rat.atom(App('shape', [va.args[0], 1]))
        if init == (h_ + w_) * (h_ + w_):
            # (h + w)^2 of the scanned array itself: above every reachable f = g + h (the table's reason)
            accepted = next(iter(ARGMIN_TABLE.values()))
    ok = isinstance(init, Rat) and (init == Rat.atom(App('inf', [])) or accepted is not None)
    rep.add('A6', g, ENTRY, '%s: running minimum `%s` starts at %s' % (g.name, mn, show(init, 90)), g.node.lineno, ok,
            'an argmin with a strict `<` test finds nothing when its initial value is attainable: it must start at +inf '
            '(a corner-to-corner distance IS attained by the opposite corner, so the only crossable cell there is never '
            'snapped to)' + (' [accepted: %s]' % accepted if accepted else ''))
    return facts


def _cmps(c):
    """all comparison nodes ('cmp', op, Rat) inside a condition in App-argument form"""
    out = []
    if isinstance(c, tuple) and c:
        if c[0] == 'cmp':
            out.append(c)
        elif c[0] in ('and', 'or', 'not'):
            for x in c[1:]:
                out.extend(_cmps(x))
    return out


def _top_truths(c, pos=True):
    """[(atom, polarity)] for truth(...) leaves of a condition: the atom must be non-zero (polarity True) or zero"""
    out = []
    if isinstance(c, tuple) and c:
        if c[0] == 'truth' and isinstance(c[1], Rat):
            at = _single_atom(c[1])
            if at is not None:
                out.append((at, pos))
        elif c[0] == 'not':
            out.extend(_top_truths(c[1], not pos))
        elif c[0] in ('and', 'or'):
            for x in c[1:]:
                out.extend(_top_truths(x, pos))
    return out


# ------------------------------------------------------------------------------------------------ A4 reconstruct
def check_reconstruct(prog, rep, m, r):
    """roles of _reconstruct_path's parameters, decided on its interpretation"""
    try:
        k = interpret(prog, r, strict=False)
    except AnalysisIncomplete:
        # the path written through `p = img.ravel()`: a view only when the image is C-contiguous.  An image allocated like
        # the surface (full_like / zeros_like ...) follows the surface's layout: for a column-major or transposed surface
        # the alias is a copy and the path never reaches the image the caller gets.
        from ..sharedrules import flat_alias_of_like
        for x, alias, base, node, like in flat_alias_of_like(r, prog):
            rep.add('A4', r, ENTRY, '%s = %s; %s[..] = ...' % (alias, norm(node.value), alias), x.lineno, False,
                    'the path is written through a flattened alias of `%s`, which is allocated like the input surface (%s): for a '
                    'column-major or transposed surface the alias is a copy and the path is lost (the image stays NaN)'
                    % (base, norm(like) if like is not None else 'flatten() always copies'))
            return None
        raise
    wl = [L for L in k.loops if L.kind == 'while']
    stores = k.stores
    imgs = {s.arr.name for s in stores}
    if len(wl) != 1 or len(imgs) != 1:
        rep.add('A4', r, ENTRY, 'back-pointer walk', r.node.lineno, None, 'expected one while loop writing one image')
        return None
    L = wl[0]
    img = next(iter(imgs))
    inloop = [s for s in stores if s.loops and s.loops[-1] is L]
    pre = [s for s in stores if not s.loops]
    roles = {'img': img}
    ok = len(inloop) == 1 and len(pre) == 1
    why = ''
    if ok:
        s = inloop[0]
        cy, cx = s.idx
        va = _single_atom(s.value)
        ok = va is not None and va.name == 'read' and tuple(va.args[1:]) == (cy, cx)
        if ok:
            roles['cost'] = va.args[0]
            names = {n: phi for n, phi in L.phi.items() if phi in (cy, cx)}
            ny = [n for n, phi in names.items() if phi == cy]
            nx = [n for n, phi in names.items() if phi == cx]
            ok = len(ny) == 1 and len(nx) == 1 and ny[0] in L.carried and nx[0] in L.carried
            if ok:
                py_at, px_at = _single_atom(L.carried[ny[0]][1]), _single_atom(L.carried[nx[0]][1])
                ok = py_at is not None and px_at is not None and py_at.name == 'read' and px_at.name == 'read' and \
                    tuple(py_at.args[1:]) == (cy, cx) and tuple(px_at.args[1:]) == (cy, cx)
                why = 'the walk must step from a cell to (parent rows[cell], parent cols[cell])'
                if ok:
                    roles['py'], roles['px'] = py_at.args[0], px_at.args[0]
                    gy, gx = L.pre.get(ny[0]), L.pre.get(nx[0])
                    roles['goal'] = (gy[1] if isinstance(gy, tuple) and gy[0] == 'param' else None,
                                     gx[1] if isinstance(gx, tuple) and gx[0] == 'param' else None)
                    ps = pre[0]
                    pa = _single_atom(ps.value)
                    ok = pa is not None and pa.name == 'read' and pa.args[0] == roles['cost'] and tuple(pa.args[1:]) == tuple(ps.idx) \
                        and all(_sym_name(i) in r.params for i in ps.idx)
                    why = 'the start cell must receive cost[start]'
                    if ok:
                        roles['start'] = tuple(_sym_name(i) for i in ps.idx)
                        sy, sx = ps.idx
                        Y, X = next(iter(cy.atoms())), next(iter(cx.atoms()))
                        SY, SX = next(iter(sy.atoms())), next(iter(sx.atoms()))
                        try:
                            t = [eval_cond_full(L.test, {Y: F(a), X: F(b), SY: F(2), SX: F(3)}) for a, b in ((2, 3), (2, 4), (1, 3), (0, 0))]
                            ok = t == [False, True, True, True]
                            why = 'the walk must continue exactly until the start cell is reached (got %s)' % t
                        except CannotEvaluate as e:
                            ok, why = None, 'loop test not evaluable: %s' % e
    rep.add('A4', r, ENTRY, 'back-pointer walk copies cost[cell] into the image from goal to start', r.node.lineno, ok,
            'the path is the chain of parent pointers from goal to start; each path cell holds its cumulative cost; ' + why)
    if not ok:
        return None
    # no-path sentinel guards every write
    sent = None
    okg = True
    try:
        for s in stores:
            g = s.guards[:1] if s.loops else s.guards
            g = [x for x in s.guards if x is not L.test]
            ats = [a for a in guard_atoms(g) if isinstance(a, App) and a.name == 'read' and a.args[0] in (roles['py'], roles['px'])]
            if len(ats) != 2 or any(tuple(_sym_name(i) for i in a.args[1:]) != roles['goal'] for a in ats):
                okg = False
                continue
            base = {a: F(4) for a in guard_atoms(g) if isinstance(a, (Sym,)) or (isinstance(a, App) and a.name != 'read')}
            both = _all(g, {**base, ats[0]: F(2), ats[1]: F(3)})
            none_ = [v for v in (-1, -2, 0) if not _all(g, {**base, ats[0]: F(v), ats[1]: F(v)})]
            if not both or len(none_) != 1:
                okg = False
            else:
                sent = none_[0]
    except CannotEvaluate:
        okg = None
    rep.add('A4', r, ENTRY, 'nothing is written unless the goal has a parent (sentinel %s)' % sent, r.node.lineno, okg,
            'when the goal was never reached (its parent is still the NONE sentinel) the image must stay NaN')
    roles['sentinel'] = sent
    return roles


def _allocates(g):
    return any(isinstance(n, ast.Call) and isinstance(n.func, ast.Attribute) and n.func.attr in (
        'zeros', 'ones', 'full', 'empty', 'zeros_like', 'ones_like', 'full_like', 'empty_like') for n in g.own_nodes())


def _sym_name(r):
    if isinstance(r, Rat):
        a = _single_atom_sym(r)
        return a
    return None


def _single_atom_sym(r):
    if r.d.is_const() and len(r.n.t) == 1:
        (mm, c), = r.n.t.items()
        if len(mm) == 1 and mm[0][1] == 1 and isinstance(mm[0][0], Sym) and c == r.d.const_value():
            return mm[0][0].name
    return None


# ------------------------------------------------------------------------------------------------ A5 search
def check_search(prog, rep, m, c):
    f = c.kernel
    # phases of a split kernel (functions that allocate the bookkeeping arrays and hand them back) run in place
    k = interpret(prog, f, strict=False, inline_all=lambda g: g.jit is not None and prog.same_unit(m, g.module) and g is not c.recon_func and _allocates(g))
    inl = getattr(k, 'inlined', [])
    wl = [L for L in k.loops if L.kind == 'while']
    if len(wl) != 1:
        rep.add('A5', f, ENTRY, 'search loop', f.node.lineno, None, 'expected one while loop')
        return
    Lw = wl[0]
    pops = [s for s in k.stores if s.loops == (Lw,)]
    idxs = {tuple(s.idx) for s in pops}
    if len(idxs) != 1 or len(pops) != 2:
        rep.add('A5', f, ENTRY, 'pop of the current cell', Lw.node.lineno, False if len(idxs) <= 1 and len(pops) < 2 else None,
                'every iteration must clear the open flag AND set the closed flag of the one popped cell, found %d such stores '
                '(a cell that is not closed is re-opened by its neighbours; one that stays open is popped forever)' % len(pops))
        return
    CY, CX = next(iter(idxs))

    def cval(s):
        v = s.value
        at = _single_atom(v) if isinstance(v, Rat) else None
        if at is not None and at.name == 'bool' and at.args[0][0] == 'const':
            return bool(at.args[0][1])
        if isinstance(v, Rat) and v.is_const():
            return bool(v.const_value())
        return None
    opens = [s for s in pops if cval(s) is False]
    closes = [s for s in pops if cval(s) is True]
    # conditions that already held when the search loop was entered (an early return for a blocked start) are not
    # conditions of the iteration
    gd = getattr(Lw, 'gdepth', 0)

    def rel(s):
        return list(s.guards[gd:])
    uncond = all(len(rel(s)) == 1 and rel(s)[0] is Lw.test for s in pops)
    rep.add('A5', f, ENTRY, 'current cell leaves the open list and enters the closed list', Lw.node.lineno,
            len(opens) == 1 and len(closes) == 1 and uncond,
            'every iteration must unconditionally clear the open flag and set the closed flag of the popped cell '
            '(otherwise it is popped again forever or re-opened)')
    if len(opens) != 1 or len(closes) != 1:
        return
    OPEN, CLOSED = opens[0].arr, closes[0].arr
    # the current cell is the result of the min-cost helper on (f-cost, open flags)
    sel = [r for r in inl if isinstance(r[3], TupleV) and len(r[3].items) == 2 and tuple(r[3].items) == (CY, CX)]
    c.min_func = sel[0][0] if len(sel) == 1 else None
    nl = [L for L in k.loops if any(s.loops == (Lw, L) for s in k.stores)]
    if len(nl) != 1:
        rep.add('A5', f, ENTRY, 'neighbour loop', Lw.node.lineno, None, 'expected one neighbour loop with stores, found %d' % len(nl))
        return
    Ln = nl[0]
    relax = [s for s in k.stores if s.loops == (Lw, Ln)]
    nidx = {tuple(s.idx) for s in relax}
    if len(nidx) != 1:
        rep.add('A5', f, ENTRY, 'relaxation target', Ln.node.lineno, False, 'all relaxation stores must address the one neighbour '
                'cell (found %d different targets)' % len(nidx))
        return
    NY, NX = next(iter(nidx))
    DY, DX = _single_atom(NY - CY), _single_atom(NX - CX)
    okoff = DY is not None and DX is not None

    def table_of(at):
        """kernel parameter the offset atom is drawn from, per iteration of the neighbour loop"""
        if at.name == 'elem' and isinstance(at.args[0], Rat):
            z = _single_atom(at.args[0])
            if z is not None and z.name == 'iter:zip' and at.args[1] == Rat.sym(Ln.var) and len(at.args) == 3:
                i = int(at.args[2].const_value()) - 1
                if 0 <= i < len(z.args):
                    return _param_of(z.args[i])
        if at.name in ('read', 'cell?') and len(at.args) == 2 and at.args[1] == Rat.sym(Ln.var) and Ln.kind == 'range' and \
                Ln.lo == Rat.const(0) and Ln.step == Rat.const(1) and _single_atom(Ln.hi) is not None:
            hi = _single_atom(Ln.hi)
            # the loop runs over the whole of one of the (equally long) tables
            if (hi.name == 'shape' and hi.args[1] == 0 and hi.args[0] in f.params) or \
                    (hi.name == 'len' and _param_of(hi.args[0]) in f.params):
                c.len_table = hi.args[0] if hi.name == 'shape' else _param_of(hi.args[0])
                return at.args[0]
        return None
    c.rows_param = table_of(DY) if okoff else None
    c.cols_param = table_of(DX) if okoff else None
    rep.add('A3', f, ENTRY, 'neighbour = (current row + offset from %s, current column + offset from %s)' % (c.rows_param, c.cols_param),
            Ln.node.lineno, okoff and c.rows_param in f.params and c.cols_param in f.params and c.rows_param != c.cols_param,
            'each neighbour is the current cell plus one (row, column) offset pair taken in lock-step from the two tables')
    if not okoff or c.rows_param not in f.params or c.cols_param not in f.params:
        return
    byarr = {}
    for s in relax:
        byarr.setdefault(s.arr.name, []).append(s)
    # roles
    G = [a for a, ss in byarr.items() if len(ss) == 1 and any(
        isinstance(x, App) and x.name in ('cell?', 'read') and x.args[0] == a and tuple(x.args[1:3]) == (CY, CX)
        for x in walk_atoms(ss[0].value)) and ss[0].arr is not OPEN]
    PY = [a for a, ss in byarr.items() if len(ss) == 1 and ss[0].value == CY]
    PX = [a for a, ss in byarr.items() if len(ss) == 1 and ss[0].value == CX]
    OP = [a for a, ss in byarr.items() if ss[0].arr is OPEN]
    gname = None
    # G appears in both g and f stores (f = g + h): g is the one whose value minus g[current] is the step length
    dist = None
    for a in G:
        v = byarr[a][0].value
        gc = [x for x in walk_atoms(v) if isinstance(x, App) and x.name in ('cell?', 'read') and x.args[0] == a and tuple(x.args[1:3]) == (CY, CX)]
        if len(gc) == 1:
            d = v - Rat.atom(gc[0])
            if d == Spec(prog, {}).it.app('sqrt', [Rat.atom(DY) * Rat.atom(DY) + Rat.atom(DX) * Rat.atom(DX)]):
                gname, dist, gcur = a, d, gc[0]
    ok = gname is not None
    rep.add('A5', f, ENTRY, 'g[neighbour] = g[current] + Euclidean step length', Ln.node.lineno, ok,
            'the tentative cost of a neighbour is g[current] + distance(current, neighbour) (1 for edge steps, sqrt 2 for '
            'diagonals); candidates %s' % [(a, show(byarr[a][0].value, 100)) for a in byarr if a not in PY + PX + OP][:3])
    if not ok:
        return
    gval = byarr[gname][0].value
    FA = [a for a in byarr if a not in (gname,) and a not in PY + PX + OP]
    okp = len(PY) == 1 and len(PX) == 1 and PY != PX
    rep.add('A5', f, ENTRY, 'parent[neighbour] = current cell (rows in %s, columns in %s)' % (PY, PX), Ln.node.lineno, okp,
            'relaxation must record the current cell as the parent, its row in one array and its column in another')
    oko = len(OP) == 1 and len(byarr[OP[0]]) == 1 and cval(byarr[OP[0]][0]) is True
    rep.add('A5', f, ENTRY, 'neighbour enters the open list', Ln.node.lineno, oko, 'a relaxed neighbour must be opened')
    okf = False
    fname = None
    whyf = 'no f-cost store'
    if len(FA) == 1 and len(byarr[FA[0]]) == 1:
        fname = FA[0]
        hv = byarr[fname][0].value - gval
        sp = Spec(prog, {})
        goal_y, goal_x = Rat.sym(c.goal_params[0]), Rat.sym(c.goal_params[1])
        eu = sp.it.app('sqrt', [(NY - goal_y) * (NY - goal_y) + (NX - goal_x) * (NX - goal_x)])
        if hv == Rat.const(0) or hv == eu:
            okf = True
        elif not eu.n.is_zero():
            r = hv / eu
            okf = r.is_const() and 0 <= r.const_value() <= 1
        whyf = 'f - g = %s' % show(hv, 120)
    rep.add('A5', f, ENTRY, 'f[neighbour] = new g[neighbour] + admissible heuristic to the goal', Ln.node.lineno, okf,
            'the priority must be the NEW cost-from-start plus a heuristic that never overestimates the Euclidean distance from '
            'the neighbour to the goal; ' + whyf)
    c.roles = {'G': gname, 'F': fname, 'PY': PY[0] if PY else None, 'PX': PX[0] if PX else None, 'OPEN': OPEN.name, 'CLOSED': CLOSED.name}
    # the cost arrays hold sums of sqrt(2)-steps and Euclidean heuristics: they must be floating whatever the surface's dtype
    for role, nm_ in (('g (cost from start)', gname), ('f (priority)', fname)):
        arr_ = k.arrays.get(nm_) if nm_ else None
        if arr_ is None:
            continue
        dt = getattr(arr_, 'dtype', None)
        dtxt = dt.replace(' ', '') if isinstance(dt, str) else dt
        okdt = isinstance(dtxt, str) and dtxt in ('np.float64', 'numpy.float64', 'float', 'np.float32', "'f8'", "'float64'", 'np.double')
        if arr_.init == 'param':
            continue
        rep.add('A5', f, ENTRY, 'cost array %s: %s allocated with dtype %s' % (role, nm_, dt), getattr(getattr(arr_, 'alloc_node', None), 'lineno', f.node.lineno),
                okdt if (okdt or (isinstance(dt, tuple) and dt and dt[0] == 'like') or dt is None) else None,
                'g and f are real-valued (diagonal steps, Euclidean heuristic): an array that takes the surface\'s dtype truncates them on '
                'integer rasters - the goal is then popped with a path that is not the shortest')
    # the min-cost helper is applied to (f, open)
    if c.min_func is not None and fname is not None:
        args = sel[0][1]
        # which argument is the priority and which the eligibility mask is decided on the helper's own use of its
        # parameters (rule `selection: minimal .. over cells flagged in ..` below)
        okm = len(args) == 2 and isinstance(args[0], Arr) and isinstance(args[1], Arr) and \
            sorted(a.name for a in args) in (sorted((fname, OPEN.name)), sorted((gname, OPEN.name)))
        c.min_args = [a.name for a in args if isinstance(a, Arr)]
        rep.add('A5', f, ENTRY, 'current cell = %s(%s)' % (c.min_func.name, ', '.join(c.min_args)), Lw.node.lineno, okm,
                'the cell to expand must be chosen from the open flags by minimal f-cost (or g-cost: Dijkstra order), not from the closed flags')
    else:
        rep.add('A5', f, ENTRY, 'current cell = min-cost open cell', Lw.node.lineno, None, 'selection helper not identified')
    # ---- relaxation condition: decision table
    cross = [r for r in inl if isinstance(r[3], Rat) and any(
        isinstance(x, App) and x.name in ('read', 'getitem') and c.data in repr(x) for x in walk_atoms(r[1][0] if r[1] and isinstance(r[1][0], Rat) else Rat.const(0)))
        and r[0].name == c.cross_func.name]
    H, W = App('shape', [c.data, 0]), App('shape', [c.data, 1])

    def atoms_at_N(g):
        """array-read atoms in a guard whose index mentions the neighbour offsets"""
        out = []
        for a in guard_atoms([g]):
            if isinstance(a, App) and a.name in ('read', 'cell?', 'getitem') and a not in (DY, DX) and \
                    (DY in walk_atoms(a) or DX in walk_atoms(a)):
                out.append(a)
        return out
    s0 = byarr[gname][0]
    guards = rel(s0)
    flat = []
    for g in guards:
        flat.extend(flatten_and([g]) if g[0] == 'and' else [g])
    allat = guard_atoms(guards)
    CYa, CXa = next(iter(CY.atoms())), next(iter(CX.atoms()))
    closed_at = [a for a in allat if isinstance(a, App) and a.name in ('read', 'cell?') and a.args[0] == CLOSED.name and tuple(a.args[1:3]) == (NY, NX)]
    open_at = [a for a in allat if isinstance(a, App) and a.name in ('read', 'cell?') and a.args[0] == OPEN.name and tuple(a.args[1:3]) == (NY, NX)]
    gn_at = [a for a in allat if isinstance(a, App) and a.name in ('read', 'cell?') and a.args[0] == gname and tuple(a.args[1:3]) == (NY, NX)]
    # the crossable test of the neighbour: an inlined cross_func value whose argument is data[neighbour]
    xat = []
    for r in inl:
        if r[0] is c.cross_func and isinstance(r[3], Rat) and _single_atom(r[3]) is not None and _single_atom(r[3]) in allat:
            arg = r[1][0] if r[1] else None
            aa = _single_atom(arg) if isinstance(arg, Rat) else None
            isN = aa is not None and ((aa.name in ('read', 'cell?') and aa.args[0] == c.data and tuple(aa.args[1:3]) == (NY, NX)) or
                                      (aa.name == 'getitem' and _single_atom(aa.args[0]) is not None and
                                       _single_atom(aa.args[0]).name == 'read' and _single_atom(aa.args[0]).args[0] == c.data and
                                       tuple(_single_atom(aa.args[0]).args[1:]) == (NY,) and aa.args[1] == NX))
            if isN:
                xat.append(_single_atom(r[3]))
    sq = [a for a in walk_atoms(dist) if isinstance(a, App) and a.name == 'sqrt']
    goal_y, goal_x = Sym(c.goal_params[0]), Sym(c.goal_params[1])
    known = set(closed_at + open_at + gn_at + xat + sq + [CYa, CXa, DY, DX, H, W, gcur, goal_y, goal_x])

    def env_for(cy, cx, dy, dx, x, cl, op, gn, goal=(99, 99)):
        env = {CYa: F(cy), CXa: F(cx), DY: F(dy), DX: F(dx), H: F(5), W: F(7), gcur: F(10), goal_y: F(goal[0]), goal_x: F(goal[1])}
        for a in sq:
            env[a] = Fraction(3, 2)
        for a in xat:
            env[a] = F(x)
        for a in closed_at:
            env[a] = F(cl)
        for a in open_at:
            env[a] = F(op)
        for a in gn_at:
            env[a] = F(gn)
        # the while test and anything else that is not about the neighbour: permissive binding where unambiguous
        return env
    wenv = {}
    for a in guard_atoms([Lw.test]):
        wenv[a] = F(1)
    try:
        if not eval_cond_full(Lw.test, wenv):
            wenv = {a: F(-1) for a in wenv}
    except CannotEvaluate:
        pass
    bad = []
    und = None
    pts = [(cy, cx, dy, dx) for cy in (0, 2, 4) for cx in (0, 3, 6) for dy in (-1, 0, 1) for dx in (-1, 0, 1) if (dy, dx) != (0, 0)]
    try:
        for s in relax:
            for cy, cx, dy, dx in pts:
                inb = 0 <= cy + dy <= 4 and 0 <= cx + dx <= 6
                for x, cl, op, gn in ((0, 0, 0, 50), (1, 0, 0, 50), (0, 1, 0, 50), (0, 0, 1, 50), (0, 0, 1, 11), (0, 1, 1, 50), (1, 1, 1, 11)):
                    env = {**wenv, **env_for(cy, cx, dy, dx, x, cl, op, gn)}
                    act = _all(rel(s), env)
                    # d = 10 + 3/2 = 11.5
                    want = inb and x == 0 and cl == 0 and (op == 0 or Fraction(23, 2) < gn)
                    if act != want:
                        bad.append((s.arr.name, 'current (%d,%d) offset (%d,%d) not-crossable=%d closed=%d open=%d g[n]=%s: %s, expected %s' % (
                            cy, cx, dy, dx, x, cl, op, gn, 'relaxed' if act else 'skipped', 'relaxed' if want else 'skipped')))
    except CannotEvaluate as e:
        und = str(e)
    rep.add('A5', f, ENTRY, 'relaxation condition: inside, crossable, not closed, not worse than an open entry (%d stores x %d cases)' % (
        len(relax), len(pts) * 7), Ln.node.lineno, None if und else not bad,
        'a neighbour must be relaxed exactly when it lies inside the raster (both axes, own extents), is crossable, is not '
        'closed and is either not open yet or reached more cheaply; %s' % (und or '; '.join('%s: %s' % b for b in bad[:3])))
    # ---- reads at the neighbour come after the bounds test
    okord = True
    whyo = ''
    try:
        for i, g in enumerate(flat):
            if atoms_at_N(g):
                for cy, cx, dy, dx in pts:
                    if not (0 <= cy + dy <= 4 and 0 <= cx + dx <= 6):
                        env = {**wenv, **env_for(cy, cx, dy, dx, 0, 0, 0, 50)}
                        if _all(flat[:i], env):
                            okord = False
                            whyo = '`%s` is evaluated for the neighbour (%d, %d) of a 5x7 raster' % (cond_repr(g)[:80], cy + dy, cx + dx)
                            break
            if not okord:
                break
    except CannotEvaluate as e:
        okord, whyo = None, str(e)
    rep.add('A5', f, ENTRY, 'arrays are read at the neighbour only after the bounds test', Ln.node.lineno, okord,
            'reading data / flags at an index outside the raster wraps around (negative) or runs off the array; ' + whyo)
    # ---- goal test
    rc = []
    for cl in k.calls:
        if cl[0] in (c.recon_func.qualname, c.recon_func.name) and not any(cl[3] is x[3] for x in rc):
            rc.append(cl)
    okg = None
    whyg = 'reconstruction call not found'
    if len(rc) == 1:
        try:
            res = []
            for cy, cx, want in ((2, 3, True), (2, 4, False), (1, 3, False)):
                env = {**wenv, **env_for(cy, cx, 1, 0, 0, 0, 0, 50, goal=(2, 3))}
                callact = _all(rc[0][2][gd:], env)
                relact = any(_all(rel(s), env) for s in relax)
                retact = any(_all(g[gd:], env) for v, g in k.returns if len(g) > gd)
                res.append((callact, relact, retact, want))
            okg = all(ca == w and ra == w and (not w or not rl) for ca, rl, ra, w in res)
            whyg = 'at goal / beside goal: %s' % [(ca, rl, ra) for ca, rl, ra, w in res]
        except CannotEvaluate as e:
            okg, whyg = None, str(e)
    rep.add('A5', f, ENTRY, 'the search stops and reconstructs exactly when the goal is popped', Lw.node.lineno, okg,
            'when the popped cell is the goal its cost is final: the path must be reconstructed and the search ended, and not '
            'before; ' + whyg)
    # ---- A4: what the reconstruction receives
    if len(rc) == 1 and c.recon_roles:
        rr = c.recon_roles
        args = rc[0][1]
        byp = {}
        for p, a in zip(c.recon_func.params, args):
            byp[p] = a.name if isinstance(a, Arr) else (a[1] if isinstance(a, tuple) and a and a[0] == 'param' else _sym_name(a) if isinstance(a, Rat) else None)
        ok4 = byp.get(rr['cost']) == gname and byp.get(rr['py']) == (PY[0] if PY else None) and byp.get(rr['px']) == (PX[0] if PX else None) \
            and byp.get(rr['img']) == c.img_param and (byp.get(rr['start'][0]), byp.get(rr['start'][1])) == tuple(c.start_params) \
            and (byp.get(rr['goal'][0]), byp.get(rr['goal'][1])) == tuple(c.goal_params)
        rep.add('A4', f, ENTRY, 'reconstruction receives image=%s parents=(%s, %s) cost=%s start=(%s, %s) goal=(%s, %s)' % (
            byp.get(rr['img']), byp.get(rr['py']), byp.get(rr['px']), byp.get(rr['cost']), byp.get(rr['start'][0]),
            byp.get(rr['start'][1]), byp.get(rr['goal'][0]), byp.get(rr['goal'][1])), rc[0][3].lineno, ok4,
            'the path image must be filled from the cost-from-start array (g = %s), not from f = g + heuristic, with row '
            'parents / column parents and start / goal in their own roles' % gname)
    # ---- start initialisation
    init = [s for s in k.stores if not s.loops]
    SY, SX = Rat.sym(c.start_params[0]), Rat.sym(c.start_params[1])
    at_start = [s for s in init if tuple(s.idx) == (SY, SX)]
    byi = {}
    for s in at_start:
        byi.setdefault(s.arr.name, []).append(s)
    garr = byarr[gname][0].arr
    g0 = [s for s in byi.get(gname, [])]
    okg0 = (garr.init == 'zeros' and not g0) or (len(g0) == 1 and isinstance(g0[0].value, Rat) and g0[0].value == Rat.const(0)) or \
        (garr.init == 'zeros' and all(isinstance(s.value, Rat) and s.value == Rat.const(0) for s in g0))
    rep.add('A4', f, ENTRY, '%s[start] = 0 (%s)' % (gname, 'explicit store' if g0 else 'zero-initialised array'), f.node.lineno, okg0,
            'the start cell has cost 0')
    o0 = byi.get(OPEN.name, [])
    oko0 = len(o0) == 1 and cval(o0[0]) is True
    # opened only when crossable
    xs = [_single_atom(r[3]) for r in inl if r[0] is c.cross_func and isinstance(r[3], Rat) and _single_atom(r[3]) is not None
          and r[1] and isinstance(r[1][0], Rat) and _single_atom(r[1][0]) is not None and _single_atom(r[1][0]).name in ('read', 'cell?')
          and tuple(_single_atom(r[1][0]).args[1:3]) == (SY, SX) and _single_atom(r[1][0]).args[0] == c.data]
    GY, GX = Rat.sym(c.goal_params[0]), Rat.sym(c.goal_params[1])
    xg = [_single_atom(r[3]) for r in inl if r[0] is c.cross_func and isinstance(r[3], Rat) and _single_atom(r[3]) is not None
          and r[1] and isinstance(r[1][0], Rat) and _single_atom(r[1][0]) is not None and _single_atom(r[1][0]).name in ('read', 'cell?')
          and tuple(_single_atom(r[1][0]).args[1:3]) == (GY, GX) and _single_atom(r[1][0]).args[0] == c.data]
    if oko0:
        try:
            # the goal's own crossability may join the test: a goal that cannot be entered is never relaxed (relaxation rule
            # above), hence never popped, so the result is all NaN whether or not the start is opened
            ge = [{xg[0]: F(0)}, {xg[0]: F(1)}] if xg else [{}]
            oko0 = bool(xs) and _all(o0[0].guards, {xs[0]: F(0), **ge[0]}) and not any(_all(o0[0].guards, {xs[0]: F(1), **e_}) for e_ in ge)
        except CannotEvaluate:
            oko0 = None
    rep.add('A5', f, ENTRY, 'start enters the open list exactly when it is crossable', f.node.lineno, oko0,
            'an uncrossable start must leave the open list empty (result all NaN); a crossable one must be opened')
    pi = [(byi.get(PY[0] if PY else None, []), SY), (byi.get(PX[0] if PX else None, []), SX)]
    okpi = all(len(ss) == 1 and ss[0].value == want for ss, want in pi)
    parr = [byarr[a][0].arr for a in PY + PX]
    fills = [a.init[1] if isinstance(a.init, tuple) and a.init[0] == 'full' else None for a in parr]
    sent = c.recon_roles.get('sentinel') if c.recon_roles else None
    okfill = len(fills) == 2 and all(isinstance(v, Rat) and v.is_const() and v.const_value() < 0 for v in fills) and \
        (sent is None or all(v.const_value() == sent for v in fills))
    rep.add('A4', f, ENTRY, 'parents start as the negative sentinel %s; parent[start] = start' % [show(v) for v in fills], f.node.lineno,
            okpi and okfill, 'unreached cells must hold the NONE sentinel the reconstruction tests for (no valid index), and the '
            'start is its own parent so that start == goal yields the one-cell path')
    if fname is not None:
        f0 = byi.get(fname, [])
        okf0 = None
        if len(f0) == 1 and isinstance(f0[0].value, Rat):
            sp = Spec(prog, {})
            gy, gx = Rat.sym(c.goal_params[0]), Rat.sym(c.goal_params[1])
            eu = sp.it.app('sqrt', [(SY - gy) * (SY - gy) + (SX - gx) * (SX - gx)])
            hv = f0[0].value
            okf0 = hv == Rat.const(0) or hv == eu or (not eu.n.is_zero() and (hv / eu).is_const() and 0 <= (hv / eu).const_value() <= 1)
        elif not f0:
            okf0 = byarr[fname][0].arr.init == 'zeros'
        rep.add('A5', f, ENTRY, 'f[start] = heuristic(start) (g[start] = 0)', f.node.lineno, okf0,
                'the start\'s priority must be finite and below the argmin\'s initial value, or the first pop finds nothing')


def _param_of(a):
    if isinstance(a, tuple) and a and a[0] == 'param':
        return a[1]
    if isinstance(a, Rat):
        at = _single_atom(a)
        if at is not None and at.name in ('arr', 'param') and at.args:
            return at.args[0]
        n = _single_atom_sym(a)
        return n
    if isinstance(a, Arr):
        return a.name
    return None


# ------------------------------------------------------------------------------------------------ wrapper
def nan_image(prog, m, fn, e, depth=3):
    """expression e (in fn) is a freshly allocated all-NaN float array: np.full/full_like(..., np.nan), or zeros/empty
    followed by `name[:] = np.nan`, or a helper returning one"""
    if depth == 0 or e is None:
        return False
    if isinstance(e, ast.Name):
        vals = [v for v in fn.local_assigns().get(e.id, []) if isinstance(v, ast.AST)]
        if len(vals) != 1:
            return False
        v = vals[0]
        if isinstance(v, ast.Call) and short(v) in ('zeros', 'zeros_like', 'empty', 'empty_like', 'ones_like', 'ones'):
            fills = [s for s in fn.own_nodes() if isinstance(s, ast.Assign) and isinstance(s.targets[0], ast.Subscript) and
                     norm(s.targets[0].value) == e.id and norm(s.targets[0].slice) in (':', '...', '(:, :)', ':, :') and
                     norm(s.value) in ('np.nan', 'numpy.nan', "float('nan')", 'np.NaN')]
            return len(fills) >= 1 and _float_dtype(v)
        return nan_image(prog, m, fn, v, depth)
    if isinstance(e, ast.Call):
        if short(e) in ('full', 'full_like'):
            fv = e.args[1] if len(e.args) > 1 else kw(e, 'fill_value')
            return fv is not None and norm(fv) in ('np.nan', 'numpy.nan', "float('nan')", 'np.NaN') and _float_dtype(e)
        g = prog.resolve_callable(fn, m, e.func)
        if isinstance(g, Func):
            rets = [r for r in g.own_nodes() if isinstance(r, ast.Return)]
            return len(rets) == 1 and nan_image(prog, m, g, rets[0].value, depth - 1)
    return False


def _float_dtype(call):
    dt = kw(call, 'dtype')
    return dt is None and short(call) in ('full', 'zeros', 'empty', 'ones') or \
        (dt is not None and norm(dt) in ('np.float64', 'float', 'np.float32', 'numpy.float64', "'f8'"))


def check_point_pairs(prog, rep, pub):
    """A1-pair: wherever the wrapper reads the surface at a cell `data[r, c]` whose indices come from the caller's end points,
    row and column come from the SAME end point - the start's row with the start's column, the goal's with the goal's (the two
    blocks are copies of each other; a pasted block with one index not adapted tests a cell that is neither end point).
    Decided on the wrapper terms: for every 2-D index into the surface, the caller's point parameters mentioned by the row
    term and by the column term are the same single parameter."""
    from ..wterm import WT, walk as twalk, key as tkey, show as tshow
    w = WT(prog)
    try:
        ret = w.run(pub)
    except Exception:      # noqa - no terms, no verdict
        rep.add('A1-pair', pub, ENTRY, 'cells of the surface read by the wrapper', pub.node.lineno, None, 'wrapper terms not available')
        return
    points = [p_ for p_ in pub.params if p_ in ('start', 'goal')]
    if len(points) != 2:
        pts = [p_ for p_ in pub.params[1:3]]
        points = pts
    terms = list(w.env.values()) + ([ret] if ret is not None else [])
    for c_ in w.calls:
        terms.extend(c_.args)
        kws = c_.kwargs.items() if isinstance(c_.kwargs, dict) else c_.kwargs
        terms.extend(v_ for _, v_ in kws)
        if isinstance(c_.result, tuple):
            terms.append(c_.result)
        for g_ in c_.guards:
            terms.append(g_)
    seen, bad, n = set(), [], 0
    for t in terms:
        for x in twalk(t):
            if isinstance(x, tuple) and len(x) == 3 and x[0] == 'index' and isinstance(x[2], tuple) and x[2][:1] == ('tuple',) and \
                    len(x[2][1]) == 2 and repr(x) not in seen:
                seen.add(repr(x))
                r_, c2_ = x[2][1]
                # (inside arithmetic a sub-term is an atom named by its text)
                pr = [p_ for p_ in points if "('param', '%s')" % p_ in tkey(r_)]
                pc = [p_ for p_ in points if "('param', '%s')" % p_ in tkey(c2_)]
                if not pr and not pc:
                    continue
                n += 1
                if len(pr) != 1 or pr != pc:
                    bad.append('row from %s, column from %s in %s' % (pr or 'no point', pc or 'no point', tshow(x, 100)))
    rep.add('A1-pair', pub, ENTRY, 'cells of the surface read at an end point: %d index pairs' % n, pub.node.lineno,
            (not bad) if n else None,
            'row and column of a cell the wrapper tests come from the same end point: ' + '; '.join(bad[:2]))


def check(prog, rep):
    m = prog.module('pathfinding')
    pub = m.funcs.get('a_star_search')
    if pub is None:
        raise AnalysisIncomplete('a_star_search not found')

    class C:
        pass
    c = C()
    c.pub = pub
    from ..sharedrules import check_values_keep_dtype
    check_values_keep_dtype(prog, rep, 'A5-dtype', pub, ENTRY)
    rep.floor('A5-dtype', 1)
    check_point_pairs(prog, rep, pub)
    rep.floor('A1-pair', 1)
    # the search kernel: the jit function the wrapper calls that contains a while loop
    kc = None
    kscope = pub
    # the call of the search kernel: in the public function or in a Python-level helper of the module it calls
    from ..backends import callees as _callees
    scopes = [pub] + [g for g in _callees(prog, pub) if isinstance(g, Func) and g.jit is None and prog.same_unit(m, g.module) and not g.is_lambda]
    for sc in scopes:
        for n in sc.own_nodes():
            if isinstance(n, ast.Call):
                t = prog.resolve_callable(sc, m, n.func)
                if isinstance(t, Func) and t.jit is not None and any(isinstance(x, ast.While) for x in t.own_nodes()) and kc is None:
                    kc = (n, t)
                    kscope = sc
    if kc is None:
        raise AnalysisIncomplete('a_star_search: search kernel call not found')
    call, kern = kc
    c.kscope = kscope
    c.kernel = kern
    c.kargs = {}
    for p, a in zip(kern.params, call.args):
        c.kargs[p] = norm(a)
    for kk in call.keywords:
        if kk.arg:
            c.kargs[kk.arg] = norm(kk.value)
    c.kcall = call
    # helper roles by use inside the kernel
    callees = {}
    for n in kern.own_nodes():
        if isinstance(n, ast.Call):
            t = prog.resolve_callable(kern, m, n.func)
            if isinstance(t, Func):
                callees[t.name] = t
    c.recon_func = next((t for t in callees.values() if any(isinstance(x, ast.While) for x in t.own_nodes())), None)
    # crossable predicate: a callee returning booleans from (value, barriers)
    c.cross_func = next((t for t in callees.values() if t is not c.recon_func and len(t.params) >= 2 and
                         any(isinstance(r, ast.Return) for r in t.own_nodes()) and
                         all(isinstance(r.value, ast.Constant) and isinstance(r.value.value, bool)
                             for r in t.own_nodes() if isinstance(r, ast.Return))), None)
    if c.cross_func is None:
        # whatever it returns: the two-parameter callee that is handed a cell value and the barrier list
        cands = []
        for n in kern.own_nodes():
            if isinstance(n, ast.Call) and len(n.args) == 2 and isinstance(n.args[0], ast.Subscript):
                t = prog.resolve_callable(kern, m, n.func)
                if isinstance(t, Func) and t is not c.recon_func and len(t.params) == 2 and t not in cands:
                    cands.append(t)        # called with a cell of an array and one more argument
        c.cross_func = cands[0] if len(cands) == 1 else None
    if c.recon_func is None or c.cross_func is None:
        raise AnalysisIncomplete('search kernel: reconstruction / crossable helpers not identified')
    c.data = kern.params[0]
    # parameter roles of the kernel from the reconstruction call
    c.recon_roles = check_reconstruct(prog, rep, m, c.recon_func)
    rcall = [n for n in kern.own_nodes() if isinstance(n, ast.Call) and prog.resolve_callable(kern, m, n.func) is c.recon_func]
    if len(rcall) != 1:
        raise AnalysisIncomplete('search kernel: reconstruction call not understood')
    c.rows_param = c.cols_param = None
    c.roles = None
    c.min_func = None
    check_metric(prog, rep, m, c)
    check_crossable(prog, rep, m, c.cross_func)
    if c.recon_roles:       # otherwise the reconstruction rule has already given its verdict
        rb = {p: norm(a) for p, a in zip(c.recon_func.params, rcall[0].args)}
        for kk in rcall[0].keywords:
            rb[kk.arg] = norm(kk.value)
        rr = c.recon_roles
        c.img_param = rb.get(rr['img'])
        c.start_params = [rb.get(rr['start'][0]), rb.get(rr['start'][1])]
        c.goal_params = [rb.get(rr['goal'][0]), rb.get(rr['goal'][1])]
        if c.img_param not in kern.params or any(p not in kern.params for p in c.start_params + c.goal_params):
            raise AnalysisIncomplete('search kernel: image / start / goal are not kernel parameters')
        check_search(prog, rep, m, c)
    check_pixel_id(prog, rep, m, c)
    if c.rows_param and c.cols_param:
        check_tables(prog, rep, m, c)
    # argmin scans: the selection helper and every other jit function of the module with a running minimum (snapping)
    seen = set()
    if c.min_func is None:
        for t in callees.values():
            if t is not c.recon_func and t is not c.cross_func and t.jit is not None and \
                    any(isinstance(x, ast.For) for x in t.own_nodes()):
                check_argmin(prog, rep, m, t, 'select')
                seen.add(t.name)
    if c.min_func is not None:
        facts = check_argmin(prog, rep, m, c.min_func, 'select')
        seen.add(c.min_func.name)
        if facts and c.roles and getattr(c, 'min_args', None):
            # the scan's value array / eligibility mask must be bound to (f, open) in that order
            k = facts['k']
            V = _single_atom(facts['V'])
            el = facts['elig']
            okb = V is not None and V.name in ('read', 'cell?') and len(el) == 1 and el[0][1] is True and \
                el[0][0].name in ('read', 'cell?')
            if okb:
                bind = dict(zip(c.min_func.params, c.min_args))
                okb = bind.get(V.args[0]) in (c.roles['F'], c.roles['G']) and bind.get(el[0][0].args[0]) == c.roles['OPEN']
            rep.add('A5', c.min_func, ENTRY, 'selection: minimal %s over cells flagged in %s' % (
                c.roles['F'], c.roles['OPEN']), c.min_func.node.lineno, okb,
                'the expanded cell must be the open cell of minimal f-cost')
    for g in m.funcs.values():
        if g.jit is None or g.name in seen or g is kern:
            continue
        src = ast.unparse(g.node)
        if not any(isinstance(x, ast.For) for x in g.own_nodes()):
            continue
        try:
            kk = interpret(prog, g, strict=False)
        except AnalysisIncomplete:
            continue
        if not any(getattr(L, 'carried', None) and L.kind == 'range' and any(
                _single_atom(p) is not None and _single_atom(p).name == 'ite' for _, p in L.carried.values() if isinstance(p, Rat))
                for L in kk.loops):
            continue
        facts = check_argmin(prog, rep, m, g, 'snap')
        if facts:
            check_snap(prog, rep, m, c, g, facts)
    # wrapper: NaN initialised image passed to the kernel
    img_actual = None
    for p, a in zip(kern.params, call.args):
        if p == getattr(c, 'img_param', None):
            img_actual = a
    if img_actual is None:
        return
    ok = nan_image(prog, m, kscope, img_actual)
    rep.add('A4', pub, ENTRY, 'path image %s is NaN-initialised' % (norm(img_actual) if img_actual is not None else None),
            call.lineno, ok, 'cells off the path (and everything when no route exists) must be NaN: the image handed to the '
            'search must be a fresh float array filled with NaN')
    rets = [r for r in pub.own_nodes() if isinstance(r, ast.Return)]
    # the image is written by the search alone: no path of the wrapper fills cells itself (a shortcut for "start is the goal"
    # or "nothing to do" skips the crossability and connectivity tests the search makes), and what is returned wraps it
    from ..wterm import WT, key as tkey, show as tshow
    w = WT(prog, depth=4)
    wret = w.run(pub)
    recs = [x for x in w.calls if x.callee is kern]
    okw, whyw = None, 'kernel call not found in the wrapper terms'
    if len(recs) == 1 and recs[0].bound.get(c.img_param) is not None:
        img_t = recs[0].bound[c.img_param]
        FULL = ('slice', None, None, None)
        extra = []
        for tg, val, gs, nd in w.stores:
            if tg[0] == 'index' and tkey(tg[1]) == tkey(img_t):
                lead = tg[2][1] if tg[2][0] == 'tuple' else (tg[2],)
                whole = all(x == FULL or x == ('const', Ellipsis) for x in lead)
                isnan = val in (('global', 'np.nan'), ('global', 'numpy.nan')) or (val[0] == 'const' and isinstance(val[1], float) and val[1] != val[1])
                if not (whole and isnan):
                    extra.append('%s = %s' % (tshow(tg[2], 40), tshow(val, 40)))

        def leaves(t_):
            if isinstance(t_, tuple) and t_ and t_[0] == 'phi':
                return leaves(t_[2]) + leaves(t_[3])
            return [t_] if t_ is not None else []
        badret = []
        for lf in leaves(wret):
            d_ = None
            if isinstance(lf, tuple) and lf[0] == 'call' and str(lf[1]).endswith('DataArray'):
                d_ = lf[2][0] if lf[2] else dict(lf[3]).get('data')
            if d_ is None or tkey(d_) != tkey(img_t):
                badret.append(tshow(lf, 80))
        okw = not extra and not badret
        whyw = ('the wrapper itself stores %s into the image' % extra[0]) if extra else (('returned on some path: %s' % badret[0]) if badret else '')
    rep.add('A4', pub, ENTRY, 'the path image is written by the search alone and returned', call.lineno, okw,
            'every route (also the trivial one) comes out of the search, which tests crossability and connectivity; ' + whyw)
    rep.floor('A1', 8)
    rep.floor('A2', 1)
    rep.floor('A3', 5)
    rep.floor('A4', 5)
    rep.floor('A5', 10)
    rep.floor('A6', 6)


def check_snap(prog, rep, m, c, g, facts):
    """snapping: the scanned value is the Euclidean pixel distance to the requested cell, eligible cells are the
    crossable ones, and a crossable request is returned unchanged"""
    k = facts['k']
    y, x = facts['cell']
    V = facts['V']
    ps = [p for p in g.params]
    # the requested cell: the parameters indexing the scanned array in the crossable test outside the scan
    inl0 = getattr(k, 'inlined', [])
    req = None
    for r in inl0:
        if r[0] is c.cross_func and r[1] and isinstance(r[1][0], Rat):
            aa = _single_atom(r[1][0])
            if aa is not None and aa.name in ('read', 'cell?') and len(aa.args) >= 3:
                names = (_sym_name(aa.args[1]), _sym_name(aa.args[2]))
                if all(n in ps for n in names):
                    req = names
    okd = None
    if req is not None:
        py, px = req
        eu = Spec(prog, {}).it.app('sqrt', [(y - Rat.sym(py)) * (y - Rat.sym(py)) + (x - Rat.sym(px)) * (x - Rat.sym(px))])
        okd = eu == V
    rep.add('A6', g, ENTRY, '%s: candidates are ranked by Euclidean pixel distance to the requested cell %s' % (g.name, req), g.node.lineno, okd,
            'snapping moves an end point to the NEAREST crossable cell: the scanned value must be sqrt(dy^2 + dx^2) between the '
            'candidate (row, col) and the requested (row, col); got %s' % show(V, 100))
    inl = getattr(k, 'inlined', [])
    el = facts['elig']
    okc = len(el) == 1 and el[0][1] is False
    if okc:
        recs = [r for r in inl if r[0] is c.cross_func and isinstance(r[3], Rat) and _single_atom(r[3]) == el[0][0]]
        okc = len(recs) >= 1 and isinstance(recs[0][1][0], Rat) and _single_atom(recs[0][1][0]) is not None and \
            _single_atom(recs[0][1][0]).name in ('read', 'cell?') and tuple(_single_atom(recs[0][1][0]).args[1:3]) == (y, x)
    rep.add('A6', g, ENTRY, '%s: candidates are the crossable cells' % g.name, g.node.lineno, okc,
            'only crossable cells (not NaN, not a barrier) may be snapped to')
    # early return of a crossable request; result = (row, col) of the minimum
    oke = None
    if req is not None:
        try:
            xs = [_single_atom(r[3]) for r in inl if r[0] is c.cross_func and isinstance(r[3], Rat) and isinstance(r[1][0], Rat)
                  and _single_atom(r[1][0]) is not None and tuple(_single_atom(r[1][0]).args[1:3]) == (Rat.sym(req[0]), Rat.sym(req[1]))]
            if xs:
                r0 = first_return(k, {xs[0]: F(0)})
                r1 = first_return(k, {xs[0]: F(1)})
                keep = isinstance(r0, TupleV) and [(_param_of(i)) for i in r0.items] == list(req)
                lo = isinstance(r1, TupleV) and len(r1.items) == 2 and all(
                    _single_atom(i) is not None and _single_atom(i).name == 'loopout' for i in r1.items if isinstance(i, Rat))
                oke = keep and lo
        except (CannotEvaluate, AttributeError, StopIteration):
            oke = None
    rep.add('A6', g, ENTRY, '%s: a crossable request is kept, otherwise the scan result is returned' % g.name,
            g.node.lineno, oke, 'snapping leaves a crossable end point alone and returns the argmin as (row, column)')
