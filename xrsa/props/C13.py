"""C13 - spectral indices equal their band formulas, NaN where undefined.

Decided (Engine A): for each index and each of the numpy and dask paths the per-cell stored value, rewritten in the
public parameter names through wrapper -> dispatch -> (map_blocks ->) kernel binding, equals the published rational
function (exact normal-form equality); the store is guarded by `divisor != 0` on an expression with the same zero set
as the divisor; output NaN-initialised, full loop ranges, footprint {(0,0)}; bands cast to a float dtype before any
arithmetic; validate_arrays covers every band; true_color alpha/normalisation structure.
"""
import ast

from ..backends import backend_paths, delegation_binding, local_value
from ..kai import Arr, cond_repr, flatten_and, interpret
from ..kutil import value_cases, is_nan_value, returned_arrays, Spec, approx_equal, const_ratio, offsets, reads_in, show, guard_atoms
from ..program import AnalysisIncomplete, Ext, Func, Partial, norm
from ..sym import App, Rat, Sym, subst, walk_atoms

# published formulas over the PUBLIC parameter names (DESIGN Appendix B1)
FORMULAS = {
    'arvi': ('(nir_agg - (2 * red_agg - blue_agg)) / (nir_agg + (2 * red_agg - blue_agg))', 'Kaufman & Tanre 1992'),
    'evi': ('gain * (nir_agg - red_agg) / (nir_agg + c1 * red_agg - c2 * blue_agg + soil_factor)', 'Huete 2002'),
    'gci': ('nir_agg / green_agg - 1', 'Gitelson 2003'),
    'nbr': ('(nir_agg - swir2_agg) / (nir_agg + swir2_agg)', 'USGS'),
    'nbr2': ('(swir1_agg - swir2_agg) / (swir1_agg + swir2_agg)', 'USGS'),
    'ndvi': ('(nir_agg - red_agg) / (nir_agg + red_agg)', 'Rouse 1974'),
    'ndmi': ('(nir_agg - swir1_agg) / (nir_agg + swir1_agg)', 'USGS'),
    'savi': ('(nir_agg - red_agg) * (1 + soil_factor) / (nir_agg + red_agg + soil_factor)', 'Huete 1988'),
    'sipi': ('(nir_agg - blue_agg) / (nir_agg - red_agg)', 'Penuelas 1995'),
    'ebbi': ('(swir_agg - red_agg) / (10 * sqrt(swir_agg + tir_agg))', 'As-syakur 2012'),
}
FLOAT_DTYPES = {"'f4'", "'f8'", "'float32'", "'float64'", 'np.float32', 'np.float64', 'float', 'numpy.float32',
                'numpy.float64', "'f'", "'d'", 'cupy.float32'}


def _is_float_dtype_text(prog, scope, text):
    """a cast target named by value: `'f4'`, np.float32, np.dtype('float32'), or a module-level / local constant bound to one"""
    if text in FLOAT_DTYPES:
        return True
    from ..sharedrules import float_dtype_expr
    try:
        node = ast.parse(text, mode='eval').body
    except SyntaxError:
        return False
    return bool(float_dtype_expr(prog, scope, node))


def band_root(expr):
    """`X.data.astype('f4')` -> ('X', [cast dtype texts])"""
    casts = []
    e = expr
    while True:
        if isinstance(e, ast.Call) and isinstance(e.func, ast.Attribute) and e.func.attr == 'astype':
            casts.append(norm(e.args[0]) if e.args else (norm(e.keywords[0].value) if e.keywords else '?'))
            e = e.func.value
        elif isinstance(e, ast.Attribute) and e.attr in ('data', 'values'):
            e = e.value
        else:
            break
    if isinstance(e, ast.Name):
        return e.id, casts
    return None, casts


def map_blocks_call(prog, f):
    """the (single) da.map_blocks / x.map_blocks call of a dask wrapper: (call, block target, array arg exprs, kw)"""
    found = []
    for n in f.own_nodes():
        if isinstance(n, ast.Call) and isinstance(n.func, ast.Attribute) and n.func.attr == 'map_blocks':
            t = prog.resolve_callable(f, f.module, n.func)
            if isinstance(t, Ext) and t.dotted.startswith('dask.array'):
                blk = prog.resolve_callable(f, f.module, n.args[0])
                found.append((n, blk, list(n.args[1:]), {k.arg: k.value for k in n.keywords if k.arg}))
            elif t is None:
                blk = prog.resolve_callable(f, f.module, n.args[0])
                found.append((n, blk, [n.func.value] + list(n.args[1:]), {k.arg: k.value for k in n.keywords if k.arg}))
    return found


def kernel_binding(prog, pub, path):
    """kernel Func and its parameter -> (public param name | expr text) binding for one backend path."""
    f = path.func()
    if f is None:
        raise AnalysisIncomplete('%s[%s]: path function unresolved' % (pub.name, path.backend))
    bind = {}
    casts = {}
    pmap = getattr(path, 'param_map', None)
    from ..backends import splice_starred
    for p, a in list(zip(f.params, splice_starred(prog, path.scope, path.args))) + list(path.keywords.items()):
        a = local_value(path.scope, a)
        root, cs = band_root(a)
        if pmap is not None and root is not None:
            root = pmap.get(root)
        bind[p] = (root, a)
        casts[p] = cs
    if path.backend == 'numpy':
        # a plain runner in front of the kernel (`def _run_numpy(a, b): return _kernel(a.astype('f4'), b.astype('f4'))`): the
        # kernel is what it calls, the casts it applies are added to the wrapper's
        for _ in range(3):
            if f.jit is not None or f.is_lambda:
                break
            rets = [r for r in f.own_nodes() if isinstance(r, ast.Return) and r.value is not None]
            if len(rets) != 1 or not isinstance(rets[0].value, ast.Call):
                break
            c = rets[0].value
            g = prog.resolve_callable(f, f.module, c.func)
            if not isinstance(g, Func) or g.is_lambda or not prog.same_unit(f.module, g.module) or any(isinstance(a, ast.Starred) for a in c.args):
                break
            nb, nc = {}, {}
            okk = True
            for p, a in list(zip(g.params, c.args)) + [(k.arg, k.value) for k in c.keywords if k.arg]:
                a = local_value(f, a)
                root, cs = band_root(a)
                if root in bind:
                    nb[p] = bind[root]
                    nc[p] = casts[root] + cs
                elif isinstance(a, ast.Constant):
                    nb[p] = (None, a)
                    nc[p] = cs
                else:
                    okk = False
            if not okk:
                break
            f, bind, casts = g, nb, nc
        return f, bind, casts, None
    mbs = map_blocks_call(prog, f)
    if len(mbs) != 1:
        raise AnalysisIncomplete('%s[dask]: expected one map_blocks call in %s, found %d' % (pub.name, f.qualname, len(mbs)))
    call, blk, arrs, kw = mbs[0]
    kern = blk
    pre = {}
    while isinstance(kern, Partial):
        pre.update(kern.keywords)
        kern = kern.target
    if not isinstance(kern, Func):
        raise AnalysisIncomplete('%s[dask]: block function unresolved' % pub.name)
    kb, kc = {}, {}
    actuals = list(zip(kern.params, arrs)) + [(k, v) for k, v in kw.items() if k in kern.params] + list(pre.items())
    for p, a in actuals:
        root, cs = band_root(a)
        if root in bind:
            kb[p] = bind[root]
            kc[p] = casts[root] + cs
        else:
            kb[p] = (None, a)
            kc[p] = cs
    return kern, kb, kc, call


def analyse_index(prog, rep, pub, path, formula_text):
    name = pub.name
    entry = '%s[%s]' % (name, path.backend)
    kern, bind, casts, mbcall = kernel_binding(prog, pub, path)
    try:
        k = interpret(prog, kern)
    except AnalysisIncomplete:
        from ..sharedrules import flat_alias_of_like
        fa = flat_alias_of_like(kern)
        if fa:
            x, alias, base, node, like = fa[0]
            rep.add('M1-store', kern, entry, '%s = %s; %s[..] = ...' % (alias, norm(node.value), alias), x.lineno, False,
                    'the index is written through a flattened alias of `%s`, which is allocated like the input band (%s): for a '
                    'column-major or transposed band the alias is a copy and every stored cell is lost (the result stays NaN)'
                    % (base, norm(like) if like is not None else 'flatten() always copies'))
            return kern, set()
        raise
    rets = returned_arrays(k)
    if len(rets) != 1:
        raise AnalysisIncomplete('%s: kernel %s does not return one array' % (entry, kern.qualname))
    out = rets[0]
    stores = [s for s in k.stores if s.arr is out and s.idx != 'all']
    if not stores:
        raise AnalysisIncomplete('%s: no per-cell store' % entry)
    # a cell is undefined-as-NaN either because the output starts all-NaN and only defined cells are stored, or because
    # every cell is stored with NaN on the undefined branch (then the initial content never shows)
    total = all(not flatten_and(s_.guards) for s_ in stores)
    rep.add('M2-init', kern, entry, 'output %s initialised %r%s' % (getattr(out, 'var', out.name), out.init, ', every cell stored' if total else ''),
            kern.node.lineno, out.init == 'nan' or (total and all(any(is_nan_value(v_) for c_, v_ in value_cases(s_.value)) for s_ in stores)),
            'undefined cells must be NaN: the output starts all-NaN, or every cell is stored unconditionally with NaN on the undefined branch')
    # public-name substitution
    pubsyms = {}
    for p, (root, expr) in bind.items():
        if root is not None and root in pub.params:
            pubsyms[p] = Rat.sym(root)
    env = {p: Rat.sym(p) for p in pub.params}
    want = Spec(prog, env).expr(formula_text)
    arrays = {p for p in kern.params if p in k.arrays or any(isinstance(a, App) and a.name == 'read' and a.args[0] == p
                                                             for s in stores for a in walk_atoms(s.value))}
    for s in stores:
        if len(s.idx) != 2 or len(s.loops) != 2:
            rep.add('M1-store', kern, entry, norm(s.node), s.node.lineno, False, 'store must be out[y, x] in two loops')
            continue
        yv, xv = s.idx
        # loops cover the whole array
        lo_ok = all(lp.lo == Rat.const(0) and lp.step == Rat.const(1) for lp in s.loops)
        his = {repr(lp.hi) for lp in s.loops}
        shape_ok = False
        for arr in arrays:
            if his == {repr(Rat.atom(App('shape', [arr, 0]))), repr(Rat.atom(App('shape', [arr, 1])))}:
                shape_ok = True
                byvar = {lp.var: lp for lp in s.loops}
                ylp = byvar.get(repr(yv))
                shape_ok = ylp is not None and ylp.hi == Rat.atom(App('shape', [arr, 0]))
        rep.add('M1-loops', kern, entry, 'loops of ' + norm(s.node), s.node.lineno, lo_ok and shape_ok,
                'every cell must be visited: rows 0..shape[0], cols 0..shape[1], result stored at [row, col]')
        # footprint
        atoms = set(reads_in(s.value)) | {a for a in guard_atoms(s.guards) if isinstance(a, App) and a.name == 'read'}
        offs = offsets(atoms, (yv, xv))
        rep.add('M1-footprint', kern, entry, 'reads of ' + norm(s.node), s.node.lineno, offs == {(0, 0)},
                'a spectral index is a per-cell function: all bands must be read at [y, x]; offsets %s' % sorted(map(str, offs)))

        def to_public(a):
            if isinstance(a, App) and a.name == 'read' and a.args[0] in pubsyms:
                return pubsyms[a.args[0]]
            if isinstance(a, Sym) and a.name in bind:
                root, expr = bind[a.name]
                if root is not None and root in pub.params:
                    return Rat.sym(root)
                if isinstance(expr, ast.Constant) and isinstance(expr.value, (int, float)):
                    return Rat.const(expr.value)
            if isinstance(a, Sym) and a.name in kern.params and a.name not in bind:
                # a kernel parameter this path does not pass: it has the kernel's default, not the caller's value - even
                # when it happens to be called like a public parameter
                dflt = kern.defaults().get(a.name)
                if isinstance(dflt, ast.Constant) and isinstance(dflt.value, (int, float)) and not isinstance(dflt.value, bool):
                    return Rat.const(dflt.value)
                return Rat.sym('<kernel default of %s>' % a.name)
            return None
        cases = value_cases(s.value, s.guards)
        defined = [(c_, v_) for c_, v_ in cases if not is_nan_value(v_)]
        if len(defined) != 1:
            rep.add('M1', kern, entry, norm(s.node), s.node.lineno, None if defined else False,
                    'the stored value must be the index on one branch and NaN otherwise; %d non-NaN branches' % len(defined))
            continue
        gs, sval = defined[0]
        val = subst(sval, to_public)
        ok = approx_equal(val, want, tol=0)
        rep.add('M1', kern, entry, '%s = %s' % (name, show(val, 400)), s.node.lineno, ok,
                'per-cell value, in public parameter names, must equal the published formula %s [%s]'
                % (formula_text, FORMULAS[name][1]), facts={'expected': show(want, 300)})
        # guard: exactly the divisor != 0
        gok = False
        why = 'guards: %s' % [cond_repr(g)[:100] for g in gs]
        if len(gs) == 1 and gs[0][0] == 'cmp' and gs[0][1] == '!=':
            g = subst(gs[0][3], to_public)
            if not val.d.is_const() and g.d.is_const():
                gok = const_ratio(val.d, g.n) is not None
        rep.add('M2', kern, entry, 'guard of ' + norm(s.node), s.node.lineno, gok,
                'the store must be guarded by `divisor != 0` on an expression with exactly the zero set of the '
                'value\'s divisor %s; %s' % (show(Rat(val.d), 120), why))
    # M3: float cast before arithmetic
    for p in sorted(arrays):
        cs = casts.get(p, [])
        kcast = _kernel_casts(kern, p)
        ok = any(_is_float_dtype_text(prog, pub, c) for c in cs) or kcast
        root = bind.get(p, (None, None))[0]
        rep.add('M3', pub, entry, 'band %s -> kernel parameter %s casts %s' % (root, p, cs), path.call.lineno, ok,
                'each band must be converted to a floating dtype before the first arithmetic on it (integer '
                'bands would overflow/wrap)')
    # sibling: all public band params reach the kernel
    reached = {root for p, (root, e) in bind.items() if root}
    return kern, arrays


def _kernel_casts(kern, p):
    for st in kern.node.body[:4]:
        if isinstance(st, ast.Assign) and isinstance(st.targets[0], ast.Name) and st.targets[0].id == p:
            v = st.value
            if isinstance(v, ast.Call) and isinstance(v.func, ast.Attribute) and v.func.attr == 'astype' and \
                    isinstance(v.func.value, ast.Name) and v.func.value.id == p and v.args and norm(v.args[0]) in FLOAT_DTYPES:
                return True
    return False


def check_validate(prog, rep, pub, bands):
    """M6/H5: validate_arrays covers every band parameter before the dispatch."""
    cov = set()
    line = pub.node.lineno
    for n in pub.own_nodes():
        if isinstance(n, ast.Call):
            t = prog.resolve_callable(pub, pub.module, n.func)
            if isinstance(t, Func) and t.name == 'validate_arrays':
                line = n.lineno
                for a in n.args:
                    if isinstance(a, ast.Name):
                        cov.add(a.id)
    if any(b not in cov for b in bands):
        # through helpers: the call as a wrapper term (arguments bound to the public parameters wherever it is made)
        from ..wterm import WT
        va = prog.func('utils', 'validate_arrays')
        w_ = WT(prog, keep=[va])
        try:
            w_.run(pub)
        except Exception:      # noqa
            w_ = None
        for c_ in (w_.calls if w_ is not None else []):
            if c_.callee is va:
                line = c_.node.lineno
                for a_ in c_.args:
                    if isinstance(a_, tuple) and a_ and a_[0] == 'param':
                        cov.add(a_[1])
    missing = [b for b in bands if b not in cov]
    rep.add('M6-validate', pub, pub.name, 'validate_arrays(%s)' % ', '.join(sorted(cov)), line, not missing,
            'all band rasters must be validated for equal shape/type (and aligned chunks) before dispatch; '
            'missing: %s' % missing)


def check_true_color(prog, rep):
    m = prog.module('multispectral')
    for fname, backend in (('_true_color_numpy', 'numpy'), ('_true_color_dask', 'dask')):
        f = m.funcs.get(fname)
        pub = m.funcs.get('true_color')
        if pub is None:
            raise AnalysisIncomplete('true_color not found')
        paths = [p for p in backend_paths(prog, pub) if p.backend == backend]
        if not paths or paths[0].func() is None:
            raise AnalysisIncomplete('true_color[%s] path not found' % backend)
        f = paths[0].func()
        entry = 'true_color[%s]' % backend
        # the four channels as wrapper terms (wterm.py): loops over (r, g, b), list comprehensions, append, and the
        # two ways of building alpha (np.where, or fill + masked assignment) read the same
        from ..wterm import WT, key as tkey, show as tshow
        norms = [g for n_, g in m.funcs.items() if n_.startswith('_normalize_data')]
        w = WT(prog, keep=norms)
        ret = w.run(f)
        rp, gp, bp = f.params[:3]
        npar = f.params[3] if len(f.params) > 3 else None
        chan = {}          # channel index -> list of (mask term or None, value term) in program order

        def strip(t_):
            while isinstance(t_, tuple) and t_ and (t_[0] == 'cast' or (t_[0] == 'call' and t_[1] in ('numpy.asarray', 'numpy.array', 'dask.array.asarray') and t_[2])):
                t_ = t_[1] if t_[0] == 'cast' else t_[2][0]
            return t_
        if backend == 'numpy':
            FULL = ('slice', None, None, None)

            def plane(t_):
                """(k, lead) when t_ is `<array>[<lead>, k]` with a constant channel k"""
                if t_[0] == 'index' and t_[2][0] == 'tuple' and t_[2][1] and t_[2][1][-1][0] == 'const':
                    return t_[2][1][-1][1], t_[2][1][:-1]
                return None
            for tgt, val, guards, node in w.stores:
                pl = plane(tgt)
                if pl is not None:
                    k_, lead = pl
                    mask = None if all(x == FULL for x in lead) else (lead[0] if len(lead) == 1 else ('tuple', lead))
                    chan.setdefault(k_, []).append((mask, val))
                elif tgt[0] == 'index' and plane(tgt[1]) is not None and all(x == FULL for x in plane(tgt[1])[1]):
                    # a store through the view of one whole channel plane (`a = out[:, :, 3]; a[mask] = 0`)
                    k_ = plane(tgt[1])[0]
                    idx = tgt[2]
                    lead = idx[1] if idx[0] == 'tuple' else (idx,)
                    mask = None if all(x == FULL for x in lead) else (lead[0] if len(lead) == 1 else ('tuple', lead))
                    chan.setdefault(k_, []).append((mask, val))
        else:
            st = strip(ret) if ret is not None else None
            items = None
            for t_ in ([ret] if ret is not None else []):
                if t_[0] == 'call' and str(t_[1]).endswith('stack') and t_[2] and t_[2][0][0] == 'tuple':
                    items = t_[2][0][1]
                    ax = dict(t_[3]).get('axis')
                    if ax not in (('const', -1), ('const', 2)):
                        items = None
            for k_, it_ in enumerate(items or []):
                chan[k_] = [(None, it_)]

        def source(val):
            v_ = strip(val)
            if v_[0] == 'call' and any(v_[1] == g.qualname for g in norms) and v_[2] and v_[2][0][0] == 'param':
                return v_[2][0][1]
            return None
        order = [source(chan[k_][-1][1]) if k_ in chan and len(chan[k_]) == 1 else None for k_ in range(3)]
        # alpha: 0 exactly where red is NaN or <= nodata, 255 elsewhere
        def is_mask(t_):
            t_ = strip(t_)
            parts = None
            if t_[0] == 'call' and t_[1] in ('numpy.logical_or', 'dask.array.logical_or') and len(t_[2]) == 2:
                parts = t_[2]
            elif t_[0] == 'bin' and t_[1] == 'BitOr':
                parts = (t_[2], t_[3])
            elif t_[0] == 'bool' and t_[1] == 'or' and len(t_[2]) == 2:
                parts = t_[2]
            if parts is None:
                return False
            kinds = set()
            for p_ in parts:
                p_ = strip(p_)
                if p_[0] == 'call' and p_[1] in ('numpy.isnan', 'dask.array.isnan') and p_[2] == (('param', rp),):
                    kinds.add('nan')
                if p_[0] == 'cmp' and p_[1] == 'LtE' and p_[2] == ('param', rp) and npar and p_[3] == ('param', npar):
                    kinds.add('le')
            return kinds == {'nan', 'le'}
        oka, whya = None, 'alpha channel not understood: %s' % [(tshow(a_, 40) if a_ else None, tshow(b_, 60)) for a_, b_ in chan.get(3, [])]
        a3 = chan.get(3, [])

        def settled(ws):
            """the writes that survive: everything before the last whole-array write is overwritten"""
            last = max([i_ for i_, (m_, v2) in enumerate(ws) if m_ is None], default=0)
            return ws[last:]
        ALLOC0 = {'numpy.full': None, 'numpy.full_like': None, 'numpy.empty': (), 'numpy.empty_like': (), 'numpy.zeros': ('const', 0),
                  'numpy.zeros_like': ('const', 0), 'numpy.ones': ('const', 1), 'numpy.ones_like': ('const', 1)}
        a3 = settled(a3)
        if len(a3) == 1 and a3[0][0] is None:
            v_ = strip(a3[0][1])
            if v_[0] == 'call' and v_[1] in ('numpy.where', 'dask.array.where') and len(v_[2]) == 3:
                oka = is_mask(v_[2][0]) and v_[2][1] == ('const', 0) and v_[2][2] == ('const', 255)
                whya = 'where(%s, %s, %s)' % (tshow(v_[2][0], 80), v_[2][1], v_[2][2])
            elif v_[0] == 'call' and v_[1] in ALLOC0:
                # a separate alpha array: allocated, written (whole fills and masked stores, in program order), then stored
                init = ALLOC0[v_[1]]
                if init is None:
                    init = v_[2][1] if len(v_[2]) >= 2 else dict(v_[3]).get('fill_value')
                ws = [(None, init)] if init not in ((), None) else []
                for t2, v2, g2, n2 in w.stores:
                    if t2[0] == 'index' and tkey(t2[1]) == tkey(v_) and not g2:
                        lead = t2[2][1] if t2[2][0] == 'tuple' else (t2[2],)
                        ws.append((None if all(x == ('slice', None, None, None) or x == ('const', Ellipsis) for x in lead) else
                                   (lead[0] if len(lead) == 1 else ('tuple', lead)), v2))
                    elif t2[0] == 'index' and tkey(t2[1]) == tkey(v_):
                        ws = None
                        break
                a3 = settled(ws) if ws else []
        if len(a3) == 1 and a3[0][0] is None and isinstance(a3[0][1], tuple) and a3[0][1][0] == 'const':
            # what survives is one whole-array constant: no cell is distinguished
            oka, whya = False, 'every cell ends up %r (a whole fill is the last write)' % (a3[0][1][1],)
        if len(a3) == 2 and a3[0][0] is None and a3[1][0] is not None:
            oka = a3[0][1] == ('const', 255) and a3[1][1] == ('const', 0) and is_mask(a3[1][0])
            whya = 'filled with %s, then %s where %s' % (a3[0][1], a3[1][1], tshow(a3[1][0], 80))
        rep.add('M5-alpha', f, entry, 'alpha', f.node.lineno, oka,
                'alpha must be 0 exactly where red is NaN or <= nodata and 255 elsewhere; ' + whya)
        # the red band reaches the alpha comparison as given: a narrowing cast before it moves cells across `<= nodata`
        wp = WT(prog)
        wp.run(pub)
        rec = [x for x in wp.calls if x.node is paths[0].call]
        okin, whyin = None, 'dispatch call not found in the wrapper terms'
        if rec and rec[0].args:
            red = rec[0].args[0]
            rpub = pub.params[0]
            if red in (('param', rpub), ('data', ('param', rpub))):
                okin, whyin = True, ''
            elif red[0] == 'cast' and tkey(strip(red)) in (tkey(('param', rpub)), tkey(('data', ('param', rpub)))):
                dt = red[2][1] if red[2][0] in ('const', 'global') else None
                wide = dt in ('f8', 'float64', 'np.float64', 'float', 'numpy.float64', '<f8')
                okin, whyin = (True if wide else False), 'red band cast to %s before the comparison with nodata' % (dt,)
            else:
                whyin = 'red band argument %s' % tshow(red, 80)
        rep.add('M5-alpha', pub, entry, 'red band handed to the alpha test unrounded', paths[0].call.lineno, okin,
                'alpha compares the red band with nodata: the band must reach that comparison as given (or widened), a cast to a '
                'narrower float first moves cells that are within rounding of nodata to the other side; ' + whyin)
        rep.add('M5-channels', f, entry, 'channel order %s + alpha' % order, f.node.lineno,
                order == [rp, gp, bp] and 3 in chan and set(chan) == {0, 1, 2, 3},
                'RGBA channels must be (r, g, b, alpha) in this order, each colour the normalised band')
    # normalisation kernel: sigmoid of the min/max-normalised value, global min/max (numpy path).  The kernel's
    # parameters get their roles from what the public function hands them (wrapper terms through the dispatch), not
    # from their names or positions: the band, its nanmin, its nanmax, and the public c / th / the constant 255.
    from ..wterm import WT, key as tkey, show as tshow
    pub = m.funcs.get('true_color')
    wk = WT(prog, depth=6, backend='numpy')
    wk.run(pub)
    kcalls = [c_ for c_ in wk.calls if isinstance(c_.callee, Func) and c_.callee.jit is not None and c_.bound
              and any(isinstance(v_, tuple) and v_[0] == 'call' and v_[1] in ('numpy.nanmin', 'numpy.nanmax') for v_ in c_.bound.values())]
    if not kcalls:
        raise AnalysisIncomplete('normalisation kernel call (with the band nanmin / nanmax) not found on the numpy path of true_color')
    seen = set()
    for kc in kcalls:
        kern = kc.callee
        sig = (kern.qualname, tuple(sorted((p_, tkey(_band_free(v_, pub))) for p_, v_ in kc.bound.items())))
        if sig in seen:
            continue
        seen.add(sig)
        args, ras, why, ras_ts = {}, None, '', []
        for p_, v_ in kc.bound.items():
            if v_[0] == 'const' and isinstance(v_[1], (int, float)):
                args[p_] = Rat.const(v_[1])
            elif v_[0] == 'param':
                args[p_] = Rat.sym(v_[1])
            elif v_[0] == 'call' and v_[1] in ('numpy.nanmin', 'numpy.nanmax') and len(v_[2]) == 1:
                args[p_] = Rat.sym('band_min' if v_[1].endswith('min') else 'band_max')
                ras_ts.append(v_[2][0])
            else:
                args[p_] = v_
        for p_, v_ in kc.bound.items():
            if isinstance(args[p_], tuple):
                if ras_ts and tkey(v_) == tkey(ras_ts[0]):
                    ras = p_
                    args[p_] = Arr(p_, 'param')
                else:
                    why = 'kernel parameter %s bound to %s' % (p_, tshow(v_, 80))
        if len(set(tkey(t_) for t_ in ras_ts)) > 1:
            rep.add('M5-sigmoid', kern, 'true_color', 'kernel call', kc.node.lineno, False,
                    'minimum and maximum handed to the normalisation are taken over different arrays: %s' % ', '.join(tshow(t_, 60) for t_ in ras_ts))
            continue
        if ras is None or why:
            rep.add('M5-sigmoid', kern, 'true_color', 'kernel call', kc.node.lineno, None, why or 'band argument of the kernel not identified')
            continue
        k = interpret(prog, kern, args=args)
        stores = [s_ for s_ in k.stores if s_.idx != 'all']
        for s_ in stores:
            yv, xv = s_.idx
            env2 = dict(args, y=yv, x=xv, data=args[ras], band_min=Rat.sym('band_min'), band_max=Rat.sym('band_max'),
                        c=Rat.sym('c'), th=Rat.sym('th'))
            want = Spec(prog, env2).expr('255 / (1 + exp(c * (th - (data[y, x] - band_min) / (band_max - band_min))))')
            rep.add('M5-sigmoid', kern, 'true_color', norm(s_.node), s_.node.lineno, approx_equal(s_.value, want, tol=0),
                    'normalised channel must be 255 * sigmoid(c * ((v - min)/(max - min) - th)) with the band\'s own nanmin / nanmax and '
                    'the public c / th; got %s' % show(s_.value, 200))


def _band_free(t, pub):
    """term with the band parameter names (first three public parameters) replaced by one placeholder: the three channel calls
    are one rule instance"""
    bands = set(pub.params[:3])

    def go(x):
        if isinstance(x, tuple):
            if len(x) == 2 and x[0] == 'param' and x[1] in bands:
                return ('param', '<band>')
            return tuple(go(y) for y in x)
        return x
    return go(t)


def _const(f, e):
    try:
        return ast.literal_eval(e)
    except Exception:
        pass
    if isinstance(e, ast.Name):
        vals = f.local_assigns().get(e.id, [])
        if len(vals) == 1 and isinstance(vals[0], ast.AST):
            try:
                return ast.literal_eval(vals[0])
            except Exception:
                return None
    return None


def channel_order(prog, f):
    """which input feeds channel 0..3"""
    def src(e):
        # (_normalize_data(r, ...)).astype(..) -> r ; a.astype -> alpha
        for n in ast.walk(e):
            if isinstance(n, ast.Call):
                t = prog.resolve_callable(f, f.module, n.func)
                if isinstance(t, Func) and t.name.startswith('_normalize_data') and n.args and isinstance(n.args[0], ast.Name):
                    return n.args[0].id
            if isinstance(n, ast.Call) and norm(n.func).split('.')[-1] == 'where':
                return 'alpha'
        return None

    def resolve(e, depth=0):
        s = src(e)
        if s:
            return s
        if depth < 3:
            for n in ast.walk(e):
                if isinstance(n, ast.Name):
                    vals = f.local_assigns().get(n.id, [])
                    if len(vals) == 1 and isinstance(vals[0], ast.AST):
                        r = resolve(vals[0], depth + 1)
                        if r:
                            return r
        return None
    order = [None] * 4
    for lp in [x for x in f.own_nodes() if isinstance(x, ast.For)]:
        # for i, band in enumerate((r, g, b)): out[:, :, i] = normalise(band)
        it = lp.iter
        if isinstance(it, ast.Call) and norm(it.func) == 'enumerate' and it.args and isinstance(it.args[0], (ast.Tuple, ast.List)) \
                and isinstance(lp.target, ast.Tuple) and len(lp.target.elts) == 2:
            iv, bv = [e.id for e in lp.target.elts]
            start = 0
            if len(it.args) > 1:
                try:
                    start = ast.literal_eval(it.args[1])
                except Exception:
                    start = 0
            for st in lp.body:
                if isinstance(st, ast.Assign) and isinstance(st.targets[0], ast.Subscript) and isinstance(st.targets[0].slice, ast.Tuple) \
                        and norm(st.targets[0].slice.elts[-1]) == iv:
                    for kx, el in enumerate(it.args[0].elts):
                        if kx + start < 4 and isinstance(el, ast.Name):
                            import copy
                            sub = copy.deepcopy(st.value)
                            for nn in ast.walk(sub):
                                if isinstance(nn, ast.Name) and nn.id == bv:
                                    nn.id = el.id
                            order[kx + start] = resolve(sub)
    for n in f.own_nodes():
        if isinstance(n, ast.Assign) and isinstance(n.targets[0], ast.Subscript) and isinstance(n.targets[0].slice, ast.Tuple):
            elts = n.targets[0].slice.elts
            if len(elts) == 3 and isinstance(elts[2], ast.Constant) and isinstance(elts[2].value, int) and 0 <= elts[2].value < 4:
                order[elts[2].value] = resolve(n.value)
        if isinstance(n, ast.Call) and norm(n.func).split('.')[-1] == 'stack' and n.args and isinstance(n.args[0], (ast.List, ast.Tuple)):
            for i, e in enumerate(n.args[0].elts[:4]):
                order[i] = resolve(e)
    return order


from ..sharedrules import check_sentinels      # noqa: E402 (shared with C08)


def check(prog, rep):
    m = prog.module('multispectral')
    for name, (text, ref) in FORMULAS.items():
        pub = m.funcs.get(name)
        if pub is None:
            raise AnalysisIncomplete('public index %s not found' % name)
        from .C01 import find_dispatch
        disp = find_dispatch(prog, pub)
        if disp is None:
            raise AnalysisIncomplete('%s: numpy/dask dispatch not found' % name)
        dfunc, paths = disp
        pmap = delegation_binding(prog, pub, dfunc)
        if pmap is None:
            raise AnalysisIncomplete('%s: cannot bind the parameters of %s to the public parameters' % (name, dfunc.qualname))
        for pth in paths.values():
            pth.param_map = pmap
        kerns = {}
        bands = set()
        for backend in ('numpy', 'dask'):
            kern, arrays = analyse_index(prog, rep, pub, paths[backend], text)
            kerns[backend] = kern
        # glue around the dispatch: bands in as given (cast to float), backend result out as it is
        from ..sharedrules import check_dispatch_passthrough
        check_dispatch_passthrough(prog, rep, 'M8-pass', dfunc if dfunc is not pub else pub, entry=name)
        rep.add('M-sibling', pub, name, 'numpy kernel %s / dask block function %s'
                % (kerns['numpy'].qualname, kerns['dask'].qualname), pub.node.lineno,
                kerns['numpy'] is kerns['dask'], 'both backends must run the same per-cell kernel')
        bandparams = [p for p in pub.params if p.endswith('_agg')]
        scope = paths['numpy'].scope
        # validation moved into a small helper together with the dispatch: read the inlined view
        check_validate(prog, rep, scope if getattr(scope, 'inlined_from', None) is pub else pub, bandparams)
    from ..sharedrules import check_validate_arrays
    check_validate_arrays(prog, rep, 'M6-helper', 'validate_arrays')
    check_true_color(prog, rep)
    check_sentinels(prog, rep, m, list(FORMULAS) + ['true_color'])
    rep.floor('M8-pass', 30)
    rep.floor('M7-sentinel', 11)
    rep.floor('M1', 20)
    rep.floor('M6-helper', 2)
    rep.floor('M2', 20)
    rep.floor('M3', 40)
    rep.floor('M6-validate', 10)
    rep.floor('M5-alpha', 2)
