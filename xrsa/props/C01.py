"""C01 - Dask-backed rasters give the NumPy result for every chunking and scheduler.

Engine C over every public op with a dask entry: H0 the block function is the numpy path's own kernel (or sibling
pipelines agree on their literal constants); H1 halo depth >= kernel footprint per axis (symbolic, from the kernel
abstract interpreter); H2 boundary is NaN / 'none'; H3 map_blocks kernels are per-cell (footprint {(0,0)}, no
whole-block reduction); H4 global statistics are reduced over the whole lazy array outside block functions and no
lazy value flows into an eager sink; H6 result dtype provenance of generators agrees between the paths.
"""
import ast

from ..astutil import calls, const, kw, parent_map, short
from ..backends import backend_paths, reachable
from ..dasksites import NAN_TEXTS, Site, eval_in_scope, kernel_footprint, radius_ok, sites_in, expanded_sites
from ..kai import Arr, interpret
from ..program import AnalysisIncomplete, BackendTable, Ext, Func, Partial, norm
from ..sym import App, Rat, Sym, subst

SAME, PIPE, MODULE = 'same', 'pipe', 'module'
# (module, public function, H0 kind, expected partition primitive)
OPS = [
    ('slope', 'slope', SAME, 'map_overlap'),
    ('aspect', 'aspect', SAME, 'map_overlap'),
    ('curvature', 'curvature', SAME, 'map_overlap'),
    ('hillshade', 'hillshade', SAME, 'map_overlap'),
    ('convolution', 'convolution_2d', SAME, 'map_overlap'),
    ('focal', 'mean', SAME, 'map_overlap'),
    ('focal', 'apply', SAME, 'map_overlap'),
    ('focal', 'focal_stats', SAME, 'map_overlap'),
    ('focal', 'hotspots', PIPE, 'map_overlap'),
    ('classify', 'binary', SAME, 'map_blocks'),
    ('classify', 'reclassify', SAME, 'map_blocks'),
    ('classify', 'equal_interval', MODULE, 'map_blocks'),
    ('multispectral', 'arvi', SAME, 'map_blocks'),
    ('multispectral', 'evi', SAME, 'map_blocks'),
    ('multispectral', 'gci', SAME, 'map_blocks'),
    ('multispectral', 'nbr', SAME, 'map_blocks'),
    ('multispectral', 'nbr2', SAME, 'map_blocks'),
    ('multispectral', 'ndvi', SAME, 'map_blocks'),
    ('multispectral', 'ndmi', SAME, 'map_blocks'),
    ('multispectral', 'savi', SAME, 'map_blocks'),
    ('multispectral', 'sipi', SAME, 'map_blocks'),
    ('multispectral', 'ebbi', SAME, 'map_blocks'),
    ('multispectral', 'true_color', PIPE, 'map_blocks'),
    ('perlin', 'perlin', PIPE, 'map_blocks'),
    ('terrain', 'generate_terrain', PIPE, 'map_blocks'),
]
GPU_HINTS = ('cupy', 'gpu', 'cuda')
REDUCERS = {'nanmin', 'nanmax', 'nanmean', 'nanstd', 'nanvar', 'nansum', 'min', 'max', 'mean', 'std', 'var', 'sum',
            'ptp', 'median', 'nanmedian', 'percentile', 'nanpercentile', 'amin', 'amax', 'argmin', 'argmax'}
EAGER_SINKS = {'range', 'int', 'float', 'bool', 'len', 'arange', 'linspace', 'zeros', 'empty', 'ones', 'full',
               'asarray', 'array', 'list', 'tuple'}


def is_gpu(f):
    return any(h in f.qualname.lower() for h in GPU_HINTS)


def find_dispatch(prog, pub, depth=0, seen=None):
    """(dispatcher function, {backend: Path}) following delegation to helper functions"""
    seen = seen or set()
    if id(pub) in seen or depth > 4:
        return None
    seen.add(id(pub))
    paths = {}
    for p in backend_paths(prog, pub):
        if p.backend in ('numpy', 'dask') and p.backend not in paths:
            paths[p.backend] = p
    if set(paths) == {'numpy', 'dask'}:
        return pub, paths
    for n in pub.own_nodes():
        if isinstance(n, ast.Call):
            t = prog.resolve_callable(pub, pub.module, n.func)
            while isinstance(t, Partial):
                t = t.target
            if isinstance(t, Func) and not is_gpu(t) and t.module.name.startswith('xrspatial') and \
                    t.name not in ('validate_arrays', 'get_dataarray_resolution', 'custom_kernel', 'calc_res'):
                r = find_dispatch(prog, t, depth + 1, seen)
                if r:
                    return r
    return None


def path_target(prog, path):
    """Func the path calls; lambdas `lambda *args: g(*args, module=da)` are unwrapped to (g, extra keywords)."""
    t = path.target
    extra = {}
    while isinstance(t, Partial):
        extra.update(t.keywords)
        t = t.target
    if isinstance(t, Func) and t.is_lambda and isinstance(t.node.body, ast.Call):
        body = t.node.body
        g = prog.resolve_callable(t, t.module, body.func)
        for k in body.keywords:
            if k.arg:
                extra[k.arg] = k.value
        if isinstance(g, Func):
            return g, extra
    return (t if isinstance(t, Func) else None), extra


def dask_reachable(prog, f, backend=None):
    out = []
    for g in reachable(prog, f, 4, backend=backend):
        if is_gpu(g):
            continue
        out.append(g)
    return out


def check_site(prog, rep, entry, site, np_funcs, kind, np_path=None):
    f = site.scope
    text = norm(site.call)[:200]
    kern = site.kernel()
    if kern is None:
        rep.add('H0', f, entry, text, site.call.lineno, None, 'block function could not be resolved')
        return
    if is_gpu(kern):
        return
    # ---- H0
    if kind == SAME:
        ok = any(kern is g for g in np_funcs)
        rep.add('H0', f, entry, 'block function %s' % kern.qualname, site.call.lineno, ok,
                'the function mapped over blocks must be the very function the numpy path runs (numpy path reaches: %s)'
                % sorted({g.qualname for g in np_funcs})[:8])
    from ..dasksites import check_declared_type
    check_declared_type(rep, 'H8', site, entry)
    pb, npos = site.partial_bindings()
    if kind == SAME and any(kern is g for g in np_funcs) and not kern.vararg and not kern.kwarg:
        # ---- H0-bind: the same parameters of the shared kernel receive a value on both paths (one left to its default on
        # the dask path only - a keyword forgotten in map_blocks - silently computes with the default)
        DASK_KW = {'meta', 'dtype', 'chunks', 'name', 'token', 'drop_axis', 'new_axis', 'depth', 'boundary', 'trim', 'align_arrays',
                   'allow_rechunk', 'enforce_ndim', 'concatenate', 'block_id', 'block_info'}
        free = [p_ for p_ in kern.params[npos:] if p_ not in pb]
        dask_bound = set(kern.params[:npos]) | set(pb) | set(free[:len(site.arrays)]) | \
            {k_ for k_ in site.kwargs if k_ not in DASK_KW and k_ in kern.params + kern.kwonly}
        np_bound = None
        for g in np_funcs:
            if g is kern:
                continue
            for c in calls(g.node):
                if c not in g.own_nodes() or any(isinstance(a_, ast.Starred) for a_ in c.args):
                    continue
                from ..dasksites import _keywords as _kw_expand
                ckw = _kw_expand(g, c)          # `**opts` of a local dict(...) spelled out
                if any(k_.arg is None for k_ in c.keywords) and len(ckw) == len([k_ for k_ in c.keywords if k_.arg]):
                    continue                    # a `**` that cannot be spelled out
                t_ = prog.resolve_callable(g, g.module, c.func)
                pre_ = set()
                n0 = 0
                while isinstance(t_, Partial):
                    pre_ |= set(t_.keywords)
                    n0 += len(t_.args)
                    t_ = t_.target
                if t_ is kern:
                    b_ = set(kern.params[:n0 + len(c.args)]) | set(ckw) | pre_
                    np_bound = b_ if np_bound is None else (np_bound & b_)
        if np_bound is None and np_path is not None and np_path.func() is kern and not any(isinstance(a_, ast.Starred) for a_ in np_path.args):
            # the kernel is itself the numpy entry of the dispatch table: bound by the dispatch call
            np_bound = set(kern.params[:len(np_path.args)]) | set(np_path.keywords)
        if np_bound is not None:
            allp = set(kern.params + kern.kwonly)
            only_np = sorted((np_bound - dask_bound) & allp)
            only_da = sorted((dask_bound - np_bound) & allp)
            rep.add('H0-bind', f, entry, 'parameters of %s given a value: numpy path %s, dask path %s' % (
                kern.qualname, sorted(np_bound & allp), sorted(dask_bound & allp)), site.call.lineno, not only_np and not only_da,
                'both paths must hand the shared kernel the same parameters; left to the kernel\'s default on one path only: %s'
                % (only_np + only_da))
    if site.kind == 'map_overlap':
        # ---- H2 boundary
        b = site.kwargs.get('boundary')
        bt = norm(b) if b is not None else None
        from ..astutil import is_nan_expr as _isnan
        okb = bt in NAN_TEXTS or bt in ("'none'", '"none"', 'None') or (b is not None and _isnan(b))
        rep.add('H2', f, entry, 'boundary=%s in %s' % (bt, text[:80]), site.call.lineno, okb,
                "halo cells outside the raster must be NaN (or no external padding): the numpy path sees NaN-"
                "initialised borders / clipped windows there; dask's default 'reflect', 'periodic', 'nearest' or a "
                "number invent neighbours")
        # ---- H2f: a NaN halo needs floating data
        if bt in NAN_TEXTS:
            arr = site.arrays[0]
            okf = FLOATPROV[0].is_float(f, arr)
            rep.add('H2f', f, entry, 'array given to map_overlap(boundary=nan): %s' % norm(arr)[:60], site.call.lineno,
                    okf, 'NaN cannot be stored in an integer halo: the array must be cast to a floating dtype BEFORE '
                    'map_overlap pads it (casting inside the block function is too late - integer rasters get '
                    'INT_MIN/0 borders instead of NaN)')
        # ---- H1 depth vs footprint
        d = site.kwargs.get('depth')
        if d is None:
            rep.add('H1', f, entry, text, site.call.lineno, False, 'map_overlap without depth')
            return
        elts = d.elts if isinstance(d, (ast.Tuple, ast.List)) else [d, d]
        if isinstance(d, ast.Dict):
            try:
                dd = {const(k): v for k, v in zip(d.keys, d.values)}
                elts = [dd[0], dd[1]]
            except Exception:
                rep.add('H1', f, entry, text, site.call.lineno, None, 'depth dict not understood')
                return
        if len(elts) != 2:
            rep.add('H1', f, entry, text, site.call.lineno, None, 'depth is not a pair')
            return
        depth_vals = eval_in_scope(prog, f, elts, pair=not isinstance(d, (ast.Tuple, ast.List, ast.Dict)))
        fp = footprint_of(prog, kern, npos, bound=tuple(pb or ()))
        if fp is None:
            # not derivable - but a reduction over the block itself (`data.min()`, `np.nanmax(data)`, `data[mask].max()`) is
            # decided without a footprint: the block function sees one chunk plus halo, so what it computes from the block as
            # a whole differs from chunk to chunk
            arrp = kern.params[npos] if npos < len(kern.params) else None
            reds = []
            for c_ in calls(kern.node):
                if short(c_) not in REDUCERS or c_ not in kern.own_nodes():
                    continue
                tgt = c_.func.value if isinstance(c_.func, ast.Attribute) and not (
                    isinstance(c_.func.value, ast.Name) and c_.func.value.id in ('np', 'numpy', 'da')) else (c_.args[0] if c_.args else None)
                base = tgt
                whole = True
                while isinstance(base, ast.Subscript):
                    # a boolean-mask selection is still "the block"; an index / slice is a neighbourhood
                    sl = base.slice
                    whole = whole and isinstance(sl, ast.Name)
                    base = base.value
                if isinstance(base, ast.Name) and base.id == arrp and whole and not any(k_.arg == 'axis' for k_ in c_.keywords):
                    reds.append(c_)
            if reds:
                rep.add('H1', f, entry, '%s: %s' % (kern.qualname, norm(reds[0])), reds[0].lineno, False,
                        'a function mapped over chunks must compute every cell from that cell\'s neighbourhood: `%s` reduces over the '
                        'whole block (chunk plus halo), so the result depends on the chunking' % norm(reds[0]))
                return
            rep.add('H1', f, entry, text, site.call.lineno, None, 'footprint of %s not derivable' % kern.qualname)
            return
        lo, hi, data = fp
        # rename kernel parameter symbols to the wrapper's names through the partial bindings
        ren = {}
        for p, a in pb.items():
            if isinstance(a, ast.Name):
                ren[p] = a.id

        def rn(a):
            if isinstance(a, App) and a.name == 'shape' and a.args[0] in ren:
                return Rat.atom(App('shape', [ren[a.args[0]], a.args[1]]))
            if isinstance(a, Sym) and a.name in ren:
                return Rat.sym(ren[a.name])
            return None
        for axis in (0, 1):
            los = [subst(x, rn) for x in lo[axis]]
            his = [subst(x, rn) for x in hi[axis]]
            bad = radius_ok(depth_vals[axis], los, his)
            if bad and ODD_KERNEL_OPS.get(entry.split('[')[0]):
                # the public wrapper validates the kernel to have odd shape (custom_kernel; checked by C09-F6)
                bad = radius_ok(depth_vals[axis], los, his, odd_arrays=set(ren.values()) | set(ren))
            rep.add('H1', f, entry, 'axis %d: depth %s vs footprint of %s [%s, %s]'
                    % (axis, norm(elts[axis]), kern.qualname, _fmt(los, min), _fmt(his, max)), site.call.lineno,
                    not bad, 'the halo on axis %d must cover every cell the kernel reads for one output cell (rows '
                    'with rows, columns with columns): %s' % (axis, '; '.join(bad)[:300]),
                    facts={'depth': repr(depth_vals[axis])})
    else:
        # ---- H3 per-cell kernels
        fp = footprint_of(prog, kern, npos, all_arrays=True, bound=tuple(pb or ()))
        if fp is None:
            rep.add('H3', f, entry, text, site.call.lineno, None, 'kernel %s not interpretable' % kern.qualname)
            return
        lo, hi, data = fp
        offs = set()
        for axis in (0, 1):
            for x in (lo[axis] or []) + (hi[axis] or []):
                offs.add(repr(x))
        ok = offs <= {'0'} and not getattr(fp, 'reducers', None)
        rep.add('H3', f, entry, 'map_blocks(%s): offsets %s reducers %s' % (kern.qualname, sorted(offs), FP_RED.get(id(kern), [])),
                site.call.lineno, offs <= {'0'} and not FP_RED.get(id(kern)),
                'a function mapped over blocks without halo must be per-cell: it may read its arrays only at the '
                'output cell and must not reduce over a block (a per-block min/max/mean differs from the global one)')


ODD_KERNEL_OPS = {'apply': True, 'focal_stats': True}
FLOATPROV = [None]
FP_CACHE = {}
FP_RED = {}


def footprint_of(prog, kern, npos=0, all_arrays=False, bound=()):
    """npos / bound: what functools.partial already supplies (leading positional arguments, keyword names): the block is
    the first parameter left"""
    key = (id(kern), all_arrays, npos, tuple(sorted(bound)))
    if key in FP_CACHE:
        return FP_CACHE[key]
    res = None
    try:
        if kern.jit is None and not _has_loops(kern):
            res = vector_footprint(prog, kern)
        else:
            k0 = unwrap_to_kernel(prog, kern)
            if all_arrays:
                lo = [[], []]
                hi = [[], []]
                reds = []
                from ..kai import interpret
                kk = interpret(prog, k0)
                arrays = [p for p in k0.params if p in kk.arrays] or [k0.params[0]]
                for p in arrays:
                    fp, data, k, c = kernel_footprint(prog, k0, p)
                    for ax in (0, 1):
                        lo[ax] += fp.lo[ax] or []
                        hi[ax] += fp.hi[ax] or []
                    reds += fp.reducers
                FP_RED[id(kern)] = reds
                res = (lo, hi, arrays)
            else:
                free = [p_ for p_ in k0.params[npos:] if p_ not in bound] if k0 is kern else []
                fp, data, k, c = kernel_footprint(prog, k0, free[0] if free else k0.params[0])
                FP_RED[id(kern)] = fp.reducers
                res = ([fp.lo[0] or [], fp.lo[1] or []], [fp.hi[0] or [], fp.hi[1] or []], data)
    except AnalysisIncomplete as e:
        FP_CACHE[key] = None
        FP_CACHE[(id(kern), 'why')] = str(e)
        return None
    FP_CACHE[key] = res
    return res


def _has_loops(f):
    return any(isinstance(n, (ast.For, ast.While)) for n in f.own_nodes())


def unwrap_to_kernel(prog, f):
    """a thin non-jitted wrapper (`_run_numpy_bin`) that converts arguments and calls one jitted kernel"""
    if f.jit is not None or _has_loops(f):
        return f
    inner = []
    for n in f.own_nodes():
        if isinstance(n, ast.Call):
            t = prog.resolve_callable(f, f.module, n.func)
            if isinstance(t, Func) and not is_gpu(t):
                inner.append(t)
    if len(inner) == 1:
        return unwrap_to_kernel(prog, inner[0])
    return f


def vector_footprint(prog, f):
    """vectorised NumPy block functions: np.gradient -> radius 1; elementwise otherwise (library model)"""
    has_grad = any(short(c) == 'gradient' for c in calls(f.node))
    nonelem = [short(c) for c in calls(f.node) if short(c) in REDUCERS | {'roll', 'convolve', 'cumsum', 'diff', 'pad'}]
    if nonelem:
        raise AnalysisIncomplete('%s: non-elementwise calls %s' % (f.qualname, nonelem))
    r = Rat.const(1 if has_grad else 0)
    FP_RED[id(f)] = []
    return ([[-r], [-r]], [[r], [r]], f.params[0])


def _fmt(xs, fn):
    try:
        vals = [x.const_value() for x in xs]
        return str(fn(vals))
    except Exception:
        return ','.join(sorted({repr(x) for x in xs}))[:60]


# ------------------------------------------------------------------------------------------- H4
def lazy_taint(prog, f, dask_only=True, module_param=None):
    """H4: names holding lazy reductions of the (dask) data in a dask-path function and the eager sinks they reach.
    Returns (reductions found, violations [(node, text)])."""
    lazy = set()
    reds = []
    viol = []
    pm = parent_map(f.node)

    def under_non_dask_branch(n):
        # statements under `if module == da: ... else: <here>` or `if module == np/cupy: <here>`
        p = pm.get(n)
        child = n
        while p is not None:
            if isinstance(p, ast.If) and module_param:
                tn = p.test
                inbody = child in p.body
                for _ in range(4):
                    while isinstance(tn, ast.UnaryOp) and isinstance(tn.op, ast.Not):
                        tn, inbody = tn.operand, not inbody       # `if not module == da: A else: B` reads as `if module == da: B else: A`
                    if isinstance(tn, ast.Name):
                        # the test held in a local (`is_dask = module == da`), assigned once
                        vs_ = [v_ for v_ in f.local_assigns().get(tn.id, []) if isinstance(v_, ast.AST)]
                        if len(vs_) == 1 and len(f.local_assigns().get(tn.id, [])) == 1 and isinstance(vs_[0], (ast.Compare, ast.UnaryOp)):
                            tn = vs_[0]
                            continue
                    break
                if isinstance(tn, ast.Compare) and len(tn.ops) == 1 and isinstance(tn.ops[0], (ast.Eq, ast.NotEq, ast.Is, ast.IsNot)) and \
                        norm(tn.comparators[0]) == module_param and norm(tn.left) != module_param:
                    tn = ast.Compare(left=tn.comparators[0], ops=tn.ops, comparators=[tn.left])      # `da == module`
                t = norm(tn)
                if t.startswith('%s != ' % module_param):
                    t, inbody = t.replace(' != ', ' == ', 1), not inbody
                if t in ('%s == da' % module_param, '%s is da' % module_param):
                    if not inbody:
                        return True
                elif t.startswith('%s == ' % module_param) or t.startswith('%s is ' % module_param):
                    if inbody:
                        return True
            child = p
            p = pm.get(p)
        return False

    def mentions_lazy(e):
        # the shape/dtype/chunks of a lazy array are known without computing it
        if isinstance(e, ast.Attribute) and e.attr in ('shape', 'dtype', 'ndim', 'chunks', 'size', 'chunksize'):
            return False
        if isinstance(e, ast.Name):
            return e.id in lazy
        return any(mentions_lazy(c) for c in ast.iter_child_nodes(e))

    for n in f.node.body and list(ast.walk(f.node)):
        pass
    # forward pass in source order
    stmts = sorted([n for n in f.own_nodes() if isinstance(n, ast.stmt)], key=lambda n: (n.lineno, n.col_offset))
    for s in stmts:
        if under_non_dask_branch(s):
            continue
        if isinstance(s, ast.Assign) and len(s.targets) == 1 and isinstance(s.targets[0], ast.Name):
            v = s.value
            name = s.targets[0].id
            is_red = isinstance(v, ast.Call) and short(v) in REDUCERS and v.args and not (
                isinstance(v.func, ast.Name))
            has_red = any(isinstance(x, ast.Call) and short(x) in REDUCERS and x.args and
                          isinstance(x.func, ast.Attribute) and norm(x.func.value) in ('da', 'np', 'numpy', 'dask.array',
                                                                                       module_param or 'da')
                          for x in ast.walk(v))
            if is_red or has_red:
                lazy.add(name)
                # one site per reduction (two reductions named separately or written in one expression count alike)
                rc_ = [x for x in ast.walk(v) if isinstance(x, ast.Call) and short(x) in REDUCERS and x.args and isinstance(x.func, ast.Attribute) and
                       norm(x.func.value) in ('da', 'np', 'numpy', 'dask.array', module_param or 'da')]
                reds.extend(rc_ or [s])
            elif mentions_lazy(v) and not (isinstance(v, ast.Call) and short(v) in ('compute',)):
                lazy.add(name)
        elif isinstance(s, ast.Return) and s.value is not None:
            # a reduction used directly in the returned expression is still a (lazy) global reduction site
            rc_ = [x for x in ast.walk(s.value) if isinstance(x, ast.Call) and short(x) in REDUCERS and x.args and isinstance(x.func, ast.Attribute) and
                   norm(x.func.value) in ('da', 'np', 'numpy', 'dask.array', module_param or 'da')]
            reds.extend(rc_)
        # sinks
        for c in [x for x in ast.walk(s) if isinstance(x, ast.Call)]:
            if pm.get(c) is not None and under_non_dask_branch(c):
                continue
            nm = short(c)
            if nm in ('compute', 'persist') and isinstance(c.func, ast.Attribute):
                viol.append((c, 'eager %s() on the dask path' % nm))
            elif nm in EAGER_SINKS and any(mentions_lazy(a) for a in c.args):
                if nm in ('asarray', 'array', 'list', 'tuple') and not isinstance(c.func, ast.Name) and \
                        norm(c.func).startswith('da.'):
                    continue
                viol.append((c, 'lazy reduction result flows into `%s(...)`, which needs a concrete number' % nm))
        if isinstance(s, (ast.If, ast.While)) and mentions_lazy(s.test) and not under_non_dask_branch(s):
            viol.append((s.test, 'branching on a lazy reduction result forces computation (or fails)'))
    return reds, viol


def check_H4(prog, rep, entry, f_da, extra, np_funcs):
    module_param = None
    for k, v in extra.items():
        if isinstance(v, ast.Name) and v.id == 'da':
            module_param = k
    seen = 0
    # a function shared by the backends through a `module` parameter is read with the helpers it hands that parameter on to
    # inlined: their `module == da` tests are then decided like its own
    handed_on = set()
    from ..inline import inline_view
    if module_param is not None:
        for c_ in calls(f_da.node):
            if any(isinstance(a_, ast.Name) and a_.id == module_param for a_ in list(c_.args) + [k_.value for k_ in c_.keywords]):
                t_ = prog.resolve_callable(f_da, f_da.module, c_.func)
                if isinstance(t_, Func):
                    handed_on.add(id(t_))
    for g in dask_reachable(prog, f_da, 'dask'):
        if g.jit is not None or id(g) in handed_on:
            continue
        only_dask = not any(g is h for h in np_funcs) or module_param is not None
        if not only_dask:
            continue
        gv = g
        if g is f_da:
            # helpers shared with the numpy path (or handed the module parameter) are read in place: a global reduction moved
            # into a helper common to both backends is still a reduction of the lazy array outside any block function
            shared = tuple(h.name for h in dask_reachable(prog, f_da, 'dask') if h is not f_da and h.jit is None and
                           not any(h is x for x in np_funcs) and id(h) not in handed_on)
            gv = inline_view(prog, g, keep=shared, allow_loops=True)
        reds, viol = lazy_taint(prog, gv, module_param=module_param if g is f_da else None)
        for s in reds:
            seen += 1
            rep.add('H4', g, entry, norm(s)[:160], s.lineno, True,
                    'global statistic reduced over the whole lazy array outside any block function')
        for node, why in viol:
            rep.add('H4', g, entry, norm(node)[:160], node.lineno, False,
                    'the dask path must stay lazy: ' + why)
    return seen


# ------------------------------------------------------------------------------------------- H0 pipelines
def magic_numbers(funcs):
    """set of folded numeric literals (other than 0, 1, -1, 2) used by the bodies of funcs"""
    out = set()
    for f in funcs:
        for s in f.body:
            for n in ast.walk(s):
                if isinstance(n, (ast.FunctionDef, ast.Lambda)):
                    continue
                v = _fold(n)
                if v is not None:
                    # only maximal constant expressions
                    out.add(round(float(v), 12))
    return {v for v in out if v not in (0.0, 1.0, -1.0, 2.0)}


def _fold(n):
    if isinstance(n, ast.Constant) and isinstance(n.value, (int, float)) and not isinstance(n.value, bool):
        return n.value
    if isinstance(n, ast.BinOp):
        a, b = _fold(n.left), _fold(n.right)
        if a is None or b is None:
            return None
        try:
            if isinstance(n.op, ast.Add):
                return a + b
            if isinstance(n.op, ast.Sub):
                return a - b
            if isinstance(n.op, ast.Mult):
                return a * b
            if isinstance(n.op, ast.Div):
                return a / b
            if isinstance(n.op, ast.Pow) and abs(b) < 64:
                return a ** b
        except Exception:
            return None
    if isinstance(n, ast.UnaryOp) and isinstance(n.op, ast.USub):
        a = _fold(n.operand)
        return -a if a is not None else None
    return None


def maximal_constants(funcs):
    out = set()
    for f in funcs:
        consumed = set()
        nodes = []
        for s in f.body:
            nodes += list(ast.walk(s))
        # index positions and allocation shapes are layout, not pipeline constants
        for n in nodes:
            if isinstance(n, ast.Subscript):
                elts = n.slice.elts if isinstance(n.slice, ast.Tuple) else [n.slice]
                for el in elts:
                    if _fold(el) is not None or isinstance(el, ast.Slice):
                        for c in ast.walk(el):
                            consumed.add(id(c))
            if isinstance(n, ast.Call) and short(n) in ('zeros', 'empty', 'ones', 'full', 'stack', 'concatenate', 'array'):
                for a in list(n.args[:1]) + [k.value for k in n.keywords if k.arg in ('axis', 'shape')]:
                    for c in ast.walk(a):
                        consumed.add(id(c))
        for n in nodes:
            if id(n) in consumed:
                continue
            v = _fold(n)
            if v is not None and isinstance(n, (ast.BinOp, ast.Constant, ast.UnaryOp)):
                for c in ast.walk(n):
                    consumed.add(id(c))
                out.add(round(float(v), 12))
    return {v for v in out if v not in (0.0, 1.0, -1.0, 2.0)}


def check_pipe(prog, rep, entry, f_np, f_da):
    np_only = [g for g in dask_reachable(prog, f_np, 'numpy')]
    da_only = [g for g in dask_reachable(prog, f_da, 'dask')]
    shared = {id(g) for g in np_only} & {id(g) for g in da_only}
    a = maximal_constants([g for g in np_only if id(g) not in shared])
    b = maximal_constants([g for g in da_only if id(g) not in shared])
    rep.add('H0-const', f_da, entry, 'literal constants numpy-only %s / dask-only %s' % (sorted(a - b), sorted(b - a)),
            f_da.node.lineno, a == b,
            'sibling pipelines (numpy vs dask path) must use the same literal constants (octave counts, thresholds, '
            'divisors, table sizes): the two paths are separate code and only agree if their constants do')
    # shared kernels: the functions mapped over blocks on the dask path must be used by the numpy path too
    for g in da_only:
        for site in expanded_sites(prog, g):
            kern = site.kernel()
            if kern is None or is_gpu(kern):
                continue
            rep.add('H0', g, entry, 'block function %s' % kern.qualname, site.call.lineno,
                    any(kern is h for h in np_only),
                    'the per-block kernel of the dask pipeline must be the kernel the numpy pipeline calls')


def check_pipe_args(prog, rep, entry, pub, f_np, f_da, scalars_only=False):
    """H0-args (sibling pipelines): the arguments that reach a kernel shared by the numpy and the dask pipeline are the same
    terms over the public parameters on both paths - up to the dask wrappers and the np / da namespaces.  The wrapper terms
    are taken from the public function with the dispatch followed into either backend."""
    from ..wterm import WT, key as tkey, show as tshow, unwrap_dask
    np_only = dask_reachable(prog, f_np, 'numpy')
    da_only = dask_reachable(prog, f_da, 'dask')
    # the kernels of the dask pipeline's map_blocks / map_overlap sites that the numpy pipeline calls too
    shared = []
    for g in da_only:
        if g.jit is not None:
            continue
        for site in expanded_sites(prog, g):
            kern = site.kernel()
            if kern is not None and not is_gpu(kern) and any(kern is h for h in np_only) and not any(kern is h for h in shared):
                shared.append(kern)
    if not shared:
        return

    def norm_ns(t):
        if isinstance(t, tuple):
            if len(t) >= 2 and t[0] == 'call' and isinstance(t[1], str) and t[1].startswith('dask.array.'):
                t = ('call', 'numpy.' + t[1][len('dask.array.'):]) + tuple(t[2:])
            if len(t) == 2 and t[0] == 'global' and isinstance(t[1], str) and t[1].startswith('da.'):
                t = ('global', 'np.' + t[1][3:])
            if len(t) == 3 and t[0] == 'attr' and t[2] == 'shape':
                b_ = t[1]
                while isinstance(b_, tuple) and b_ and b_[0] == 'cast':
                    b_ = b_[1]          # a dtype conversion keeps the shape
                t = ('attr', b_, 'shape')
            return tuple(norm_ns(x) for x in t)
        return t

    def plain(t):
        # arithmetic atoms carry their term as text: compare printed forms with the namespaces mapped
        return tshow(norm_ns(unwrap_dask(t)), 100000).replace('dask.array.', 'numpy.').replace("'da.", "'np.")
    got = {}
    scalar_params = {}
    for be in ('numpy', 'dask'):
        w = WT(prog, depth=6, backend=be, keep=shared)
        w.noserial = True
        try:
            w.run(pub)
        except Exception:      # noqa - the glue of a generator is outside what the term evaluator models
            return
        args = {}
        partials = {}
        def by_param(g, pos, kws):
            # arguments by the kernel's parameter names: positional or keyword makes no difference
            b_ = dict(zip(g.params, pos))
            b_.update({k_: v_ for k_, v_ in kws.items() if k_ in g.params + g.kwonly})
            return tuple(sorted((k_, plain(v_)) for k_, v_ in b_.items()))
        DASK_KW = {'meta', 'dtype', 'chunks', 'name', 'token', 'drop_axis', 'new_axis', 'depth', 'boundary', 'trim', 'align_arrays'}
        for c in w.calls:
            if any(c.callee is g for g in shared):
                args.setdefault(c.callee.qualname, []).append(by_param(c.callee, c.args, c.kwargs))
            nm = str(c.name)
            if nm.endswith('partial') and c.args and c.args[0][0] == 'global':
                partials[tkey(c.result)] = (c.args[0][1], c.args[1:], dict(c.kwargs))
            meth = isinstance(c.callee, tuple) and len(c.callee) == 3 and c.callee[0] == 'method' and c.callee[2] in ('map_blocks', 'map_overlap')
            if (nm.endswith(('map_blocks', 'map_overlap')) or meth) and c.args:
                fn = c.args[0]
                extra, pkw = (), {}
                if tkey(fn) in partials:
                    fn, extra, pkw = ('global', partials[tkey(fn)][0]), tuple(partials[tkey(fn)][1]), partials[tkey(fn)][2]
                if fn[0] in ('global', 'localfunc'):
                    g = next((h for h in shared if h.name == fn[1] or h.qualname == fn[1]), None)
                    if g is not None:
                        kws_ = dict(pkw)
                        kws_.update({k_: v_ for k_, v_ in c.kwargs.items() if k_ not in DASK_KW})
                        args.setdefault(g.qualname, []).append(by_param(g, extra + ((c.callee[1],) if meth else ()) + tuple(c.args[1:]), kws_))
                        if be == 'dask':
                            scalar_params.setdefault(g.qualname, set()).update(k_ for k_ in kws_ if k_ in g.params + g.kwonly)
        got[be] = args
    for q in sorted(set(got['numpy']) & set(got['dask'])):
        a, b = sorted(set(got['numpy'][q])), sorted(set(got['dask'][q]))
        if scalars_only:
            # only the parameters the dask path binds by keyword (partial / map_blocks keywords): the scalars that go with the
            # raster - cell sizes, weights, thresholds.  The raster arguments legitimately differ (casts, halos).
            keep_ = scalar_params.get(q, set())
            if not keep_:
                continue
            a = sorted({tuple(x for x in t_ if x[0] in keep_) for t_ in a})
            b = sorted({tuple(x for x in t_ if x[0] in keep_) for t_ in b})
            if not all(a) or not all(b):
                continue
        ok = a == b
        diff = ''
        if not ok:
            for x, y in zip(a, b):
                for (pu, u), (pv, v) in zip(x, y):
                    if u != v or pu != pv:
                        k_ = next((n_ for n_ in range(min(len(u), len(v))) if u[n_] != v[n_]), 0)
                        diff = 'parameter %s differs: numpy ...%s... / dask ...%s...' % (pu, u[max(0, k_ - 60):k_ + 60], v[max(0, k_ - 60):k_ + 60])
                        break
                if diff:
                    break
        rep.add('H0-args' if not scalars_only else 'H0-scalars', f_da, entry, '%s of the shared kernel %s on the numpy and the dask pipeline' % ('arguments' if not scalars_only else 'scalar arguments %s' % sorted(scalar_params.get(q, [])), q), f_da.node.lineno, ok,
                'sibling pipelines must hand their shared kernel the same quantities (coordinate grids, ranges, permutation tables) '
                'in the same roles; ' + diff)


# ------------------------------------------------------------------------------------------- H6 generators
def dtype_provenance(prog, f, lazy=False):
    """tiny flow-sensitive dtype provenance for generator paths: name -> 'IN' | 'FLOAT' | None.
    Returns (violations, returned provenance)."""
    env = {p: 'IN' for p in f.params[:1]}
    viol = []
    ret = None

    def prov(e):
        if isinstance(e, ast.Name):
            return env.get(e.id)
        if isinstance(e, ast.Call):
            nm = short(e)
            if nm == 'astype':
                t = norm(e.args[0]) if e.args else ''
                if 'float' in t or t in ("'f4'", "'f8'") or 'result_type' in t:
                    return 'FLOAT'
                return prov(e.func.value) if isinstance(e.func, ast.Attribute) else None
            if nm in ('zeros_like', 'empty_like', 'ones_like', 'full_like', 'copy'):
                if any(k.arg == 'dtype' for k in e.keywords):
                    return 'FLOAT' if 'float' in norm(kw(e, 'dtype')) else None
                a = e.args[0] if e.args else (e.func.value if isinstance(e.func, ast.Attribute) else None)
                return prov(a) if a is not None else None
            t = prog.resolve_callable(f, f.module, e.func)
            if isinstance(t, Func):
                return 'FLOAT'     # package helpers (_perlin, _gen_terrain, map_blocks results) produce floats
            if nm in ('map_blocks', 'linspace', 'meshgrid', 'sqrt', 'sin', 'cos'):
                return 'FLOAT'
            if nm in ('where', 'maximum', 'minimum', 'clip', 'abs', 'absolute', 'nan_to_num') and isinstance(t, Ext) and \
                    t.dotted.startswith(('numpy.', 'dask.array.')):
                # element-wise selections: the result type is the promotion of the value operands (a Python int promotes
                # nothing, a Python float makes the result floating)
                vals = e.args[1:] if nm == 'where' else e.args
                ps = []
                for a in vals:
                    if isinstance(a, ast.Constant) and isinstance(a.value, (int, float)) and not isinstance(a.value, bool):
                        ps.append('FLOAT' if isinstance(a.value, float) else 'NEUTRAL')
                    else:
                        ps.append(prov(a))
                if 'FLOAT' in ps:
                    return 'FLOAT'
                if None in ps or not [x for x in ps if x != 'NEUTRAL']:
                    return None
                return 'IN'
            return None
        if isinstance(e, ast.BinOp):
            a, b = prov(e.left), prov(e.right)
            if isinstance(e.op, ast.Div):
                return 'FLOAT'
            if 'FLOAT' in (a, b):
                return 'FLOAT'
            if 'IN' in (a, b):
                return 'IN'
            return None
        if isinstance(e, ast.Subscript):
            return prov(e.value)
        return None

    for s in f.node.body:
        for n in [s] if not isinstance(s, (ast.For, ast.If, ast.While)) else list(ast.walk(s)):
            if isinstance(n, ast.Assign) and len(n.targets) == 1:
                t = n.targets[0]
                if isinstance(t, ast.Name):
                    env[t.id] = prov(n.value)
                elif isinstance(t, ast.Subscript) and isinstance(t.value, ast.Name):
                    if env.get(t.value.id) == 'IN' and prov(n.value) == 'FLOAT':
                        viol.append((n, 'float values are stored into `%s`, an array that still has the template '
                                        'raster\'s own dtype (an integer template truncates them)' % t.value.id))
            elif isinstance(n, ast.AugAssign) and isinstance(n.target, ast.Name) and lazy:
                # dask arrays are immutable: `x += y` rebinds x to a new, promoted array
                if prov(n.value) == 'FLOAT' or isinstance(n.op, ast.Div):
                    env[n.target.id] = 'FLOAT'
            elif isinstance(n, ast.AugAssign) and isinstance(n.target, ast.Name):
                if env.get(n.target.id) == 'IN' and prov(n.value) == 'FLOAT':
                    viol.append((n, 'in-place update of `%s` (template dtype) with float values' % n.target.id))
            elif isinstance(n, ast.Return) and n.value is not None:
                ret = prov(n.value)
    return viol, ret


def check_H6(prog, rep, entry, f_np, f_da):
    res = {}
    for label, f in (('numpy', f_np), ('dask', f_da)):
        viol, ret = dtype_provenance(prog, f, lazy=(label == 'dask'))
        res[label] = ret
        for n, why in viol:
            rep.add('H6', f, entry, norm(n)[:160], n.lineno, False,
                    'the %s path of a generator must not work in the template raster\'s dtype: %s' % (label, why))
    rep.add('H6', f_da, entry, 'result dtype provenance numpy=%s dask=%s' % (res['numpy'], res['dask']),
            f_da.node.lineno, res['numpy'] == res['dask'] == 'FLOAT',
            'both paths of a generator must return a floating array independent of the template\'s dtype')


# ------------------------------------------------------------------------------------------- driver
def check_H7(prog, rep, entry, pub, sites, np_funcs, da_funcs):
    """H7 - working precision.  When the kernel shared by both paths allocates its result like its input (`zeros_like(data)`
    without a dtype), the result's dtype and precision follow whatever the path hands it: a narrowing cast of the raster on
    the dask-only part of the path (`data.astype(np.float32)` before map_overlap) that the numpy-only part does not make
    gives float32 results on dask and float64 on numpy."""
    NARROW = ('np.float32', "'f4'", "'float32'", 'numpy.float32', 'np.float16', "'f2'")
    for s_ in sites:
        kern = s_.kernel()
        if kern is None or kern.jit is None or not any(kern is h for h in np_funcs):
            continue
        try:
            k = interpret(prog, kern, strict=False)
        except AnalysisIncomplete:
            continue
        outs = [v for v, g in k.returns if isinstance(v, Arr)]
        follows = [o for o in outs if isinstance(o.dtype, tuple) and o.dtype and o.dtype[0] == 'like' and o.dtype[1] in kern.params and
                   getattr(o.like, 'cast_of', None) is None and getattr(o.like, 'init', None) == 'param']      # not like a cast of it
        if not follows:
            continue

        def narrowing(funcs):
            out = []
            for g in funcs:
                if g.jit is not None or g.is_lambda:
                    continue
                for n in g.own_nodes():
                    if isinstance(n, ast.Call) and isinstance(n.func, ast.Attribute) and n.func.attr == 'astype' and n.args and norm(n.args[0]) in NARROW:
                        out.append((g, n))
            return out
        da_only = narrowing([g for g in da_funcs if not any(g is h for h in np_funcs)])
        np_only = narrowing([g for g in np_funcs if not any(g is h for h in da_funcs)])
        bad = da_only if not np_only else []
        rep.add('H7', pub, entry, 'result of %s follows its input\'s dtype; narrowing casts: numpy path %d, dask path %d' % (
            kern.qualname, len(np_only), len(da_only)), (bad[0][1].lineno if bad else pub.node.lineno), not bad,
            'the kernel allocates its result like its input, so both paths must hand it the raster in the same precision: %s narrows '
            'it on the dask path only' % (norm(bad[0][1])[:80] if bad else ''))


def check(prog, rep):
    from ..sharedrules import FloatProv, check_validate_arrays
    FLOATPROV[0] = FloatProv(prog)
    check_validate_arrays(prog, rep, 'H5', 'multi-raster ops')
    nsites = 0
    nred = 0
    for modname, fname, kind, prim in OPS:
        m = prog.modules.get('xrspatial.' + modname)
        pub = m.funcs.get(fname) if m else None
        if pub is None:
            raise AnalysisIncomplete('public op %s.%s not found' % (modname, fname))
        entry = '%s[dask]' % fname
        from ..sharedrules import check_value_truthiness
        check_value_truthiness(prog, rep, 'H0-truth', pub, entry)
        disp = find_dispatch(prog, pub)
        if disp is None:
            raise AnalysisIncomplete('%s: backend dispatch (numpy + dask) not found' % fname)
        dfunc, paths = disp
        f_np, ex_np = path_target(prog, paths['numpy'])
        f_da, ex_da = path_target(prog, paths['dask'])
        if f_np is None or f_da is None:
            raise AnalysisIncomplete('%s: backend path functions unresolved' % fname)
        np_funcs = dask_reachable(prog, f_np, 'numpy')
        da_funcs = dask_reachable(prog, f_da, 'dask')
        sites = []
        for g in da_funcs:
            if g.jit is not None:
                continue
            # functions shared with the numpy path cannot contain the partitioning (except module-parametrised)
            sites += expanded_sites(prog, g)
        sites = [s for s in sites if s.kernel() is None or not is_gpu(s.kernel())]
        sites = [s for s in sites if not is_gpu(s.scope)]
        prims = {s.kind for s in sites}
        rep.add('H-site', pub, entry, 'dask path %s partitions with %s (%d sites)' % (f_da.qualname, sorted(prims), len(sites)),
                pub.node.lineno, prim in prims,
                'expected the dask path to evaluate the raster with %s' % prim)
        for s in sites:
            nsites += 1
            check_site(prog, rep, entry, s, np_funcs, SAME if kind == SAME else kind, np_path=paths['numpy'])
        nred += check_H4(prog, rep, entry, f_da, ex_da, np_funcs)
        if kind == PIPE:
            check_pipe(prog, rep, entry, f_np, f_da)
            if fname not in ('perlin', 'generate_terrain'):
                check_pipe_args(prog, rep, entry, pub, f_np, f_da, scalars_only=True)
            if fname in ('perlin', 'generate_terrain'):
                # generators build their inputs (coordinate grids, permutation tables) from scalars on either path: those
                # must be the same terms; pipelines that transform a raster legitimately differ between the backends
                check_pipe_args(prog, rep, entry, pub, f_np, f_da)
        if kind == SAME:
            check_pipe_args(prog, rep, entry, pub, f_np, f_da, scalars_only=True)
        if kind == MODULE:
            if f_np is f_da:
                rep.add('H0', pub, entry, 'numpy path %s / dask path %s' % (f_np.qualname, f_da.qualname), pub.node.lineno, True,
                        'module-parametrised op: both paths run the same function')
            else:
                # the two backends written as two functions (the branches of the shared one split apart): a pipeline like
                # the others - the constants of the two must agree
                check_pipe(prog, rep, entry, f_np, f_da)
        if fname in ('perlin', 'generate_terrain'):
            check_H6(prog, rep, entry, f_np, f_da)
        check_H7(prog, rep, entry, pub, sites, np_funcs, da_funcs)
    rep.coverage_extra['partition_sites'] = nsites
    rep.coverage_extra['global_reductions'] = nred
    rep.floor('H7', 1)
    rep.floor('H0-scalars', 5)
    rep.floor('H-site', 25)
    rep.floor('H1', 16)
    rep.floor('H2', 8)
    rep.floor('H2f', 8)
    rep.floor('H5', 2)
    rep.floor('H3', 12)
    rep.floor('H0', 20)
    rep.floor('H4', 8)
    rep.floor('H6', 2)
