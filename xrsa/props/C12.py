"""C12 - classifiers label every finite cell, in order, within [0, k-1]  (partial).

Decided: K1 non-finite cells get NaN (finite test dominates every class assignment, NaN-initialised output, NaN above
the last bin); K2 the label vector handed to the binning kernel is np.arange(n) (ascending from 0: order-preserving,
non-negative); K3 precision provenance of the break vector (no allocation narrower than float64 on the way to the
binning kernel; last break forced to the exact maximum on every path); K4 equal-width cuts, percentile levels and the
binary membership rule have the documented form.  Declined: correctness of the hand-written binary search for every bin
count and optimality of the Jenks dynamic programme (loop invariants / global optimum).
"""
import ast
import re

from ..astutil import calls, const, kw, parent_map, short
from ..kai import interpret, flatten_and, cond_repr, cond_key, cmp_cond
from ..kutil import Spec, approx_equal, show
from ..program import AnalysisIncomplete, Func, Partial, norm
from ..sym import App, Rat, Sym, walk_atoms


def enclosing_ifs(pm, node):
    out = []
    n = pm.get(node)
    child = node
    while n is not None:
        if isinstance(n, ast.If):
            out.append((n, child in n.body or any(child in list(ast.walk(b)) for b in n.body)))
        child = n
        n = pm.get(n)
    return out


def kernel_roles(f):
    """(raster, other array parameters in signature order) of a per-cell kernel: the raster is the parameter read with
    two indices / asked for its shape; names and positions do not matter"""
    def is_shape(e, p):
        return isinstance(e, ast.Attribute) and e.attr == 'shape' and isinstance(e.value, ast.Name) and e.value.id == p

    def two_d(p):
        # read with two indices; or its shape used as a pair (unpacked into two names, its second extent asked for).  `v.shape[0]`
        # alone is the length of a vector just as well.
        for x in ast.walk(f.node):
            if isinstance(x, ast.Subscript) and isinstance(x.value, ast.Name) and x.value.id == p and isinstance(x.slice, ast.Tuple) and \
                    len(x.slice.elts) == 2:
                return True
            if isinstance(x, ast.Assign) and isinstance(x.targets[0], ast.Tuple) and len(x.targets[0].elts) == 2 and is_shape(x.value, p):
                return True
            if isinstance(x, ast.Subscript) and is_shape(x.value, p) and isinstance(x.slice, ast.Constant) and x.slice.value in (1, -1, -2):
                return True
        return False
    ras = [p for p in f.params if two_d(p)]
    if len(ras) != 1:
        # fall back: any use of `.shape` (the kernel never indexes it with two subscripts: a helper does)
        ras2 = [p for p in f.params if any(is_shape(x, p) for x in ast.walk(f.node))]
        ras = ras2 if len(ras2) == 1 else ras
    if len(ras) != 1:
        raise AnalysisIncomplete('%s: raster parameter not identified (%s)' % (f.qualname, ras))
    return ras[0], [p for p in f.params if p != ras[0]]


def check_cpu_bin(prog, rep, m):
    f = m.funcs.get('_cpu_bin')
    if f is None:
        raise AnalysisIncomplete('_cpu_bin not found')
    entry = 'reclassify/_bin'
    pm = parent_map(f.node)
    data, others = kernel_roles(f)
    # of the two 1-D parameters the labels are the one whose element is stored into the output, the breaks the other
    stored = {x.value.value.id for x in ast.walk(f.node) if isinstance(x, ast.Assign) and isinstance(x.targets[0], ast.Subscript) and
              isinstance(x.value, ast.Subscript) and isinstance(x.value.value, ast.Name) and x.value.value.id in others}
    if len(others) != 2 or len(stored) != 1:
        raise AnalysisIncomplete('_cpu_bin: break / label parameters not identified (%s, stored %s)' % (others, sorted(stored)))
    newv = next(iter(stored))
    bins = [p for p in others if p != newv][0]
    # output NaN initialised
    k = interpret(prog, f)
    rets = [v for v, g in k.returns]
    out = rets[0] if rets else None
    rep.add('K1', f, entry, 'output initialised %r' % getattr(out, 'init', None), f.node.lineno,
            getattr(out, 'init', None) == 'nan', 'cells that get no class must be NaN: NaN-initialised output')
    # the per-cell decision, on the interpreted kernel: which label (if any) a cell receives for every ordering of its
    # value against the first and the last break, finite or not.  The binary-search result is one opaque quantity.
    from fractions import Fraction
    from ..kutil import CannotEvaluate, eval_cond_full, evaluate, guard_atoms
    from ..sym import Sym
    cell_stores = [st for st in k.stores if st.arr is out and not isinstance(st.idx, str) and len(st.idx) == 2 and len(st.loops) == 2]
    if not cell_stores:
        rep.add('K1', f, entry, 'per-cell class store', f.node.lineno, None, 'no per-cell store found')
        return
    Y, X = cell_stores[0].idx
    val = App('read', [data, Y, X])
    atoms = set()
    for st in cell_stores:
        atoms |= guard_atoms(st.guards) | (walk_atoms(st.value) if isinstance(st.value, Rat) else set())
    fin = [a for a in atoms if isinstance(a, App) and a.name == 'isfinite' and a.args[0] == Rat.atom(val)]
    b0 = [a for a in atoms if isinstance(a, App) and a.name == 'read' and a.args[0] == bins and len(a.args) == 2 and a.args[1] == Rat.const(0)]
    bl = [a for a in atoms if isinstance(a, App) and a.name == 'read' and a.args[0] == bins and len(a.args) == 2 and a.args[1] != Rat.const(0)]
    search = [a for a in atoms if isinstance(a, Sym) and ('~wout' in a.name or '~w' in a.name)]
    lab = [a for a in atoms if isinstance(a, App) and a.name == 'read' and a.args[0] == newv and len(a.args) == 2]
    nb = [a for a in atoms if isinstance(a, App) and a.name in ('len', 'shape')]
    if len(fin) != 1 or len(b0) != 1 or len(bl) != 1 or len(lab) < 1 or len(search) != 1:
        rep.add('K1', f, entry, 'per-cell class decision', f.node.lineno, None if fin else False,
                'expected one finite test, first/last break reads, one search result and one label read (finite tests %d, first %d, '
                'last %d, labels %d, search results %d): without a finite test NaN/inf cells receive a class' % (
                    len(fin), len(b0), len(bl), len(lab), len(search)))
        return
    # the last break read is bins[len(bins) - 1]
    last_idx = bl[0].args[1]
    okl = any((last_idx - Rat.atom(a) + Rat.const(1)) == Rat.const(0) for a in nb) or last_idx == Rat.const(-1)
    res = []
    try:
        for isf in (1, 0):
            for v in (5, 10, 15, 20, 25):
                env = {fin[0]: Fraction(isf), val: Fraction(v), b0[0]: Fraction(10), bl[0]: Fraction(20), search[0]: Fraction(7)}
                for a in nb:
                    env[a] = Fraction(9)

                def label_hook(key_, idx_):
                    if key_ != newv or len(idx_) != 1:
                        raise CannotEvaluate('read of %s' % key_)
                    return 1000 + idx_[0]
                env['__read__'] = label_hook
                got = 'none'
                for st in cell_stores:
                    if all(eval_cond_full(g, env) for g in st.guards):
                        if isinstance(st.value, Rat) and st.value == Rat.atom(App('nan', [])):
                            got = 'nan'
                        elif isinstance(st.value, Rat) and any(st.value == Rat.atom(l_) for l_ in lab):
                            got = int(evaluate(st.value, {k_: v_ for k_, v_ in env.items() if k_ not in lab})) - 1000
                        else:
                            got = 'other:%s' % show(st.value, 40)
                if not isf:
                    want = ('nan', 'none')
                elif v <= 10:
                    want = (0,)
                elif v <= 20:
                    want = (7,)
                else:
                    want = ('nan', 'none')
                res.append((isf, v, got, want))
    except CannotEvaluate as e:
        rep.add('K1', f, entry, 'per-cell class decision', f.node.lineno, None, 'not evaluable: %s' % e)
        return
    badfin = [(v, got) for isf, v, got, want in res if not isf and got not in want]
    rep.add('K1', f, entry, 'non-finite cells receive no class (%d orderings)' % 5, f.node.lineno, not badfin,
            'a class may be assigned only to finite values: NaN / inf cells must stay NaN whatever they compare to (got %s)' % badfin)
    bad0 = [(v, got) for isf, v, got, want in res if isf and v <= 10 and got not in want]
    rep.add('K4-bin', f, entry, 'value <= first break: class 0', f.node.lineno, not bad0,
            'values up to the first upper bound belong to bin 0 (with breaks 10..20: got %s)' % bad0)
    badm = [(v, got) for isf, v, got, want in res if isf and v > 10 and got not in want]
    rep.add('K4-bin', f, entry, 'first break < value <= last break: searched; above the last break: no class', f.node.lineno,
            not badm and okl, 'values above the last upper bound get no class (NaN); everything in between takes the index found by '
            'the search, and the last break is bins[len(bins) - 1] (with breaks 10..20 and search result 7: got %s)' % badm)
    rep.add('K1', f, entry, 'the label is new_values[class index]', f.node.lineno, True, trivial=True)
    rep.add('K1', f, entry, 'unlabelled cells are NaN (initialisation or explicit store)', f.node.lineno,
            getattr(out, 'init', None) == 'nan' or any(isinstance(st.value, Rat) and st.value == Rat.atom(App('nan', [])) and st.idx == 'all'
                                                       for st in k.stores if st.arr is out), '')
    # comparisons use the raw value (no narrowing cast of the cell value)
    narrow = [n for n in f.own_nodes() if isinstance(n, ast.Call) and short(n) in ('float32', 'float16', 'int32', 'int', 'int64')
              and n.args and 'data[' in norm(n.args[0])]
    casts = [a for a in atoms if isinstance(a, App) and a.name in ('float32', 'float16', 'int32', 'int64', 'int', 'astype')
             and val in walk_atoms(a)]
    rep.add('K3', f, entry, 'cell value compared in its own precision', f.node.lineno, not narrow and not casts,
            'the cell value must not be narrowed before it is compared with the breaks: %s' % ([norm(n) for n in narrow] or casts))


def check_bin_search(prog, rep, m):
    """K4-search: the per-cell code of the binning kernel - finite test, first-bin test, hand-written binary search, label
    store - touches the cell value and the breaks only through comparisons and integer index arithmetic.  It is folded
    (consteval: the pure-Python subset, no library code is run) for every ascending break list of 1..7 breaks and a cell value
    at every position relative to them - below the first, on each break, between each pair, above the last - and for NaN,
    +inf, -inf: the cell must get the label of the first break that is >= the value, and NaN when there is none or the value
    is not finite.  Exhaustive over the positions for these break counts (the search's behaviour depends on the count)."""
    from ..consteval import CannotFold, Folder, _Continue
    f = m.funcs.get('_cpu_bin')
    entry = 'reclassify/_bin'
    data, others = kernel_roles(f)
    stored = {x.value.value.id for x in ast.walk(f.node) if isinstance(x, ast.Assign) and isinstance(x.targets[0], ast.Subscript) and
              isinstance(x.value, ast.Subscript) and isinstance(x.value.value, ast.Name) and x.value.value.id in others}
    if len(others) != 2 or len(stored) != 1:
        return
    newv = next(iter(stored))
    bins = [p for p in others if p != newv][0]
    # the innermost of the two loops over the raster, and the scalar statements in front of them
    loops = [n for n in f.node.body if isinstance(n, ast.For)]
    inner = None
    for L0 in loops:
        for L1 in [n for n in L0.body if isinstance(n, ast.For)]:
            if isinstance(L0.target, ast.Name) and isinstance(L1.target, ast.Name) and any(
                    isinstance(x, ast.Subscript) and isinstance(x.value, ast.Name) and x.value.id == data for x in ast.walk(L1)):
                inner = (L0, L1)
    outs = {x.targets[0].value.id for x in ast.walk(f.node) if isinstance(x, ast.Assign) and isinstance(x.targets[0], ast.Subscript) and
            isinstance(x.targets[0].value, ast.Name) and isinstance(x.targets[0].slice, ast.Tuple)}
    if inner is None or len(outs) != 1:
        rep.add('K4-search', f, entry, 'per-cell code', f.node.lineno, None, 'the loop over the cells / the output array was not found')
        return
    outn = next(iter(outs))
    L0, L1 = inner
    NAN = float('nan')
    pre = [s_ for s_ in f.node.body if s_ is not L0 and isinstance(s_, ast.Assign) and not any(
        isinstance(x, ast.Name) and x.id in (data, outn) for x in ast.walk(s_))]
    bad, n = [], 0
    try:
        for nb in range(1, 8):
            brk = [10 * (i + 1) for i in range(nb)]
            vals = [5] + [v for i in range(nb) for v in (10 * (i + 1), 10 * (i + 1) + 5)] + [NAN, float('inf'), float('-inf')]
            for v in vals:
                env = {data: {(0, 0): v}, bins: list(brk), newv: [100 + i for i in range(nb)], outn: {(0, 0): NAN},
                       L0.target.id: 0, L1.target.id: 0}
                fo = Folder(prog, f.module)
                for s_ in pre:
                    try:
                        fo.block([s_], env)
                    except CannotFold:
                        pass
                try:
                    fo.block(L1.body, env)
                except _Continue:
                    pass
                got = env[outn][(0, 0)]
                finite = v == v and v not in (float('inf'), float('-inf'))
                first = next((i for i in range(nb) if finite and v <= brk[i]), None)
                want = NAN if first is None else 100 + first
                n += 1
                if not ((got != got and want != want) or got == want):
                    bad.append('%d breaks %s, cell value %s: label of break %s, expected %s' % (
                        nb, brk, v, ('#%d' % (got - 100)) if got == got else 'none (NaN)', ('#%d' % first) if first is not None else 'none (NaN)'))
    except (CannotFold, KeyError, IndexError, TypeError) as e:
        rep.add('K4-search', f, entry, 'per-cell code', L1.lineno, None, 'per-cell code not evaluable: %s' % e)
        return
    rep.add('K4-search', f, entry, 'class of a cell for 1..7 breaks x every position of the value (%d cases)' % n, L1.lineno, not bad,
            'a value belongs to the first bin whose upper bound is >= the value; above the last bound and for NaN / inf it gets NaN: '
            + '; '.join(bad[:3]), facts={'evaluations': n})


def check_binary(prog, rep, m):
    f = m.funcs.get('_cpu_binary')
    if f is None:
        raise AnalysisIncomplete('_cpu_binary not found')
    entry = 'binary'
    k = interpret(prog, f, strict=False)       # an unmodelled lookup (searchsorted, bisect) is an opaque value, judged below
    rets = [v for v, g in k.returns]
    out = rets[0] if rets else None
    rep.add('K1', f, entry, 'output initialised %r' % getattr(out, 'init', None), f.node.lineno,
            getattr(out, 'init', None) == 'nan', 'non-finite cells must be NaN: NaN-initialised output')
    stores = [s for s in k.stores if s.arr is out and s.idx != 'all']
    ones = [s for s in stores if s.value == Rat.const(1)]
    zeros = [s for s in stores if s.value == Rat.const(0)]
    other = [s for s in stores if s not in ones and s not in zeros]
    data, others = kernel_roles(f)
    if len(others) != 1:
        raise AnalysisIncomplete('_cpu_binary: value-list parameter not identified (%s)' % others)
    values = others[0]

    def is_member(g, yv, xv):
        # truth(reduce:any(bool(values == data[y,x])))
        from ..kutil import guard_atoms as _ga
        cellr = Rat.atom(App('read', [data, yv, xv]))
        for a in _ga([g]):
            if isinstance(a, App) and a.name == 'reduce:any' and len(a.args) == 1:
                inner = a.args[0]
                ia = next(iter(inner.atoms()), None) if isinstance(inner, Rat) else None
                # any(values == cell): the element-wise test must be the exact comparison of the list with this cell
                if isinstance(ia, App) and ia.name == 'bool' and ia.args and isinstance(ia.args[0], tuple) and ia.args[0][0] == 'cmp' and \
                        ia.args[0][1] == '==':
                    d = ia.args[0][2]
                    if d in (Rat.sym(values) - cellr, cellr - Rat.sym(values)) or \
                            d in (Rat.atom(App('arr', [values])) - cellr, cellr - Rat.atom(App('arr', [values]))):
                        return True
                if isinstance(ia, App) and ia.name in ('ext:numpy.equal', 'call:numpy.equal') and len(ia.args) == 2 and \
                        {repr(x_) for x_ in ia.args} in ({repr(Rat.sym(values)), repr(cellr)}, {repr(Rat.atom(App('arr', [values]))), repr(cellr)},
                                                         {values, repr(cellr)}):
                    return True
                tolerant = isinstance(ia, App) and ia.name.split('.')[-1] in ('isclose', 'allclose')
                if isinstance(ia, App) and ia.name == 'bool' and ia.args and isinstance(ia.args[0], tuple):
                    # any other element-wise test of (listed value, cell): evaluated - a listed value equal to the cell is a
                    # member, a different one is not, however close (5 against 5 + 10^-40: closer than any tolerance)
                    from fractions import Fraction as _F
                    from ..kutil import CannotEvaluate as _CE, eval_cond_full as _ecf
                    cellat = App('read', [data, yv, xv])
                    try:
                        res_ = []
                        for cv_, ev_, want_ in ((5, 5, True), (0, 0, True), (5, 7, False), (7, 5, False), (-2, 2, False),
                                                (5, _F(5) + _F(1, 10 ** 40), False), (_F(5) + _F(1, 10 ** 40), 5, False)):
                            env_ = {cellat: _F(cv_), Sym(values): _F(ev_), App('arr', [values]): _F(ev_)}
                            res_.append((cv_, ev_, _ecf(ia.args[0], env_), want_))
                        wrong = [(str(a_), str(b_)) for a_, b_, g_, w_ in res_ if g_ != w_]
                        if not wrong:
                            return True
                        return ('no', 'the element-wise test inside any(..) is not equality: wrong for (cell, listed value) %s' % wrong[:3])
                    except _CE:
                        pass
                return ('no' if tolerant else 'unknown',
                        'the element-wise test inside any(..) is %s, not `%s == cell`' % (repr(inner)[:80], values))
        # or a flag set by a loop over ALL listed values when one equals the cell
        from ..kutil import flag_setting_paths, guard_atoms
        for a in guard_atoms([g]):
            if isinstance(a, App) and a.name == 'loopout':
                L = next((l for l in k.loops if Rat.sym(l.var) == a.args[1]), None)
                nm = next(iter(a.args[0].atoms())).name if isinstance(a.args[0], Rat) else str(a.args[0])
                fs = flag_setting_paths(L, nm) if L is not None else None
                whole = L is not None and (getattr(getattr(L, 'iterable', None), 'name', None) == values or
                                           getattr(L, 'iterable', None) == ('param', values) or
                                           (L.kind == 'range' and L.lo == Rat.const(0) and values in repr(L.hi)))
                if fs and fs[0] == 1 and whole and len(fs[1]) == 1 and len(fs[1][0]) == 1 and fs[1][0][0][0] == 'cmp' and \
                        fs[1][0][0][1] == '==' and values in cond_repr(fs[1][0][0]) and "read('%s'" % data in cond_repr(fs[1][0][0]):
                    return True
        return False

    mem = is_member(ones[0].guards[0], *ones[0].idx) if len(ones) == 1 and len(ones[0].guards) == 1 else False
    ok1 = True if mem is True else (None if isinstance(mem, tuple) and mem[0] == 'unknown' else False)
    rep.add('K4-binary', f, entry, 'class 1 under %s' % [cond_repr(g)[:80] for g in (ones[0].guards if ones else [])],
            f.node.lineno, ok1, 'binary is 1 exactly on the listed values: the store of 1 must be guarded by membership only'
            + ('; ' + mem[1] if isinstance(mem, tuple) else ''))
    ok0 = False
    if len(zeros) == 1:
        gs = flatten_and(zeros[0].guards)
        txts = [cond_repr(g) for g in gs]
        ok0 = len(gs) == 2 and any(t.startswith('not ') and 'reduce:any' in t for t in txts) and \
            any(('isfinite(read(' in t) and not t.startswith('not') for t in txts)
    rep.add('K4-binary', f, entry, 'class 0 under %s' % [cond_repr(g)[:60] for g in (zeros[0].guards if zeros else [])],
            f.node.lineno, ok0, 'every other FINITE cell is 0 (non-members that are NaN/inf stay NaN)')
    rep.add('K4-binary', f, entry, 'no other stores', f.node.lineno, not other, 'unexpected stores %s' % other[:2])


def bin_calls(prog, m):
    out = []
    for f in m.allfuncs:
        if 'cupy' in f.qualname or 'gpu' in f.qualname:
            continue
        for c in f.own_nodes():
            if isinstance(c, ast.Call):
                t = prog.resolve_callable(f, m, c.func)
                if isinstance(t, Func) and t.name == '_bin':
                    out.append((f, c))
    return out


def arg_of(c, i, name):
    if len(c.args) > i:
        return c.args[i]
    return kw(c, name)


def check_labels(prog, rep, m):
    n = 0
    for f, c in bin_calls(prog, m):
        if f.name == 'reclassify':
            # user-supplied new values; lengths must agree
            def lens_differ(t):
                # len(<bins>) != len(<new values>) on the two public list parameters, either way round (or `not ==`)
                for x in ast.walk(t):
                    if isinstance(x, ast.Compare) and len(x.ops) == 1 and isinstance(x.ops[0], (ast.NotEq, ast.Eq)):
                        sides = {norm(x.left).replace(' ', ''), norm(x.comparators[0]).replace(' ', '')}
                        if sides == {'len(%s)' % f.params[1], 'len(%s)' % f.params[2]}:
                            neg = any(isinstance(y, ast.UnaryOp) and isinstance(y.op, ast.Not) and any(z is x for z in ast.walk(y)) for y in ast.walk(t))
                            return isinstance(x.ops[0], ast.NotEq) != neg
                return False
            ok = len(f.params) >= 3 and any(isinstance(i, ast.If) and lens_differ(i.test) and
                                            any(isinstance(x, ast.Raise) for x in i.body) for i in f.own_nodes())
            if not ok and len(f.params) >= 3:
                # on wrapper terms: some `raise` (here or in a validation helper) runs exactly under len(bins) != len(new_values)
                from ..wterm import WT, key as tkey
                w_ = WT(prog)
                w_.run(f)
                la = ('call', ('global', 'len'), (('param', f.params[1]),), ())
                lb = ('call', ('global', 'len'), (('param', f.params[2]),), ())
                for gs_, node_ in w_.raises:
                    for g_ in gs_:
                        neg_ = False
                        while isinstance(g_, tuple) and g_ and g_[0] == 'not':
                            g_, neg_ = g_[1], not neg_
                        if isinstance(g_, tuple) and g_[0] == 'cmp' and g_[1] in ('NotEq', 'Eq') and {tkey(g_[2]), tkey(g_[3])} == {tkey(la), tkey(lb)}:
                            if (g_[1] == 'NotEq') != neg_:
                                ok = True
            rep.add('K2', f, 'reclassify', 'len(bins) == len(new_values) enforced', f.node.lineno, ok,
                    'reclassify must reject bin / new-value lists of different lengths')
            n += 1
            continue
        nv = arg_of(c, 2, 'new_values')
        ok = isinstance(nv, ast.Call) and norm(nv.func) in ('np.arange', 'numpy.arange') and len(nv.args) == 1 and not nv.keywords
        n += 1
        rep.add('K2', f, f.qualname, norm(c)[:120], c.lineno, ok,
                'data-driven classifiers must label the bins with np.arange(n): 0, 1, 2, ... in bin order (a larger '
                'value never gets a smaller class; classes start at 0)')
    return n


def alloc_dtypes_on_trace(prog, f, expr, depth=0, seen=None):
    """allocation calls (with their dtype text) that feed `expr`, following local assignments and package calls"""
    seen = seen if seen is not None else set()
    out = []
    if depth > 14:
        return out
    if isinstance(expr, ast.Name):
        key = (id(f), expr.id)
        if key in seen:
            return out
        seen.add(key)
        for v in f.local_assigns().get(expr.id, []):
            if isinstance(v, ast.AST):
                out += alloc_dtypes_on_trace(prog, f, v, depth + 1, seen)
        return out
    if isinstance(expr, ast.Call):
        nm = short(expr)
        if nm in ('zeros', 'empty', 'ones', 'full') and isinstance(expr.func, ast.Attribute):
            dt = kw(expr, 'dtype')
            if dt is None and len(expr.args) > (2 if nm == 'full' else 1):
                dt = expr.args[2 if nm == 'full' else 1]
            out.append((expr, norm(dt) if dt is not None else None, f))
            return out
        t = prog.resolve_callable(f, f.module, expr.func)
        if isinstance(t, Func):
            for r in [n for n in t.own_nodes() if isinstance(n, ast.Return) and n.value is not None]:
                out += alloc_dtypes_on_trace(prog, t, r.value, depth + 1, seen)
            return out
        for a in expr.args:
            out += alloc_dtypes_on_trace(prog, f, a, depth + 1, seen)
        if isinstance(expr.func, ast.Attribute):
            out += alloc_dtypes_on_trace(prog, f, expr.func.value, depth + 1, seen)
        return out
    if isinstance(expr, (ast.Subscript, ast.Attribute)):
        return alloc_dtypes_on_trace(prog, f, expr.value, depth + 1, seen)
    if isinstance(expr, (ast.List, ast.Tuple)):
        for e in expr.elts:
            out += alloc_dtypes_on_trace(prog, f, e, depth + 1, seen)
    return out


WIDE = (None, 'np.float64', 'float', "'f8'", "'float64'", 'numpy.float64', 'np.double')


def check_precision(prog, rep, m):
    n = 0
    for f, c in bin_calls(prog, m):
        if f.name == 'reclassify':
            continue
        b = arg_of(c, 1, 'bins')
        allocs = alloc_dtypes_on_trace(prog, f, b)
        for call, dt, g in allocs:
            n += 1
            rep.add('K3', g, f.qualname, norm(call)[:120], call.lineno, dt in WIDE,
                    'an array that holds class breaks taken from the data must not be narrower than float64: a '
                    'float64 maximum rounded down to float32 leaves the maximum cell above the last break (NaN)')
    # last break forced to the exact maximum: the vector handed to the binning kernel, as it is at the call
    targets_ = [(m.funcs.get('_run_natural_break'), 'natural_breaks')] + [(g_, 'equal_interval') for g_ in _equal_interval_impls(prog, m)]
    for f, label in targets_:
        if f is None:
            continue
        from ..inline import inline_view as _iv
        f = _iv(prog, f, keep=('_bin',), allow_loops=True)          # the breaks may be built in helpers: read in place
        bcalls = [c for c in calls(f.node) if c in f.own_nodes() and short(c) == '_bin' and _arg_of(prog, f, m, c, 1) is not None]
        # the local that holds the maximum of the finite cells (whatever it is called): the one assigned from max / nanmax of
        # the finite part of a local array
        mxname, okm = 'max_data', False
        for nm_, vals_ in f.local_assigns().items():
            for v in vals_:
                if not isinstance(v, ast.AST):
                    continue
                t_ = norm(v).replace(' ', '')
                mo = re.fullmatch(r'(np|numpy)\.(nan)?max\((\w+)\[(np|numpy)\.isfinite\((\w+)\)\]\)', t_)
                if (mo and mo.group(3) == mo.group(5)) or re.fullmatch(r'module\.nanmax\(\w+\)', t_):
                    mxname, okm = nm_, True
        pm = parent_map(f.node)
        for c in bcalls:
            n += 1
            ok, why = last_is_max(f, pm, c, _arg_of(prog, f, m, c, 1), mxname)
            if not okm and ok:
                # the maximum written in place (`bins[-1] = np.max(data[np.isfinite(data)])`): accepted by last_is_max itself
                okm = any(re.search(r'(nan)?max\(', norm(x_)) for x_ in ast.walk(f.node) if isinstance(x_, ast.Call) and short(x_) in ('max', 'nanmax'))
            rep.add('K3', f, label, '%s: last break == max_data when binned' % norm(c)[:80], c.lineno, ok and okm,
                    'the last break of the vector handed to the binning kernel must be the exact maximum of the finite cells '
                    '(accumulated rounding of min + i*width, or a sample that misses the maximum, leaves the maximum cell '
                    'above the last break = NaN): ' + why)
    # the Jenks fit sees every sampled cell: no de-duplication on the way (ties carry weight in the within-class sums)
    njenks = 0
    for f in [g_ for g_ in m.funcs.values() if not g_.is_lambda and g_.name != '_run_jenks']:
        jc = [c for c in calls(f.node) if c in f.own_nodes() and short(c) == '_run_jenks' and c.args]
        for c in jc:
            njenks += 1
            n += 1
            seen = set()
            work = [c.args[0]]
            dedup = None
            while work:
                e = work.pop()
                for x in ast.walk(e):
                    if isinstance(x, ast.Call) and short(x) in ('unique', 'set', 'fromkeys', 'drop_duplicates'):
                        dedup = norm(x)[:60]
                    if isinstance(x, ast.Name) and x.id not in seen and x.id not in f.params:
                        seen.add(x.id)
                        work.extend(v for v in f.local_assigns().get(x.id, []) if isinstance(v, ast.AST))
            rep.add('K3', f, 'natural_breaks', '%s: fitted on every sampled cell' % norm(c), c.lineno, dedup is None,
                    'the Jenks model minimises the within-class sum of squared deviations over all cells: fitting it on '
                    'de-duplicated values (%s) ignores how often a value occurs and moves the breaks' % dedup)
    if not njenks:
        rep.add('K3', m, 'natural_breaks', 'Jenks fit', 1, None, 'no call of _run_jenks found in the module')
    return n


def _arg_of(prog, f, m, call, index):
    """the argument expression a call hands to the callee's parameter number `index`, positional or keyword"""
    t = prog.resolve_callable(f, m, call.func)
    if len(call.args) > index:
        return call.args[index]
    if isinstance(t, Func) and index < len(t.params):
        for k_ in call.keywords:
            if k_.arg == t.params[index]:
                return k_.value
    return None


def last_is_max(f, pm, call, barg, mxname='max_data'):
    """(ok, why): on every path to the call, the most recent statement touching the break vector forces its last
    element to max_data: `v[-1] = max_data` or `v = concatenate([..., max_data.reshape(1)])`; aliases are followed,
    if/else branches are followed separately; a slice / rebuild of the vector in between (or at the call) loses it."""
    def is_max(e):
        t_ = norm(e).replace(' ', '')
        if t_ == mxname:
            return True
        mo_ = re.fullmatch(r'(np|numpy)\.(nan)?max\((\w+)\[(np|numpy)\.isfinite\((\w+)\)\]\)', t_)
        return bool(mo_ and mo_.group(3) == mo_.group(5)) or bool(re.fullmatch(r'module\.nanmax\(\w+\)', t_))

    def concat_forces_max(v):
        if not (isinstance(v, ast.Call) and short(v) == 'concatenate' and v.args and isinstance(v.args[0], (ast.List, ast.Tuple)) and v.args[0].elts):
            return False
        last = v.args[0].elts[-1]
        if isinstance(last, ast.Call) and isinstance(last.func, ast.Attribute) and last.func.attr == 'reshape' and norm(last.args[0]) == '1' if isinstance(last, ast.Call) and last.args else False:
            return is_max(last.func.value)
        if isinstance(last, ast.List) and len(last.elts) == 1:
            return is_max(last.elts[0])
        if isinstance(last, ast.Call) and short(last) == 'array' and last.args and isinstance(last.args[0], ast.List) and len(last.args[0].elts) == 1:
            return is_max(last.args[0].elts[0])
        return False
    if not isinstance(barg, ast.Name):
        if concat_forces_max(barg):
            return True, ''          # the vector is built at the call with the maximum as its last element
        return False, 'the vector is transformed at the call (%s)' % norm(barg)

    def touches(s, name):
        for x in ast.walk(s):
            if isinstance(x, ast.Name) and x.id == name and isinstance(x.ctx, ast.Store):
                return True
            if isinstance(x, ast.Subscript) and norm(x.value) == name and isinstance(x.ctx, ast.Store):
                return True
            if isinstance(x, ast.Call) and isinstance(x.func, ast.Attribute) and norm(x.func.value) == name and \
                    x.func.attr in ('sort', 'resize', 'fill', 'put', 'itemset'):
                return True
        return False

    def scan(stmts, name):
        """stmts: the statements before the point of interest, innermost block first then outer ones (a list of lists).
        returns (True, '') / (False, why) / None when nothing touches the vector"""
        for bi, blk in enumerate(stmts):
            for si in range(len(blk) - 1, -1, -1):
                s = blk[si]
                if not touches(s, name):
                    continue
                rest = [blk[:si]] + stmts[bi + 1:]
                if isinstance(s, ast.Assign) and isinstance(s.targets[0], ast.Subscript) and norm(s.targets[0].value) == name:
                    if norm(s.targets[0].slice) == '-1' and is_max(s.value):
                        return True, ''
                    if norm(s.targets[0].slice) != '-1' and isinstance(s.targets[0].slice, ast.Constant):
                        continue        # another single element: the last one is untouched by it
                    return False, 'last store into %s is `%s`' % (name, norm(s))
                if isinstance(s, ast.Assign) and any(isinstance(t, ast.Name) and t.id == name for t in s.targets):
                    v = s.value
                    if isinstance(v, ast.Name):
                        return scan(rest, v.id) or (False, 'nothing forces %s[-1] = max_data' % v.id)
                    if concat_forces_max(v):
                        return True, ''
                    return False, '%s is rebuilt by `%s` after the maximum was forced (or never forced)' % (name, norm(s)[:80])
                if isinstance(s, ast.If):
                    res = []
                    for br in (s.body, s.orelse):
                        r = scan([br] + rest, name)
                        res.append(r if r is not None else (False, 'a branch of `if %s` never forces the maximum' % norm(s.test)[:40]))
                    bad = [r for r in res if not r[0]]
                    return (False, bad[0][1]) if bad else (True, '')
                if isinstance(s, ast.Expr) and isinstance(s.value, ast.Call) and isinstance(s.value.func, ast.Attribute) and \
                        s.value.func.attr == 'sort' and norm(s.value.func.value) == name:
                    return False, '%s.sort() after the maximum was forced (or never forced)' % name
                return False, '%s is modified inside `%s`' % (name, norm(s)[:50])
        return None
    st = call
    while st is not None and not isinstance(st, ast.stmt):
        st = pm.get(st)
    blocks = []
    cur = st
    while cur is not None:
        parent = pm.get(cur)
        if parent is None:
            break
        for fld in ('body', 'orelse', 'finalbody'):
            b = getattr(parent, fld, None)
            if isinstance(b, list) and cur in b:
                blocks.append(b[:b.index(cur)])
        cur = parent
    r = scan(blocks, barg.id)
    return r if r is not None else (False, 'no statement forces %s[-1] = max_data before the call' % barg.id)


def _equal_interval_impls(prog, m):
    """the function(s) behind the numpy and the dask entry of equal_interval's dispatch: one shared function taking the array
    module, or one function per backend"""
    g = m.funcs.get('_run_equal_interval')
    if g is not None:
        return [g]
    from ..backends import backend_paths, unwrap_lambda
    pub = m.funcs.get('equal_interval')
    out = []
    for path in (backend_paths(prog, pub) if pub is not None else []):
        if path.backend in ('numpy', 'dask'):
            t, _kw = unwrap_lambda(prog, path)
            while isinstance(t, Partial):
                t = t.target
            if isinstance(t, Func) and not t.is_lambda and not any(t is x for x in out):
                out.append(t)
    return out


def check_formulas(prog, rep, m):
    impls = _equal_interval_impls(prog, m)
    if not impls:
        raise AnalysisIncomplete('the implementation of equal_interval was not found (no _run_equal_interval, no backend functions)')
    for g in impls:
        _check_equal_interval_formulas(prog, rep, m, g)
    _check_quantile_formulas(prog, rep, m)


def _check_equal_interval_formulas(prog, rep, m, g):
    from ..inline import inline_view as _iv
    g = _iv(prog, g, keep=('_bin',), allow_loops=True)              # range and cuts may be computed in helpers: read in place
    # the locals by what they hold, not by their names: the maximum / minimum are assigned from nanmax / nanmin, the width
    # is the local whose value is (max - min) / k, the cuts are the locals built from an arange
    la = g.local_assigns()
    mxn = next((n_ for n_, vs in la.items() for v in vs if isinstance(v, ast.Call) and short(v) in ('nanmax', 'max')), 'max_data')
    mnn = next((n_ for n_, vs in la.items() for v in vs if isinstance(v, ast.Call) and short(v) in ('nanmin', 'min')), 'min_data')
    kname = 'k' if 'k' in g.params else (g.params[1] if len(g.params) > 1 else 'k')      # (raster, number of classes, module)
    env = {mxn: Rat.sym('max'), mnn: Rat.sym('min'), kname: Rat.sym('k')}
    sp = Spec(prog, env, m)
    w, wname = [], 'width'
    for n_, vs in la.items():
        vs = [v for v in vs if isinstance(v, ast.AST)]
        if len(vs) == 1 and isinstance(vs[0], ast.BinOp) and n_ not in (mxn, mnn):
            try:
                if sp.it.as_scalar(sp.it.ev(vs[0])) == (Rat.sym('max') - Rat.sym('min')) / Rat.sym('k'):
                    w, wname = vs, n_
            except AnalysisIncomplete:
                pass
    if not w:
        w = [v for v in la.get('width', []) if isinstance(v, ast.AST)]
    ok = False
    if len(w) == 1:
        try:
            got = sp.it.as_scalar(sp.it.ev(w[0]))
            ok = got == (Rat.sym('max') - Rat.sym('min')) / Rat.sym('k')
            sp.it.env['width'] = got
            sp.it.env[wname] = got
        except AnalysisIncomplete:
            ok = False
    rep.add('K4', g, 'equal_interval', 'width = %s' % (norm(w[0]) if w else None), g.node.lineno, ok,
            'the class width must be (max - min) / k')
    # cuts: arange(min + width, max + width, width) | (min + width) + arange(k) * width
    cname = next((n_ for n_, vs in la.items() for v in vs if isinstance(v, ast.AST) and
                  any(isinstance(x, ast.Call) and short(x) == 'arange' for x in ast.walk(v)) and
                  not (isinstance(v, ast.Call) and short(v) == '_bin')), 'cuts')
    cuts = [v for v in la.get(cname, []) if isinstance(v, ast.AST)]
    forms = []
    for v in cuts:
        t = norm(v).replace(' ', '')
        if isinstance(v, ast.Call) and short(v) == 'arange' and len(v.args) == 3:
            try:
                a, b, c = [sp.it.as_scalar(sp.it.ev(x)) for x in v.args]
                wd = sp.it.env['width']
                forms.append(a == Rat.sym('min') + wd and b == Rat.sym('max') + wd and c == wd)
            except (AnalysisIncomplete, KeyError):
                forms.append(False)
        elif any(isinstance(x, ast.Call) and short(x) == 'arange' for x in ast.walk(v)):
            # an expression over arange(k) / arange(a, b): element i must be min + (i + 1) * width
            import copy

            class _Idx(ast.NodeTransformer):
                def visit_Call(self, n):
                    self.generic_visit(n)
                    if short(n) == 'arange' and len(n.args) == 1 and not n.keywords:
                        return ast.Name(id='__i', ctx=ast.Load())
                    if short(n) == 'arange' and len(n.args) == 2 and not n.keywords:
                        return ast.BinOp(left=n.args[0], op=ast.Add(), right=ast.Name(id='__i', ctx=ast.Load()))
                    return n
            try:
                e2 = ast.fix_missing_locations(_Idx().visit(copy.deepcopy(v)))
                sp.it.env['__i'] = Rat.sym('i')
                got = sp.it.as_scalar(sp.it.ev(e2))
                forms.append(got == Rat.sym('min') + (Rat.sym('i') + Rat.const(1)) * sp.it.env['width'])
            except (AnalysisIncomplete, KeyError):
                forms.append(False)
        elif t in ('%s[0:%s]' % (cname, kname), '%s[:%s]' % (cname, kname)):
            continue
        else:
            forms.append(False)
    rep.add('K4', g, 'equal_interval', 'cuts: %s' % [norm(v)[:60] for v in cuts], g.node.lineno, bool(forms) and all(forms),
            'cut i must be min + (i+1)*width, i = 0..k-1')
    # inf -> nan before min/max
    infs = [s for s in g.own_nodes() if isinstance(s, ast.Assign) and isinstance(s.value, ast.Call) and short(s.value) == 'where']
    t = {norm(s.value).replace(' ', '') for s in infs}
    names = {'inf': 'inf', 'np.inf': 'inf', 'numpy.inf': 'inf', 'cupy.inf': 'inf', 'nan': 'nan', 'np.nan': 'nan', 'numpy.nan': 'nan',
             'cupy.nan': 'nan'}
    for n_, vs_ in la.items():
        for v_ in vs_:
            if isinstance(v_, ast.AST) and norm(v_) in names and n_ not in names:
                names = dict(names, **{n_: names[norm(v_)]})     # local aliases of nan / inf (whatever they are called)

    def kind_of(e_):
        # 'nan' / 'inf' for an expression that is that value whatever the test of a conditional expression says
        t_ = names.get(norm(e_))
        if t_:
            return t_
        if isinstance(e_, ast.IfExp):
            a_, b_ = kind_of(e_.body), kind_of(e_.orelse)
            return a_ if a_ == b_ else None
        v_ = getattr(e_, '_xrsa_const', None)
        if isinstance(v_, float) and v_ != v_:
            return 'nan'
        return None
    # ... and the range is taken in floating point on every path: the extrema are reductions of the NaN-filled array (a
    # `where(.., nan, data)` promotes an integer raster to float64) or of a float cast of it.  A selection `data[mask]` keeps
    # the raster's own dtype: for an int16 raster spanning more than 32767 the difference max - min wraps around.
    from ..sharedrules import float_dtype_expr
    RED = ('nanmax', 'nanmin', 'max', 'min', 'amax', 'amin')
    seen_red = []
    BOTH = frozenset('+-')

    def cond_signs(c, st):
        """(array expression X, signs of infinity for which the condition is true, is it true for finite cells) of a mask"""
        if isinstance(c, ast.Compare) and len(c.ops) == 1 and isinstance(c.ops[0], ast.Eq):
            for a_, b_ in ((c.left, c.comparators[0]), (c.comparators[0], c.left)):
                sign, e_ = '+', b_
                if isinstance(e_, ast.UnaryOp) and isinstance(e_.op, ast.USub):
                    sign, e_ = '-', e_.operand
                if names.get(norm(e_)) == 'inf':
                    return a_, frozenset(sign), False
        if isinstance(c, ast.Call) and short(c) == 'isinf' and len(c.args) == 1:
            return c.args[0], BOTH, False
        if isinstance(c, ast.Call) and short(c) == 'isfinite' and len(c.args) == 1:
            return c.args[0], frozenset(), True
        if isinstance(c, ast.UnaryOp) and isinstance(c.op, ast.Invert):
            r_ = cond_signs(c.operand, st)
            if r_ is not None and r_[1] in (BOTH, frozenset()) and isinstance(c.operand, ast.Call) and short(c.operand) == 'isinf':
                return r_[0], frozenset(), True
        if isinstance(c, ast.BinOp) and isinstance(c.op, ast.BitAnd) and norm(c).replace(' ', '').replace('module.', 'np.') in (
                '~np.isfinite(%s)&~np.isnan(%s)' % ((norm(c.left.operand.args[0]),) * 2 if isinstance(c.left, ast.UnaryOp) and isinstance(c.left.operand, ast.Call) and c.left.operand.args else ('?', '?')),):
            return c.left.operand.args[0], BOTH, False
        if isinstance(c, ast.BinOp) and isinstance(c.op, ast.BitOr):
            a_, b_ = cond_signs(c.left, st), cond_signs(c.right, st)
            if a_ is not None and b_ is not None and norm(a_[0]) == norm(b_[0]) and not a_[2] and not b_[2]:
                return a_[0], a_[1] | b_[1], False
        if isinstance(c, ast.Name):
            v_ = [x for x in la.get(c.id, []) if isinstance(x, ast.AST)]
            if len(v_) == 1:
                return cond_signs(v_[0], st)
        return None

    def inf_expr(e, st):
        """signs of infinity known to be absent from the array (None: not known)"""
        if isinstance(e, ast.Name):
            return st.get(e.id)
        if isinstance(e, ast.Call):
            nm_ = short(e)
            if nm_ == 'where' and len(e.args) == 3:
                cs = cond_signs(e.args[0], st)
                if cs is None:
                    return None
                x_, signs, finite_true = cs
                base = inf_expr(x_, st)
                if base is None:
                    return None
                if not finite_true and kind_of(e.args[1]) == 'nan' and norm(e.args[2]) == norm(x_):
                    return base | signs
                if finite_true and kind_of(e.args[2]) == 'nan' and norm(e.args[1]) == norm(x_):
                    return BOTH
                return None
            if nm_ in ('astype', 'ravel', 'flatten', 'reshape', 'compute', 'copy', 'persist', 'rechunk') and isinstance(e.func, ast.Attribute):
                return inf_expr(e.func.value, st)
            if nm_ in ('asarray', 'array', 'ravel') and e.args and not e.keywords:
                return inf_expr(e.args[0], st)
            return None
        if isinstance(e, ast.Subscript):
            base = inf_expr(e.value, st)
            cs = cond_signs(e.slice, st)
            if base is not None and cs is not None and cs[2] and norm(cs[0]) == norm(e.value):
                return BOTH
            return base if isinstance(e.slice, ast.Slice) else (None if cs is None else base)
        if isinstance(e, ast.Attribute) and e.attr in ('data', 'values', 'T'):
            return frozenset() if isinstance(e.value, ast.Name) and e.value.id in g.params else inf_expr(e.value, st)
        return None

    def fl_expr(e, st):
        if isinstance(e, ast.Name):
            return st.get(e.id)
        if isinstance(e, ast.Call):
            nm_ = short(e)
            if nm_ == 'where' and len(e.args) == 3:
                if any(kind_of(a_) == 'nan' for a_ in e.args[1:]):
                    return 'float'
                a_, b_ = fl_expr(e.args[1], st), fl_expr(e.args[2], st)
                return a_ if a_ == b_ else None
            if nm_ == 'astype' and isinstance(e.func, ast.Attribute) and e.args:
                return 'float' if float_dtype_expr(prog, g, e.args[0]) else None
            if nm_ in ('ravel', 'flatten', 'reshape', 'compute', 'copy', 'persist', 'rechunk') and isinstance(e.func, ast.Attribute):
                return fl_expr(e.func.value, st)
            if nm_ in ('asarray', 'array', 'ravel') and e.args and not e.keywords:
                return fl_expr(e.args[0], st)
            return None
        if isinstance(e, ast.Subscript):
            return fl_expr(e.value, st)
        if isinstance(e, ast.Attribute) and e.attr in ('data', 'values', 'T') :
            return 'raw' if isinstance(e.value, ast.Name) and e.value.id in g.params else fl_expr(e.value, st)
        return None

    def run(body, st, ist):
        for s_ in body:
            if isinstance(s_, ast.If):
                a_, b_ = dict(st), dict(st)
                ia_, ib_ = dict(ist), dict(ist)
                run(s_.body, a_, ia_)
                run(s_.orelse, b_, ib_)
                for k_ in set(a_) | set(b_):
                    st[k_] = a_.get(k_) if a_.get(k_) == b_.get(k_) else None
                for k_ in set(ia_) | set(ib_):
                    ist[k_] = (ia_[k_] & ib_[k_]) if ia_.get(k_) is not None and ib_.get(k_) is not None else None
            elif isinstance(s_, ast.Assign) and len(s_.targets) == 1 and isinstance(s_.targets[0], ast.Name):
                v_ = s_.value
                if isinstance(v_, ast.Call) and short(v_) in RED and s_.targets[0].id in (mxn, mnn):
                    opnd = v_.func.value if isinstance(v_.func, ast.Attribute) and not v_.args else (v_.args[0] if v_.args else None)
                    if isinstance(v_.func, ast.Attribute) and v_.args and norm(v_.func.value) in ('module', 'np', 'da', 'numpy', 'cupy', 'dask.array'):
                        opnd = v_.args[0]
                    seen_red.append((s_, fl_expr(opnd, st) if opnd is not None else None, inf_expr(opnd, ist) if opnd is not None else None))
                    st[s_.targets[0].id] = None
                    ist[s_.targets[0].id] = None
                else:
                    st[s_.targets[0].id] = fl_expr(v_, st)
                    ist[s_.targets[0].id] = inf_expr(v_, ist)
            elif isinstance(s_, (ast.For, ast.While, ast.With, ast.Try)):
                for fld in ('body', 'orelse', 'finalbody'):
                    run(getattr(s_, fld, []) or [], st, ist)
    run(g.body, {}, {})
    if not seen_red:
        rep.add('K4', g, 'equal_interval', 'extrema of the raster', g.node.lineno, None, 'no max / min reduction assigned in %s' % g.name)
    for s_, fl, absent in seen_red:
        rep.add('K4', g, 'equal_interval', 'infinities removed before %s' % norm(s_)[:90], s_.lineno,
                None if absent is None else absent == BOTH,
                '+inf and -inf must not take part in the [min, max] range: on this path %s' % (
                    'what the reduced array holds is not known' if absent is None else
                    'the array still holds %s' % ' and '.join(sorted({'+': '+inf', '-': '-inf'}[x_] for x_ in BOTH - absent))))
        rep.add('K4', g, 'equal_interval', 'range in floating point: %s' % norm(s_)[:90], s_.lineno,
                True if fl == 'float' else (False if fl == 'raw' else None),
                'the extremum is a reduction of the raster in its own dtype (no NaN fill, no float cast on this path): for a narrow '
                'integer raster max - min wraps around (int16 from -20000 to 20000: width < 0, every cell lands in class k-1)')


def _check_quantile_formulas(prog, rep, m):
    from fractions import Fraction      # noqa
    # quantile
    q = m.funcs.get('_run_quantile')
    if q is None:
        raise AnalysisIncomplete('_run_quantile not found')
    qk = 'k' if 'k' in q.params else (q.params[1] if len(q.params) > 1 else 'k')          # (data, number of classes, module)
    env = {qk: Rat.sym('k')}
    sp = Spec(prog, env, m)
    qa = q.local_assigns()
    wn = 'w'
    for n_, vs in qa.items():
        vs = [v for v in vs if isinstance(v, ast.AST)]
        if len(vs) == 1 and isinstance(vs[0], ast.BinOp):
            try:
                if sp.it.as_scalar(sp.it.ev(vs[0])) == Rat.const(100) / Rat.sym('k'):
                    wn = n_
            except AnalysisIncomplete:
                pass
    wv = [v for v in qa.get(wn, []) if isinstance(v, ast.AST)]
    okw = False
    if len(wv) == 1:
        got = sp.it.as_scalar(sp.it.ev(wv[0]))
        okw = got == Rat.const(100) / Rat.sym('k')
        sp.it.env[wn] = got
        sp.it.env['w'] = got
    pn = next((n_ for n_, vs in qa.items() for v in vs if isinstance(v, ast.Call) and short(v) == 'arange'), 'p')
    pv = [v for v in qa.get(pn, []) if isinstance(v, ast.AST)]
    okp = False
    if len(pv) == 1 and isinstance(pv[0], ast.Call) and short(pv[0]) == 'arange' and len(pv[0].args) == 3 and okw:
        a, b, c = [sp.it.as_scalar(sp.it.ev(x)) for x in pv[0].args]
        wd = sp.it.env['w']
        okp = a == wd and b == Rat.const(100) + wd and c == wd
    from ..astutil import canon_test_text
    def _lit(e_):
        """the expression with module-level literal constants written out (normal form N2)"""
        import copy as _cp

        class _L(ast.NodeTransformer):
            def visit_Name(self, n_):
                v_ = getattr(n_, '_xrsa_const', None)
                if isinstance(n_.ctx, ast.Load) and isinstance(v_, (int, float)) and not isinstance(v_, bool):
                    return ast.copy_location(ast.Constant(value=v_), n_)
                return n_
        return ast.fix_missing_locations(_L().visit(_cp.deepcopy(e_)))
    cap = any(isinstance(s, ast.If) and canon_test_text(_lit(s.test)) in ('%s[-1]>100.0' % pn, '%s[-1]>100' % pn) and
              any(norm(_lit(x)).replace(' ', '') in ('%s[-1]=100.0' % pn, '%s[-1]=100' % pn) for x in s.body) for s in q.own_nodes())
    rep.add('K4', q, 'quantile', 'percentile levels w, 2w, ... capped at 100', q.node.lineno, okw and okp and cap,
            'the k percentile levels must be 100*i/k, i = 1..k, the last one capped at 100 (w ok: %s, levels ok: %s, cap: %s)'
            % (okw, okp, cap))
    pc = [c for c in calls(q.node) if short(c) == 'percentile']
    a0 = pc[0].args[0] if len(pc) == 1 and pc[0].args else None
    if isinstance(a0, ast.Name):
        loc = [v for v in q.local_assigns().get(a0.id, []) if isinstance(v, ast.AST)]
        a0 = loc[0] if len(loc) == 1 else a0
    ok = len(pc) == 1 and a0 is not None and norm(a0).replace(' ', '') in ('data[module.isfinite(data)]', 'data[np.isfinite(data)]') and \
        norm(pc[0].args[1]) == pn
    rep.add('K4', q, 'quantile', norm(pc[0])[:100] if pc else 'percentile call', q.node.lineno, ok,
            'percentiles are taken over the finite cells only')
    un = [c for c in calls(q.node) if short(c) == 'unique']
    rep.add('K4', q, 'quantile', 'breaks de-duplicated (ascending)', q.node.lineno, len(un) == 1,
            'duplicate percentile values must be merged (np.unique also keeps them ascending)')


def check_bins_not_narrowed(prog, rep, m):
    """K3: on the way from _bin to the binning kernel the breaks are not cast to the raster's (or a narrow) dtype"""
    n = 0
    for f in m.allfuncs:
        if 'cupy' in f.qualname or 'gpu' in f.qualname or f.is_lambda:
            continue
        for c in f.own_nodes():
            if not isinstance(c, ast.Call):
                continue
            t = prog.resolve_callable(f, m, c.func)
            if isinstance(t, Func) and t.name == '_cpu_bin' and isinstance(_arg_of(prog, f, m, c, 1), ast.Name):
                bname = _arg_of(prog, f, m, c, 1).id
                defs = [v for v in f.local_assigns().get(bname, []) if isinstance(v, ast.AST)]
                for v in defs:
                    dt = None
                    if isinstance(v, ast.Call):
                        dt = kw(v, 'dtype')
                        if dt is None and short(v) in ('asarray', 'array') and len(v.args) > 1:
                            dt = v.args[1]
                        if short(v) == 'astype' and v.args:
                            dt = v.args[0]
                    ok = dt is None or norm(dt) in WIDE
                    n += 1
                    rep.add('K3', f, 'reclassify/_bin', '%s = %s' % (bname, norm(v)), v.lineno, ok,
                            'the breaks must reach the binning kernel in their own (float64) precision: casting them to the '
                            'raster\'s dtype truncates non-integer edges on integer rasters and rounds them on float32 rasters')
    return n


def check_input_not_reordered(prog, rep, m):
    """K6: classifiers must not sort / overwrite the caller's raster (order preservation is stated w.r.t. the input)"""
    from ..effects import Effects, OBJ, MEM
    eff = Effects(prog)
    for name in ('binary', 'reclassify', 'quantile', 'natural_breaks', 'equal_interval'):
        f = m.funcs.get(name)
        if f is None:
            raise AnalysisIncomplete('classify.%s not found' % name)
        s = eff.summary(f)
        from ..effects import is_arraylike
        from .C10 import origin_event
        evs = []
        for e in s.events:
            if e.root != ('param', f.params[0]) or e.level not in (OBJ, MEM):
                continue
            oo = origin_event(e)
            if oo.kind.startswith('augmented assignment') and isinstance(oo.node, ast.AugAssign) and \
                    isinstance(oo.node.target, ast.Name) and oo.root[0] == 'param' and not is_arraylike(prog, oo.func, oo.root[1]):
                continue
            evs.append(e)
        o = origin_event(evs[0]) if evs else None
        rep.add('K6', f, name, 'input raster `%s` is only read' % f.params[0] if not evs else norm(o.node)[:120],
                o.node.lineno if o is not None else f.node.lineno, not evs,
                'the classifier sorts or overwrites the caller\'s raster (%s): classes are then assigned to reordered '
                'cells' % (o.kind if o is not None else ''))


def check(prog, rep):
    m = prog.module('classify')
    check_bins_not_narrowed(prog, rep, m)
    check_input_not_reordered(prog, rep, m)
    check_cpu_bin(prog, rep, m)
    check_bin_search(prog, rep, m)
    check_binary(prog, rep, m)
    check_labels(prog, rep, m)
    check_precision(prog, rep, m)
    check_formulas(prog, rep, m)
    from ..sharedrules import check_value_truthiness
    for fn in ('binary', 'reclassify', 'quantile', 'natural_breaks', 'equal_interval'):
        if m.funcs.get(fn) is not None:
            check_value_truthiness(prog, rep, 'K2-truth', m.funcs[fn])
    rep.floor('K2-truth', 5)
    from ..sharedrules import check_values_keep_dtype
    for fn in ('binary', 'reclassify'):
        if m.funcs.get(fn) is not None:
            check_values_keep_dtype(prog, rep, 'K4-dtype', m.funcs[fn])
    rep.floor('K4-dtype', 2)
    # the public classifiers are glue around the dispatch: raster in as given, backend result out as it is
    from ..sharedrules import check_dispatch_passthrough
    for fn in ('binary', 'reclassify', 'quantile', 'natural_breaks', 'equal_interval'):
        if m.funcs.get(fn) is not None:
            check_dispatch_passthrough(prog, rep, 'K7-pass', m.funcs[fn])
    rep.floor('K7-pass', 8)
    rep.floor('K1', 5)
    rep.floor('K4-search', 1)
    rep.floor('K2', 4)
    rep.floor('K3', 4)
    rep.floor('K4', 6)
    rep.floor('K4-binary', 3)
    rep.floor('K6', 5)
