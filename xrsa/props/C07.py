"""C07 - chunked proximity equals whole-raster proximity.

Decided on the dask path of proximity/allocation/direction (one shared implementation): the map_overlap site runs the
numpy path's own closure kernel over (data, x-grid, y-grid) in the kernel's parameter order, NaN boundary; each halo
pad is int(max_distance / cellsize_of_its_own_axis + c), c >= 0 (>= floor(max_distance / cellsize), what integer cell
offsets need) and sits in its axis' slot of `depth`; the single-block fallback is taken when max_distance >= the
corner-to-corner distance under the chosen metric and rechunks data and both grids to the full shape with depth 0;
the coordinate grids are built from the raster's own coordinates and chunked like the data.
"""
import ast

from ..astutil import calls, const, kw, parent_map, short
from ..dasksites import NAN_TEXTS, sites_in
from ..kutil import Spec
from ..program import AnalysisIncomplete, Func, Partial, norm
from ..sym import App, Rat


def distance_param_roles(prog, dist):
    """{'x1'|'x2'|'y1'|'y2'|'metric': parameter of the metric dispatcher}, read off the public great_circle_distance(x1, x2,
    y1, y2) call it reaches; None when that cannot be read"""
    from ..kai import interpret
    from ..sym import Rat, Sym
    try:
        k = interpret(prog, dist, strict=False)
    except AnalysisIncomplete:
        return None
    for r in getattr(k, 'inlined', []):
        if r[0].name == 'great_circle_distance':
            bound = dict(zip(r[0].params, r[1]))
            bound.update(r[2] or {})
            out = {}
            for role in ('x1', 'x2', 'y1', 'y2'):
                v = bound.get(role)
                nm = None
                if isinstance(v, tuple) and len(v) == 2 and v[0] == 'param':
                    nm = v[1]
                elif isinstance(v, Rat):
                    ats = list(v.atoms())
                    if len(ats) == 1 and isinstance(ats[0], Sym) and v == Rat.atom(ats[0]):
                        nm = ats[0].name
                if nm not in dist.params:
                    return None
                out[role] = nm
            rest = [p_ for p_ in dist.params if p_ not in out.values()]
            if len(set(out.values())) == 4 and len(rest) == 1:
                out['metric'] = rest[0]
                return out
    return None


def check_depth_terms(prog, rep, impl, dfun, site, wt, rec, np_terms, entry):
    """P7a / P7b on the terms of the map_overlap call: depth = (rows, columns), each `0 if C else pad`; C compares
    max_distance with the corner-to-corner distance; under C the arrays are rechunked to one block"""
    from ..wterm import key as tkey, show as tshow, resolve, to_rat, atom_term, mentions, walk as twalk
    line = site.call.lineno
    d = rec.kwargs.get('depth')
    if d is None:
        rep.add('P7a', dfun, entry, 'depth', line, False, 'map_overlap without a depth has no halo')
        return

    def none_false(c):
        if c[0] == 'cmp' and c[1] in ('Is', 'IsNot') and ('const', None) in (c[2], c[3]):
            other = c[3] if c[2] == ('const', None) else c[2]
            if other[0] == 'param':
                return c[1] == 'IsNot'
        return None
    d = resolve(d, none_false)

    def push(t):
        # `halo = (0, 0) if C else (py, px)`: a choice between pairs is a pair of choices
        if t[0] == 'dict' and sorted(k_[1] for k_, v_ in t[1] if k_[0] == 'const') == [0, 1] and len(t[1]) == 2:
            byk_ = {k_[1]: v_ for k_, v_ in t[1]}
            return ('tuple', (byk_[0], byk_[1]))          # {0: rows, 1: columns} is the pair (rows, columns)
        if t[0] == 'phi':
            a, b = push(t[2]), push(t[3])
            if a[0] == 'tuple' and b[0] == 'tuple' and len(a[1]) == len(b[1]):
                return ('tuple', tuple(('phi', t[1], x, y) for x, y in zip(a[1], b[1])))
        return t
    d = push(d)
    if d[0] == 'tuple' and len(d[1]) == 2:
        comps = list(d[1])
    elif d[0] == 'dict' and sorted(k_[1] for k_, v_ in d[1] if k_[0] == 'const') == [0, 1]:
        byk = {k_[1]: v_ for k_, v_ in d[1]}
        comps = [byk[0], byk[1]]
    else:
        rep.add('P7a', dfun, entry, 'depth = %s' % tshow(d, 100), line, None, 'depth is not a (rows, columns) pair')
        return
    # the fallback condition: the phi condition shared by the depth components
    conds = [c_[1] for c_ in comps if c_[0] == 'phi']
    if len(conds) != 2 or tkey(conds[0]) != tkey(conds[1]):
        rep.add('P7b', dfun, entry, 'single-block fallback', line, False if not conds else None,
                'the documented fallback `if max_distance >= <raster extent>` is missing' if not conds else 'the two depths are chosen under different conditions')
        return
    C = conds[0]
    neg = False
    while C[0] == 'not':
        C, neg = C[1], not neg
    md = ('param', 'max_distance')
    okc, whole_when, other = False, None, None
    if C[0] == 'cmp' and C[1] in ('Lt', 'LtE') and (tkey(C[2]) == tkey(md) or tkey(C[3]) == tkey(md)):
        # a <= b: the whole raster when max_distance is the larger side
        whole_when = (tkey(C[3]) == tkey(md)) != neg
        other = C[2] if tkey(C[3]) == tkey(md) else C[3]
        okc = True
    rep.add('P7b', dfun, entry, 'if %s' % tshow(conds[0], 100), line, okc or None, 'fallback comparison must relate max_distance to the raster extent')
    if not okc:
        return
    # threshold: the dispatcher on the opposite corners of the grids, under the chosen metric
    okmp, whymp = None, ''
    crec = [x for x in wt.calls if isinstance(x.result, tuple) and len(x.result) == 5 and len(other) == 5 and x.result[4] == other[4]] \
        if other[0] == 'call' else []
    if crec and isinstance(crec[0].callee, Func) and np_terms is not None and len(np_terms) >= 3:
        dr = distance_param_roles(prog, crec[0].callee)
        b_ = {k_: resolve(v_, none_false) for k_, v_ in crec[0].bound.items()}
        if dr is not None and all(dr[r_] in b_ for r_ in dr):
            XS, YS = np_terms[1], np_terms[2]

            def corner(t):
                for g_, G in (('x', XS), ('y', YS)):
                    for n_, k_ in ((0, 0), (1, -1)):
                        forms = (('index', ('index', G, ('const', k_)), ('const', k_)), ('index', G, ('tuple', (('const', k_), ('const', k_)))))
                        if any(tkey(t) == tkey(f_) for f_ in forms):
                            return g_, n_
                return None
            c_ = {r_: corner(b_[dr[r_]]) for r_ in ('x1', 'x2', 'y1', 'y2')}
            okmp = all(v_ is not None for v_ in c_.values()) and c_['x1'][0] == c_['x2'][0] == 'x' and c_['y1'][0] == c_['y2'][0] == 'y' and \
                c_['x1'][1] == c_['y1'][1] and c_['x2'][1] == c_['y2'][1] and c_['x1'][1] != c_['x2'][1]
            mt = b_[dr['metric']]
            kmt = wt.env.get('distance_metric')
            kmt = resolve(kmt, none_false) if kmt is not None else None
            okmp = okmp and (mentions(mt, ('param', 'distance_metric')) and (kmt is None or tkey(kmt) == tkey(mt)))
            whymp = 'corners %s, metric %s' % (c_, tshow(mt, 60))
    rep.add('P7b', impl, entry, 'threshold = %s' % tshow(other, 120), impl.node.lineno, okmp,
            'the fallback threshold must be the corner-to-corner distance of the raster under the chosen metric; ' + whymp)
    # the two branches
    # (conds[0] true <=> whole raster) iff whole_when, with the `not` wrappers folded into whole_when
    def pick(t, whole):
        # whole_when: the value of the condition as written (negations included) under which the whole raster is taken
        truth = (whole == whole_when)
        return resolve(t, lambda c: truth if tkey(c) == tkey(conds[0]) else none_false(c))
    wd = [pick(c_, True) for c_ in comps]
    ok0 = all(x[0] == 'const' and isinstance(x[1], int) and not isinstance(x[1], bool) and x[1] >= 0 for x in wd)
    rep.add('P7b', dfun, entry, 'fallback depth %s' % [tshow(x, 30) for x in wd], line, ok0,
            'with a single block no halo is needed: both depths must be non-negative constants in the fallback branch')
    raster = ('param', impl.params[0])
    full = [('index', ('attr', raster, 'shape'), ('const', 0)), ('index', ('attr', raster, 'shape'), ('const', 1))]

    def one_block(t):
        # X.rechunk({0: rows, 1: cols}) / X.rechunk((rows, cols)) / X.rechunk(-1) ...
        if t[0] == 'call' and isinstance(t[1], tuple) and t[1][0] == 'method' and t[1][2] == 'rechunk' and t[2]:
            a = t[2][0]
            if a[0] == 'dict':
                byk = {k_[1]: v_ for k_, v_ in a[1] if k_[0] == 'const'}
                return all(k_ in byk and (tkey(byk[k_]) == tkey(full[k_]) or byk[k_] == ('const', -1)) for k_ in (0, 1))
            if a[0] == 'tuple' and len(a[1]) == 2:
                return all(tkey(a[1][k_]) == tkey(full[k_]) or a[1][k_] == ('const', -1) for k_ in (0, 1))
            if a == ('const', -1):
                return True
        return False
    arrs = [pick(a, True) for a in rec.args[1:]]
    blocks = []
    for n_, a in enumerate(arrs):
        ob = one_block(a)
        if not ob:
            # re-assigned in place (raster.data = raster.data.rechunk(..)) under the fallback condition
            for tgt, val, guards, node in wt.stores:
                if tkey(tgt) == tkey(a) and any(tkey(resolve(g_, none_false)) == tkey(conds[0]) for g_ in guards) and one_block(val):
                    ob = True
        blocks.append(ob)
    rep.add('P7b', dfun, entry, 'fallback rechunks %d of %d arrays to one block' % (sum(1 for x in blocks if x), len(blocks)), line,
            bool(blocks) and all(blocks), 'when every target may matter the data and BOTH coordinate grids must become one block of the full '
            'shape (rows from shape[0], columns from shape[1])')
    # halo branch: pads
    hd = [pick(c_, False) for c_ in comps]
    for slot, ax in enumerate(('y', 'x')):
        try:
            v = _pad_rat(hd[slot], raster)
        except ValueError as e:
            # not the quotient of max_distance and a resolution component: the term is evaluated on model rasters instead
            bad = _pad_models(hd[slot], raster, ax)
            rep.add('P7a', dfun, entry, 'depth[%d] = %s' % (slot, tshow(hd[slot], 80)), line, None if bad is None else not bad,
                    str(e) if bad is None else 'the halo on the %s axis must reach every cell within max_distance: %s' % (
                        'row' if ax == 'y' else 'column', '; '.join(bad[:2])))
            continue
        ok, why = pad_form(v, ax)
        rep.add('P7a', dfun, entry, 'depth[%d] = %s' % (slot, tshow(hd[slot], 80)), line, ok,
                'the halo on the %s axis (depth slot %d) must be int(max_distance / cellsize_%s + c) with c >= 0 or a '
                'ceil of that quotient: %s' % ('row' if ax == 'y' else 'column', slot, ax, why))


def _pad_models(t, raster, ax):
    """the pad term evaluated on model rasters that are taller than wide and wider than tall, with different cell sizes on the
    two axes, ascending and descending coordinates, for several max_distance: [] when the halo covers every cell offset
    within max_distance on axis `ax` (at least floor(max_distance / cell size) cells) each time, a list of counterexamples
    otherwise, None when the term cannot be evaluated."""
    from ..wterm import eval_term
    from fractions import Fraction as Fr
    import math

    def coords_axis(c_):
        while isinstance(c_, tuple) and c_ and c_[0] in ('data', 'cast'):
            c_ = c_[1]
        if isinstance(c_, tuple) and c_ and c_[0] == 'attr' and c_[2] in ('values', 'data'):
            c_ = c_[1]
        if isinstance(c_, tuple) and c_ and c_[0] == 'coord' and c_[1] == raster:
            return c_[2] if c_[2] in ('x', 'y') else None
        if isinstance(c_, tuple) and c_ and c_[0] == 'index' and c_[1] in (('attr', raster, 'coords'), raster, ('attr', raster, 'indexes')):
            d = c_[2]
            if d[0] in ('param', 'const') and d[1] in ('x', 'y'):
                return d[1]
        return None
    bad = []
    try:
        for ys, xs in (([0, 5, 10, 15, 20, 25, 30], [0, 2, 4]), ([10, 5, 0], [0, 2, 4, 6, 8, 10, 12]), ([0, 5, 10], [4, 2, 0])):
            for NB, D in [(nb_, d_) for nb_ in ((2, 2), (3, 1), (1, 3)) for d_ in (Fr(3), Fr(10), Fr(25, 2), Fr(19))]:
                def hook(x, ys=ys, xs=xs, D=D, NB=NB):
                    if not isinstance(x, tuple) or not x:
                        return None
                    if x[0] == 'index' and isinstance(x[1], tuple) and x[1][:1] == ('attr',) and len(x[1]) == 3 and x[1][2] == 'numblocks' and \
                            x[1][1] in (raster, ('data', raster)) and x[2][0] == 'const' and x[2][1] in (0, 1, -1, -2):
                        return NB[x[2][1]]           # how many blocks the raster is split into along that axis
                    if x == ('param', 'max_distance'):
                        return D
                    if x[0] == 'index' and x[1] == ('attr', raster, 'shape') and x[2][0] == 'const' and x[2][1] in (0, 1, -1, -2):
                        return (len(ys), len(xs))[x[2][1]]
                    if x[0] == 'index' and x[2][0] == 'const' and isinstance(x[2][1], int):
                        a_ = coords_axis(x[1])
                        if a_ is not None:
                            arr = xs if a_ == 'x' else ys
                            return arr[x[2][1]] if -len(arr) <= x[2][1] < len(arr) else None
                        if x[1][0] == 'call' and str(x[1][1]).endswith('get_dataarray_resolution') and x[2][1] in (0, 1) and \
                                len(x[1][2]) == 1 and x[1][2][0] == raster and not x[1][3]:
                            return (2, 5)[x[2][1]]
                    if x[0] == 'call' and x[1] == 'builtins.len' and len(x[2]) == 1:
                        a_ = coords_axis(x[2][0])
                        if a_ is not None:
                            return len(xs if a_ == 'x' else ys)
                    return None
                r = eval_term(t, {'__hook__': hook, 'max_distance': D})
                # an axis that is not split needs no halo
                need = math.floor(D / (5 if ax == 'y' else 2)) if NB[0 if ax == 'y' else 1] > 1 else 0
                if r < need:
                    bad.append('%d x %d raster in %d x %d blocks (cell size 5 along y, 2 along x), max_distance %s: %d cells needed, halo %s'
                               % (len(ys), len(xs), NB[0], NB[1], D, need, r))
    except (ValueError, ZeroDivisionError, KeyError, TypeError, IndexError) as e_:
        import os
        if os.environ.get('XRSA_DEBUG'):
            print('pad model not evaluable:', e_)
        return None
    return bad


def _pad_rat(t, raster):
    """the pad term as an expression over max_distance / cellsize_x / cellsize_y (int / ceil / round applications kept)"""
    from ..wterm import to_rat, atom_term, key as tkey
    from ..sym import subst
    names = {'int': 'int', 'builtins.int': 'int', 'round': 'round', 'builtins.round': 'round', 'numpy.ceil': 'ceil', 'math.ceil': 'ceil',
             'ceil': 'ceil', 'np.ceil': 'ceil'}

    def conv(x):
        if x == ('param', 'max_distance'):
            return Rat.sym('max_distance')
        if x[0] == 'index' and x[1][0] == 'call' and str(x[1][1]).endswith('get_dataarray_resolution') and x[2][0] == 'const' and x[2][1] in (0, 1):
            if not x[1][2] or x[1][2][0] != raster:
                raise ValueError('cell sizes of something else than the raster: %s' % (x[1][2],))
            # get_dataarray_resolution(agg, xdim='x', ydim='y') -> (size along xdim, size along ydim): which axis a component
            # measures depends on the dimension names it was called with
            b_ = dict(zip(('agg', 'xdim', 'ydim'), x[1][2]))
            b_.update(dict(x[1][3]))
            dim = b_.get('xdim' if x[2][1] == 0 else 'ydim', ('const', 'x' if x[2][1] == 0 else 'y'))
            axis = {('param', 'x'): 'x', ('const', 'x'): 'x', ('param', 'y'): 'y', ('const', 'y'): 'y'}.get(dim)
            if axis is None:
                raise ValueError('cell size along an unrecognised dimension: %s' % (dim,))
            return Rat.sym('cellsize_' + axis)
        if x[0] == 'const' and isinstance(x[1], (int, float)) and not isinstance(x[1], bool):
            return to_rat(x)
        if x[0] == 'call' and len(x[2]) == 1:
            nm = x[1][1] if isinstance(x[1], tuple) and x[1][0] == 'global' else x[1]
            if nm in names:
                return Rat.atom(App(names[nm], [conv(x[2][0])]))
        if x[0] == 'call' and len(x[2]) == 2:
            nm = x[1][1] if isinstance(x[1], tuple) and x[1][0] == 'global' else x[1]
            if nm in ('min', 'builtins.min', 'numpy.minimum'):
                # a capped pad: whatever the cap is, the halo can end up smaller than the distance needs
                for a_ in x[2]:
                    try:
                        return Rat.atom(App('min', [conv(a_), Rat.sym('cap')]))
                    except ValueError:
                        continue
        if x[0] == 'arith':
            def f(a):
                at = atom_term(a)
                return conv(at) if at is not None else None
            return subst(x[1], f)
        raise ValueError('pad term %s' % tkey(x)[:120])
    return conv(t)


def impl_parts(prog, t):
    """the implementation function, its closures, and the module-level functions of the same module it calls (a closure
    turned into a module-level function that gets what it closed over as parameters is still part of it)"""
    from ..backends import callees
    out = [t] + list(t.children.values())
    for g in list(out):
        for h in callees(prog, g):
            if isinstance(h, Func) and prog.same_unit(t.module, h.module) and h.parent is None and not any(h is x for x in out) and h.jit is None:
                out.append(h)
    return out


def find_impl(prog):
    m = prog.module('proximity')
    impls = set()
    for name in ('proximity', 'allocation', 'direction'):
        pub = m.funcs.get(name)
        if pub is None:
            raise AnalysisIncomplete('proximity.%s not found' % name)
        found = None
        for n in pub.own_nodes():
            if isinstance(n, ast.Call):
                t = prog.resolve_callable(pub, m, n.func)
                while isinstance(t, Partial):
                    t = t.target          # the implementation pre-bound to a mode at module level (functools.partial)
                if isinstance(t, Func) and prog.same_unit(m, t.module) and any(sites_in(prog, g) for g in impl_parts(prog, t)):
                    found = t
        if found is None:
            raise AnalysisIncomplete('%s: shared implementation with a map_overlap site not found' % name)
        impls.add(found)
    if len(impls) != 1:
        raise AnalysisIncomplete('proximity/allocation/direction do not share one implementation')
    return impls.pop()


def check(prog, rep):
    impl = find_impl(prog)
    entry = 'proximity[dask]'
    sites = []
    for g in impl_parts(prog, impl):
        for s in sites_in(prog, g):
            sites.append(s)
    rep.add('P7-site', impl, entry, '%d map_overlap/map_blocks site(s)' % len(sites), impl.node.lineno,
            len(sites) == 1 and sites[0].kind == 'map_overlap', 'expected exactly one map_overlap site')
    if len(sites) != 1:
        return
    site = sites[0]
    dfun = site.scope
    kern = site.kernel()
    if kern is None:
        # the block function is a parameter of a module-level helper: what the implementation hands it (wrapper terms)
        from ..wterm import WT as _WT
        w0 = _WT(prog)
        w0.run(impl)
        for x in w0.calls:
            if x.name.endswith('map_overlap') and x.args and x.args[0][0] == 'localfunc' and isinstance(x.args[0][2], Func):
                kern = x.args[0][2]
    from ..dasksites import check_declared_type
    check_declared_type(rep, 'H8', site, entry)
    # ---- H0: same closure as the numpy branch
    np_calls = []
    for n in impl.own_nodes():
        if isinstance(n, ast.If) and 'np.ndarray' in norm(n.test):
            for c in ast.walk(n):
                if isinstance(c, ast.Call):
                    t = prog.resolve_callable(impl, impl.module, c.func)
                    if isinstance(t, Func):
                        np_calls.append((c, t))
    ok = kern is not None and any(t is kern for c, t in np_calls)
    rep.add('H0', dfun, entry, 'block function %s' % (kern.qualname if kern else None), site.call.lineno, ok,
            'the function mapped over blocks must be the kernel the numpy branch calls')
    # ---- arrays in kernel parameter order, as wrapper terms (wterm.py): local names, helpers and where the grids are
    # wrapped into dask arrays do not matter
    from ..wterm import WT, key as tkey, show as tshow, unwrap_dask
    resf = prog.module('utils').funcs.get('get_dataarray_resolution')
    wt = WT(prog, keep=([kern] if kern is not None else []) + ([resf] if resf is not None else []))
    wt.run(impl)
    npc = [x for x in wt.calls if x.callee is kern]
    dac = [x for x in wt.calls if x.name.endswith('map_overlap') and x.args and x.args[0][0] == 'localfunc' and x.args[0][2] is kern]
    if not dac:
        dac = [x for x in wt.calls if x.name.endswith('map_overlap')]
    np_terms = da_terms = None
    if len(npc) == 1 and len(dac) == 1:
        np_terms = list(npc[0].args)
        da_terms = [unwrap_dask(a) for a in dac[0].args[1:]]
        ok = len(np_terms) == len(da_terms) and all(tkey(a) == tkey(b_) for a, b_ in zip(np_terms, da_terms))
        rep.add('P7-args', dfun, entry, 'map_overlap arrays vs numpy call: %d / %d arguments' % (len(da_terms), len(np_terms)),
                site.call.lineno, ok, 'the data and the two coordinate grids must be passed in the same order on both paths: %s' %
                [(tshow(a, 60), tshow(b_, 60)) for a, b_ in zip(np_terms, da_terms) if tkey(a) != tkey(b_)][:2])
    else:
        rep.add('P7-args', dfun, entry, 'map_overlap arrays vs numpy call', site.call.lineno, None,
                '%d numpy-path calls and %d map_overlap calls of the kernel found' % (len(npc), len(dac)))
    # ---- H2
    b = site.kwargs.get('boundary')
    bt = norm(b) if b is not None else None
    from ..astutil import is_nan_expr as _isnan
    rep.add('H2', dfun, entry, 'boundary=%s' % bt, site.call.lineno, bt in NAN_TEXTS or (b is not None and _isnan(b)),
            'halo cells outside the raster must be NaN (NaN is never a target); reflect/periodic/nearest would invent targets')
    # ---- depth and fallback, on the wrapper terms: helpers (module-level or nested), local names and tuple assignments do
    # not matter
    if len(dac) == 1:
        check_depth_terms(prog, rep, impl, dfun, site, wt, dac[0], np_terms, entry)
    else:
        rep.add('P7a', dfun, entry, 'depth', site.call.lineno, None, 'map_overlap call not found in the wrapper terms')
    # coordinate grids wrapped into dask arrays: chunked, and keyed by their content
    fa = [x for x in wt.calls if x.name in ('dask.array.from_array',)]
    grids = [tkey(t) for t in (np_terms or [])[1:3]]
    for x in fa:
        if not x.args or tkey(x.args[0]) not in grids:
            continue
        g = 'xs' if grids.index(tkey(x.args[0])) == 0 else 'ys'
        ch = x.kwargs.get('chunks') or (x.args[1] if len(x.args) > 1 else None)
        nm = x.kwargs.get('name')
        # graph keys: the default name hashes the array's content; an explicit name that is not a function of
        # the grid's values makes two different grids collide when two results are computed together
        okname = nm is None or (nm[0] == 'const' and nm[1] in (None, False)) or \
            (nm[0] == 'call' and str(nm[1]).endswith('tokenize') and any(tkey(a) == tkey(x.args[0]) for a in nm[2]))
        # any chunking is sound: da.map_overlap unifies the chunks of its array arguments
        rep.add('P7-grid', impl, entry, 'dask grid %s = from_array(grid, chunks=%s%s)' % (g, tshow(ch, 40) if ch else None,
                                                                                       ', name=%s' % tshow(nm, 40) if nm else ''),
                x.node.lineno, ch is not None and okname,
                'the dask %s grid must wrap the numpy %s grid built from the raster coordinates, chunked, under a content-derived name' % (g, g))
    if not [x for x in fa if x.args and tkey(x.args[0]) in grids]:
        rep.add('P7-grid', impl, entry, 'dask grids', impl.node.lineno, None, 'no from_array wrapping of the coordinate grids found')
    # coordinate grids built from the raster's coords: the grid terms are evaluated with list models of the few NumPy
    # constructors involved on a 2 x 3 raster with x = (10, 20, 30), y = (1, 2)
    if np_terms is not None and len(np_terms) >= 3:
        XS, YS = [10, 20, 30], [1, 2]
        want = {'xs': [[XS[j_] for j_ in range(3)] for i_ in range(2)], 'ys': [[YS[i_] for j_ in range(3)] for i_ in range(2)]}
        for pos, g in ((1, 'xs'), (2, 'ys')):
            got = np_terms[pos]
            try:
                val = _grid_value(got, impl.params[0], XS, YS, wt.stores, {tkey(g_) for g_ in npc[0].guards})
                ok = val == want[g]
                why = 'on a 2 x 3 raster: %s' % (val,)
            except _NoModel as e:
                ok, why = None, 'no model for %s' % e
                from ..wterm import walk as twalk
                glob = [x[1] for x in twalk(got) if isinstance(x, tuple) and len(x) == 2 and x[0] == 'global' and
                        not x[1].startswith(('np.', 'numpy.', 'da.', 'dask.'))]
                if glob:
                    ok, why = False, 'the grid is taken from module-level state (%s): it must be built from this raster\'s own ' \
                        'coordinates on every call' % sorted(set(glob))[0]
            rep.add('P7-grid', impl, entry, 'grid %s = %s' % (g, tshow(got, 110)), impl.node.lineno, ok,
                    'x grid = the x coordinates tiled over the rows, y grid = the y coordinates repeated along the columns; ' + why)
    # the metric functions are called on the padded grids: NaN coordinates must not be rejected
    from .C19 import nan_guard_rule
    pm = prog.module('proximity')
    for nm in ('euclidean_distance', 'manhattan_distance', 'great_circle_distance'):
        if nm in pm.funcs:
            nan_guard_rule(prog, rep, pm.funcs[nm], 'P7-nan', entry)
    rep.floor('P7a', 2)
    rep.floor('P7b', 4)
    rep.floor('P7-grid', 4)
    rep.floor('H2', 1)


def site_root(a):
    t = norm(a)
    return t


def pad_form(v, ax):
    """v is int(q + c) / ceil(q) / int(ceil(q)) with q = max_distance / cellsize_ax, c >= 0"""
    q = Rat.sym('max_distance') / Rat.sym('cellsize_' + ax)
    at = None
    if v.d.is_const() and len(v.n.t) == 1:
        (m, c), = v.n.t.items()
        if len(m) == 1 and m[0][1] == 1 and c == v.d.const_value() and isinstance(m[0][0], App):
            at = m[0][0]
    if at is None:
        return False, 'not a single int()/ceil() application: %r' % (v,)
    inner = at.args[0]
    if at.name in ('int', 'round') :
        # int(ceil(q)) ?
        if inner.d.is_const() and len(inner.n.t) == 1:
            (m, c), = inner.n.t.items()
            if len(m) == 1 and isinstance(m[0][0], App) and m[0][0].name == 'ceil' and c == inner.d.const_value():
                d = m[0][0].args[0] - q
                return (d.is_const() and d.const_value() >= 0), 'ceil argument %r' % (m[0][0].args[0],)
        d = inner - q
        if d.is_const():
            return d.const_value() >= 0, 'offset %s' % d.const_value()
        return False, 'argument %r is not max_distance / cellsize_%s + const' % (inner, ax)
    if at.name == 'ceil':
        d = inner - q
        return (d.is_const() and d.const_value() >= 0), 'ceil argument %r' % (inner,)
    return False, 'unexpected form %r' % (v,)


class _NoModel(Exception):
    pass


def _grid_value(t, rname, XS, YS, stores=(), use_guards=frozenset()):
    """value of a coordinate-grid term on the model raster (nested lists); _NoModel for anything not modelled"""
    from ..wterm import key as tkey
    shape = (len(YS), len(XS))
    FULL = ('slice', None, None, None)
    NEWAXIS = (('global', 'np.newaxis'), ('global', 'numpy.newaxis'), ('const', None))

    def broadcast(v, shp):
        """v (scalar, list, list of lists) broadcast to the 2-D shape shp"""
        if not isinstance(v, list):
            return [[v] * shp[1] for _ in range(shp[0])]
        if v and not isinstance(v[0], list):
            v = [v]                                            # (n,) reads as (1, n)
        r, c_ = len(v), len(v[0])
        if r not in (1, shp[0]) or c_ not in (1, shp[1]) or any(len(row) != c_ for row in v):
            raise _NoModel('broadcast of a %d x %d value to %s' % (r, c_, shp))
        return [[v[i if r > 1 else 0][j if c_ > 1 else 0] for j in range(shp[1])] for i in range(shp[0])]

    def flat(v):
        return [z for row in v for z in (flat(row) if isinstance(row, list) else [row])] if isinstance(v, list) else [v]

    def reshape(v, shp):
        v = flat(v)
        if len(shp) == 1:
            return v
        r, c_ = shp
        if r == -1:
            r = len(v) // c_
        if c_ == -1:
            c_ = len(v) // r
        if r * c_ != len(v):
            raise _NoModel('reshape size')
        return [v[i * c_:(i + 1) * c_] for i in range(r)]

    def ev(t):
        if t[0] == 'const':
            return t[1]
        if t[0] == 'tuple':
            return tuple(ev(x) for x in t[1])
        if t[0] == 'data' and t[1][0] == 'index' and t[1][1] == ('param', rname) and t[1][2][0] in ('param', 'const'):
            d = t[1][2][1]
            if d in ('x', 'y'):
                return list(XS) if d == 'x' else list(YS)
        if t[0] == 'data' and t[1][0] == 'coord' and t[1][1] == ('param', rname):
            return list(XS) if t[1][2] == 'x' else list(YS)
        if t[0] == 'attr' and t[1] == ('param', rname) and t[2] == 'shape':
            return shape
        if t[0] == 'attr' and t[1] == ('data', ('param', rname)) and t[2] == 'shape':
            return shape
        if t[0] == 'index' and t[2][0] == 'tuple' and len(t[2][1]) == 2 and any(x in NEWAXIS for x in t[2][1]) and \
                all(x in NEWAXIS or x == FULL for x in t[2][1]):
            base = ev(t[1])
            if not isinstance(base, list) or (base and isinstance(base[0], list)):
                raise _NoModel('new axis on a value that is not a vector')
            return [list(base)] if t[2][1][0] in NEWAXIS else [[z] for z in base]
        if t[0] == 'call' and t[1] in ('numpy.empty', 'numpy.zeros', 'numpy.empty_like', 'numpy.zeros_like') and t[2]:
            # an allocated grid, then written as a whole: `g = np.empty(shape); g[:, :] = row[np.newaxis, :]` (broadcast)
            shp = ev(t[2][0]) if not t[1].endswith('_like') else None
            if shp is None and t[2][0] in (('data', ('param', rname)), ('param', rname)):
                shp = shape
            ws = [(tg, v_, g_) for tg, v_, g_, n_ in stores if tg[0] == 'index' and tkey(tg[1]) == tkey(t)]
            if isinstance(shp, tuple) and len(shp) == 2 and len(ws) == 1 and all(tkey(g_) in use_guards for g_ in ws[0][2]):
                ix = ws[0][0][2]
                lead = ix[1] if ix[0] == 'tuple' else (ix,)
                if all(x == FULL or x == ('const', Ellipsis) for x in lead):
                    return broadcast(ev(ws[0][1]), shp)
            raise _NoModel('allocated grid that is not written once as a whole')
        if t[0] == 'index':
            base, idx = ev(t[1]), ev(t[2])
            if isinstance(idx, int) and isinstance(base, (list, tuple)):
                return base[idx]
            raise _NoModel('index')
        if t[0] == 'call':
            fn, args, kws = t[1], [ev(a) for a in t[2]], {k: ev(v) for k, v in t[3]}
            if fn == 'numpy.tile' and len(args) == 2:
                a, reps = args
                if isinstance(reps, int):
                    return flat(a) * reps
                if isinstance(reps, tuple) and len(reps) == 2 and reps[1] == 1:
                    return [list(flat(a)) for _ in range(reps[0])]
                raise _NoModel('tile reps')
            if fn == 'numpy.repeat' and len(args) == 2 and isinstance(args[1], int) and not kws:
                return [z for z in flat(args[0]) for _ in range(args[1])]
            if fn == 'numpy.broadcast_to' and len(args) == 2 and isinstance(args[0], list) and not isinstance(args[0][0], list) \
                    and len(args[0]) == args[1][-1]:
                return [list(args[0]) for _ in range(args[1][0])]
            if fn == 'numpy.meshgrid' and len(args) == 2 and kws.get('indexing', 'xy') in ('xy', 'ij'):
                a, b = flat(args[0]), flat(args[1])
                if kws.get('indexing', 'xy') == 'xy':
                    return ([[a[j] for j in range(len(a))] for i in range(len(b))], [[b[i] for j in range(len(a))] for i in range(len(b))])
                return ([[a[i] for j in range(len(b))] for i in range(len(a))], [[b[j] for j in range(len(b))] for i in range(len(a))])
            if isinstance(fn, tuple) and fn[0] == 'method' and fn[2] == 'reshape':
                shp = args[0] if len(args) == 1 and isinstance(args[0], tuple) else tuple(args)
                return reshape(ev(fn[1]), shp)
            if fn in ('numpy.array', 'numpy.asarray') and len(args) == 1:
                return args[0]
            raise _NoModel(str(fn)[:60])
        raise _NoModel(str(t)[:60])
    v = ev(t)
    if isinstance(v, tuple):
        raise _NoModel('tuple value')
    return v
